package main

// oracle_panic.go — C20: well-formed input never panics the library.  Every
// bsonkit / mongokit / driver entry point is called under recover() and a
// watchdog with oddly shaped documents, filters, updates, projections, sorts
// and array filters built from the supported BSON types: operator arguments of
// the wrong type, unknown operators, empty keys and paths, numeric and dotted
// path corner cases, huge and non-finite numbers, document- and binary-valued
// ids, negative and huge skip / limit, array indexes around the back-fill
// bound.  After the driver calls of an iteration a probe write must still
// succeed.  Model-free.
//
// Every failure is a replayable script of the model-free family `panicscript`
// (`(entry <name> <input>...)`, `(driver <name> <stored doc> <input>...)`,
// `(skip ...)`, `(backfill ...)`, `(unsetid ...)`, `(hugelimit ...)`): the run
// function re-executes it on the real code and answers OK or FAIL <signature>.

import (
	"context"
	"fmt"
	"math"
	"strconv"
	"strings"
	"time"

	"go.mongodb.org/mongo-driver/bson"
	"go.mongodb.org/mongo-driver/bson/primitive"
	"go.mongodb.org/mongo-driver/mongo"
	"go.mongodb.org/mongo-driver/mongo/options"

	"github.com/256dpi/lungo"
	"github.com/256dpi/lungo/bsonkit"
	"github.com/256dpi/lungo/mongokit"
)

var allOperators = []string{
	"$and", "$or", "$nor", "$not", "$eq", "$gt", "$gte", "$lt", "$lte", "$ne", "$in", "$nin", "$exists", "$type", "$all", "$size",
	"$elemMatch", "$mod", "$bitsAllSet", "$bitsAllClear", "$bitsAnySet", "$bitsAnyClear", "$jsonSchema", "$regex", "$options",
	"$set", "$setOnInsert", "$unset", "$rename", "$inc", "$mul", "$min", "$max", "$currentDate", "$push", "$pop", "$pull", "$pullAll",
	"$addToSet", "$bit", "$each", "$position", "$sort", "$slice", "$type", "$", "$$", "$foo", "$[]", "$[x]",
	"bsonType", "required", "properties", "items", "enum", "minimum", "maximum", "minItems", "maxItems", "uniqueItems", "type",
	"allOf", "anyOf", "oneOf", "not", "additionalProperties", "minLength", "maxLength", "multipleOf", "minProperties", "dependencies",
	"pattern", "patternProperties", "additionalItems", "exclusiveMinimum", "exclusiveMaximum", "maxProperties",
}

var weirdPaths = []string{"", "a", "a.b", "a.", ".a", "a..b", "0", "a.0", "a.0.b", "a.$[]", "a.$[x].b", "a.$", "$", "_id", "a.-1", "a.+1", "a.00",
	"a.999", "a.b.c.d", "a.1.2", "x\x00y", "a.$[]", "a.$[].b.$[y]", "a.1600000", "a.9223372036854775807", "a.9223372036854775808",
	"a.99999999999999999999", "b.0.1600001", ".", ".."}

func genWeirdValue(r *rng, depth int) interface{} {
	if depth <= 0 {
		return genScalar(r)
	}
	switch r.intn(6) {
	case 0:
		return genWeirdDoc(r, depth-1)
	case 1:
		n := r.intn(4)
		a := bson.A{}
		for i := 0; i < n; i++ {
			a = append(a, genWeirdValue(r, depth-1))
		}
		return a
	case 2:
		return genValue(r, 2)
	default:
		return genScalar(r)
	}
}

func genWeirdDoc(r *rng, depth int) bson.D {
	n := r.intn(4)
	d := bson.D{}
	for i := 0; i < n; i++ {
		var k string
		switch r.intn(3) {
		case 0:
			k = pick(r, allOperators)
		case 1:
			k = pick(r, weirdPaths)
		default:
			k = pick(r, poolKeys)
		}
		d = append(d, bson.E{Key: k, Value: genWeirdValue(r, depth)})
	}
	return d
}

// guarded runs fn under recover and a watchdog; returns "" | "PANIC: ..." | "HANG"
func guarded(fn func()) string {
	done := make(chan string, 1)
	go func() {
		defer func() {
			if p := recover(); p != nil {
				done <- fmt.Sprintf("PANIC: %v", p)
			}
		}()
		fn()
		done <- ""
	}()
	select {
	case s := <-done:
		return s
	case <-time.After(10 * time.Second):
		return "HANG"
	}
}

// panicSignature: stable id of the kind of failure
func panicSignature(fn, res string) string {
	kind := "panic"
	if res == "HANG" {
		kind = "hang"
	}
	sig := "C20:" + kind + ":" + fn
	switch {
	case strings.Contains(res, "slice bounds") || strings.Contains(res, "index out of range"):
		sig += ":bounds"
	case strings.Contains(res, "uncomparable"):
		sig += ":uncomparable"
	case strings.Contains(res, "interface conversion"):
		sig += ":type-assertion"
	case strings.Contains(res, "nil pointer"):
		sig += ":nil"
	case strings.Contains(res, "divide by zero"):
		sig += ":div0"
	case strings.Contains(res, "makeslice"):
		sig += ":makeslice"
	case strings.Contains(res, "unsupported type"):
		sig += ":unsupported-type"
	}
	return sig
}

// ---------------------------------------------------------------------------
// entry points of bsonkit / mongokit: name, number of inputs, call.  Inputs are
// decoded values (bson.D documents, string paths, arbitrary values); flags are
// not inputs: every combination is called.

type panicEntry struct {
	name string
	run  func(in []interface{})
}

func asD(v interface{}) bson.D {
	if d, ok := v.(bson.D); ok {
		return d
	}
	return bson.D{}
}
func asS(v interface{}) string {
	if s, ok := v.(string); ok {
		return s
	}
	return ""
}
func cl(v interface{}) bsonkit.Doc { return bsonkit.MustConvert(asD(v)) }

var bools = []bool{false, true}

var panicEntries = []panicEntry{
	{"bsonkit.Compare", func(in []interface{}) { bsonkit.Compare(in[0], in[1]); bsonkit.Compare(in[1], in[0]) }},
	{"bsonkit.Get", func(in []interface{}) { bsonkit.Get(cl(in[0]), asS(in[1])) }},
	{"bsonkit.All", func(in []interface{}) {
		for _, a := range bools {
			for _, b := range bools {
				bsonkit.All(cl(in[0]), asS(in[1]), a, b)
			}
		}
	}},
	{"bsonkit.Put", func(in []interface{}) {
		for _, a := range bools {
			bsonkit.Put(cl(in[0]), asS(in[1]), in[2], a)
		}
	}},
	{"bsonkit.Increment", func(in []interface{}) { bsonkit.Increment(cl(in[0]), asS(in[1]), in[2]) }},
	{"bsonkit.Multiply", func(in []interface{}) { bsonkit.Multiply(cl(in[0]), asS(in[1]), in[2]) }},
	{"bsonkit.Push", func(in []interface{}) { bsonkit.Push(cl(in[0]), asS(in[1]), in[2]) }},
	{"bsonkit.Unset", func(in []interface{}) { bsonkit.Unset(cl(in[0]), asS(in[1])) }},
	{"bsonkit.Pop", func(in []interface{}) {
		for _, a := range bools {
			bsonkit.Pop(cl(in[0]), asS(in[1]), a)
		}
	}},
	{"bsonkit.Add", func(in []interface{}) { bsonkit.Add(in[0], in[1]); bsonkit.Add(in[1], in[0]) }},
	{"bsonkit.Mul", func(in []interface{}) { bsonkit.Mul(in[0], in[1]); bsonkit.Mul(in[1], in[0]) }},
	{"bsonkit.Mod", func(in []interface{}) { bsonkit.Mod(in[0], in[1]); bsonkit.Mod(in[1], in[0]) }},
	{"bsonkit.Collect", func(in []interface{}) {
		list := bsonkit.List{cl(in[0]), cl(in[1]), cl(in[0])}
		for i := 0; i < 16; i++ {
			bsonkit.Collect(list, asS(in[2]), i&1 != 0, i&2 != 0, i&4 != 0, i&8 != 0)
		}
	}},
	{"mongokit.Match", func(in []interface{}) { mongokit.Match(cl(in[0]), cl(in[1])) }},
	{"mongokit.Extract", func(in []interface{}) { mongokit.Extract(cl(in[0])) }},
	{"mongokit.Apply", func(in []interface{}) {
		for _, up := range bools {
			mongokit.Apply(cl(in[0]), cl(in[1]), cl(in[2]), up, bsonkit.List{cl(in[3])})
			mongokit.Apply(cl(in[0]), cl(in[1]), cl(in[2]), up, nil)
		}
	}},
	{"mongokit.Project", func(in []interface{}) { mongokit.Project(cl(in[0]), cl(in[1])) }},
	{"mongokit.Sort", func(in []interface{}) {
		mongokit.Sort(bsonkit.List{cl(in[0]), cl(in[1]), cl(in[0])}, cl(in[2]))
	}},
	{"mongokit.Columns", func(in []interface{}) { mongokit.Columns(cl(in[0])) }},
	{"mongokit.Distinct", func(in []interface{}) {
		mongokit.Distinct(bsonkit.List{cl(in[0]), cl(in[1]), cl(in[0])}, asS(in[2]))
	}},
	{"mongokit.CreateIndex+Build", func(in []interface{}) {
		for _, u := range bools {
			ix, err := mongokit.CreateIndex(mongokit.IndexConfig{Key: cl(in[1]), Unique: u, Partial: cl(in[2])})
			if err == nil {
				ix.Build(bsonkit.List{cl(in[0]), cl(in[1]), cl(in[0])})
			}
		}
	}},
	{"mongokit.Collection", func(in []interface{}) {
		// Insert, Find / Update / Delete with the window given as the value inputs
		c := mongokit.NewCollection(true)
		c.Insert(cl(in[0]))
		c.Insert(bsonkit.MustConvert(bson.D{{Key: "_id", Value: int32(7)}}))
		sk, li := int(asI(in[3])), int(asI(in[4]))
		c.Find(cl(in[1]), cl(in[2]), sk, li)
		c.Update(cl(in[1]), bsonkit.MustConvert(bson.D{{Key: "$set", Value: bson.D{{Key: "q", Value: int32(1)}}}}), cl(in[2]), sk, li, nil)
		c.Delete(cl(in[1]), cl(in[2]), sk, li)
	}},
	{"bsonkit.schema", func(in []interface{}) {
		mongokit.Match(cl(in[0]), bsonkit.MustConvert(bson.D{{Key: "$jsonSchema", Value: asD(in[1])}}))
	}},
}

func asI(v interface{}) int64 {
	switch x := v.(type) {
	case int64:
		return x
	case int32:
		return int64(x)
	}
	return 0
}

func findEntry(name string) *panicEntry {
	for i := range panicEntries {
		if panicEntries[i].name == name {
			return &panicEntries[i]
		}
	}
	return nil
}

// ---------------------------------------------------------------------------
// driver level: a fresh collection holding one stored document, then one call

type driverEntry struct {
	name string
	run  func(ctx context.Context, coll lungo.ICollection, stored bson.D, in []interface{})
}

var panicWindow = []int64{0, 1, 2, -1, -7, math.MinInt64, math.MaxInt64, 1<<62 + 1, 1<<63 - 2}

var driverEntries = []driverEntry{
	{"Collection.UpdateOne", func(ctx context.Context, coll lungo.ICollection, st bson.D, in []interface{}) {
		coll.UpdateOne(ctx, bson.D{{Key: "_id", Value: st[0].Value}}, in[0])
	}},
	{"Collection.UpdateMany", func(ctx context.Context, coll lungo.ICollection, st bson.D, in []interface{}) {
		for _, up := range bools {
			coll.UpdateMany(ctx, in[0], bson.D{{Key: "$set", Value: bson.D{{Key: "z", Value: in[1]}}}}, options.Update().SetUpsert(up))
		}
	}},
	{"Collection.ReplaceOne", func(ctx context.Context, coll lungo.ICollection, st bson.D, in []interface{}) {
		coll.ReplaceOne(ctx, bson.D{{Key: "_id", Value: st[0].Value}}, bson.D{{Key: "b", Value: in[0]}})
		coll.ReplaceOne(ctx, in[1], in[2], options.Replace().SetUpsert(true))
	}},
	{"Collection.Find", func(ctx context.Context, coll lungo.ICollection, st bson.D, in []interface{}) {
		cur, err := coll.Find(ctx, in[0], options.Find().SetSort(in[1]).SetProjection(in[2]).SetSkip(asI(in[3])).SetLimit(asI(in[4])))
		if err == nil {
			var out []bson.D
			cur.All(ctx, &out)
		}
	}},
	{"Collection.FindOne", func(ctx context.Context, coll lungo.ICollection, st bson.D, in []interface{}) {
		var out bson.D
		coll.FindOne(ctx, in[0], options.FindOne().SetSort(in[1]).SetProjection(in[2]).SetSkip(asI(in[3]))).Decode(&out)
	}},
	{"Collection.CountDocuments", func(ctx context.Context, coll lungo.ICollection, st bson.D, in []interface{}) {
		coll.CountDocuments(ctx, in[0], options.Count().SetSkip(asI(in[1])).SetLimit(asI(in[2])))
	}},
	{"Collection.FindOneAndUpdate", func(ctx context.Context, coll lungo.ICollection, st bson.D, in []interface{}) {
		for _, up := range bools {
			coll.FindOneAndUpdate(ctx, in[0], in[1], options.FindOneAndUpdate().SetArrayFilters(options.ArrayFilters{Filters: []interface{}{in[2]}}).SetUpsert(up).SetProjection(in[3]))
		}
	}},
	{"Collection.FindOneAndDelete", func(ctx context.Context, coll lungo.ICollection, st bson.D, in []interface{}) {
		coll.FindOneAndDelete(ctx, in[0], options.FindOneAndDelete().SetSort(in[1]).SetProjection(in[2]))
	}},
	{"Collection.DeleteMany", func(ctx context.Context, coll lungo.ICollection, st bson.D, in []interface{}) {
		coll.DeleteMany(ctx, in[0])
	}},
	{"Collection.Distinct", func(ctx context.Context, coll lungo.ICollection, st bson.D, in []interface{}) {
		// the empty field name is a documented panic ("lungo: missing field path")
		f := asS(in[0])
		if f == "" {
			f = "a"
		}
		coll.Distinct(ctx, f, in[1])
	}},
	{"Indexes.CreateOne", func(ctx context.Context, coll lungo.ICollection, st bson.D, in []interface{}) {
		coll.Indexes().CreateOne(ctx, mongo.IndexModel{Keys: in[0], Options: options.Index().SetPartialFilterExpression(in[1])})
	}},
	{"Collection.BulkWrite", func(ctx context.Context, coll lungo.ICollection, st bson.D, in []interface{}) {
		coll.BulkWrite(ctx, []mongo.WriteModel{
			mongo.NewUpdateManyModel().SetFilter(in[0]).SetUpdate(in[1]).SetUpsert(true),
			mongo.NewReplaceOneModel().SetFilter(in[0]).SetReplacement(in[2]),
			mongo.NewDeleteOneModel().SetFilter(in[0]),
			mongo.NewInsertOneModel().SetDocument(in[2]),
		})
	}},
}

func findDriverEntry(name string) *driverEntry {
	for i := range driverEntries {
		if driverEntries[i].name == name {
			return &driverEntries[i]
		}
	}
	return nil
}

// runDriverEntry: insert `stored` into a fresh collection, run the call, then a
// probe write; result "" | PANIC... | HANG | "ENGINE: ..."
func runDriverEntry(client lungo.IClient, collName string, e *driverEntry, stored bson.D, in []interface{}) string {
	ctx := context.Background()
	coll := client.Database("db").Collection(collName)
	res := guarded(func() {
		coll.InsertOne(ctx, stored)
		e.run(ctx, coll, stored, in)
	})
	probe := guarded(func() {
		c2, cancel := context.WithTimeout(ctx, 2*time.Second)
		defer cancel()
		if _, err := client.Database("db").Collection("probe").InsertOne(c2, bson.D{{Key: "n", Value: collName}}); err != nil {
			panic("probe write failed: " + err.Error())
		}
	})
	guarded(func() { coll.Drop(ctx) })
	if res == "" && probe != "" {
		return "ENGINE: after the call a probe write no longer succeeds: " + probe
	}
	return res
}

// ---------------------------------------------------------------------------
// scripts (model-free family `panicscript`)

func encInput(v interface{}) string {
	if s, ok := v.(string); ok {
		return "(str " + hx(s) + ")"
	}
	return enc(v)
}

func decInput(n *sx) interface{} {
	if n.isL && len(n.list) == 2 && n.list[0].atom == "str" {
		return unhx(n.list[1].atom)
	}
	return decValue(n)
}

func scriptOf(kind, name string, in []interface{}) string {
	parts := []string{kind, hx(name)}
	for _, v := range in {
		parts = append(parts, encInput(v))
	}
	return "(" + strings.Join(parts, " ") + ")"
}

func withEngine(fn func(client lungo.IClient)) {
	client, engine, err := lungo.Open(nil, lungo.Options{Store: lungo.NewMemoryStore(), ExpireInterval: time.Hour})
	if err != nil {
		panic(err)
	}
	defer engine.Close()
	fn(client)
}

// the targeted scripts return "" or a failure text
func scriptSkip(call string, skip, limit int64) string {
	res := ""
	withEngine(func(client lungo.IClient) {
		ctx := context.Background()
		coll := client.Database("db").Collection("c")
		coll.InsertOne(ctx, bson.D{{Key: "_id", Value: int32(1)}})
		coll.InsertOne(ctx, bson.D{{Key: "_id", Value: int32(2)}})
		res = guarded(func() {
			switch call {
			case "find":
				cur, err := coll.Find(ctx, bson.D{}, options.Find().SetSkip(skip).SetLimit(limit))
				if err == nil {
					var out []bson.D
					cur.All(ctx, &out)
				}
			case "findOne":
				var out bson.D
				coll.FindOne(ctx, bson.D{}, options.FindOne().SetSkip(skip)).Decode(&out)
			default:
				coll.CountDocuments(ctx, bson.D{}, options.Count().SetSkip(skip).SetLimit(limit))
			}
		})
	})
	return res
}

const backfillBound = 1500000

// Put at index len+offset of an array of length n: refused iff offset > bound
func scriptBackfill(n, offset int64) string {
	arr := bson.A{}
	for i := int64(0); i < n; i++ {
		arr = append(arr, int32(i))
	}
	d := bsonkit.MustConvert(bson.D{{Key: "a", Value: arr}})
	var err error
	res := guarded(func() { _, err = bsonkit.Put(d, "a."+strconv.FormatInt(n+offset, 10), int32(1), false) })
	if res != "" {
		return res
	}
	if offset > backfillBound && err == nil {
		return fmt.Sprintf("Put padded an array of %d elements by %d nulls (bound %d): the padding is not bounded", n, offset, backfillBound)
	}
	if offset <= backfillBound && err != nil {
		return fmt.Sprintf("Put refused to pad an array of %d elements by %d nulls (bound %d): %v", n, offset, backfillBound, err)
	}
	return ""
}

func scriptUnsetID(op string, id interface{}) string {
	res := ""
	withEngine(func(client lungo.IClient) {
		ctx := context.Background()
		coll := client.Database("db").Collection("c")
		coll.InsertOne(ctx, bson.D{{Key: "_id", Value: id}, {Key: "a", Value: int32(1)}})
		upd := bson.D{{Key: "$unset", Value: bson.D{{Key: "_id", Value: ""}}}}
		if op == "rename" {
			upd = bson.D{{Key: "$rename", Value: bson.D{{Key: "_id", Value: "zz"}}}}
		}
		res = guarded(func() {
			coll.UpdateOne(ctx, bson.D{}, upd)
			coll.UpdateMany(ctx, bson.D{}, upd)
			coll.FindOneAndUpdate(ctx, bson.D{}, upd)
		})
		if res == "" {
			var out bson.D
			if err := coll.FindOne(ctx, bson.D{}).Decode(&out); err == nil {
				if len(out) == 0 || out[0].Key != "_id" {
					res = "the stored document lost its _id: " + enc(out)
				}
			}
		}
	})
	return res
}

func runPanicScript(c *sx) string {
	fail := func(sig, res string) string {
		if res == "" {
			return "OK"
		}
		return "FAIL " + sig + " " + res
	}
	switch c.list[0].atom {
	case "entry":
		name := unhx(c.list[1].atom)
		e := findEntry(name)
		if e == nil {
			return "BAD-CASE"
		}
		var in []interface{}
		for _, n := range c.list[2:] {
			in = append(in, decInput(n))
		}
		res := guarded(func() { e.run(in) })
		return fail(panicSignature(name, res), res)
	case "driver":
		name := unhx(c.list[1].atom)
		e := findDriverEntry(name)
		if e == nil {
			return "BAD-CASE"
		}
		stored := asD(decValue(c.list[2]))
		var in []interface{}
		for _, n := range c.list[3:] {
			in = append(in, decInput(n))
		}
		res := ""
		withEngine(func(client lungo.IClient) { res = runDriverEntry(client, "c", e, stored, in) })
		if strings.HasPrefix(res, "ENGINE:") {
			return fail("C20:engine-unusable", res)
		}
		return fail(panicSignature(name, res), res)
	case "skip":
		res := scriptSkip(c.list[1].atom, atoi64(c.list[2].atom), atoi64(c.list[3].atom))
		sig := "C20:negative-skip-panic"
		if atoi64(c.list[2].atom) >= 0 {
			sig = "C20:huge-limit-preallocation"
		}
		return fail(sig, res)
	case "backfill":
		return fail("C20:array-backfill-unbounded", scriptBackfill(atoi64(c.list[1].atom), atoi64(c.list[2].atom)))
	case "unsetid":
		return fail("C20:unset-empty-document-id-panic", scriptUnsetID(c.list[1].atom, decValue(c.list[2])))
	}
	return "BAD-CASE"
}

// ---------------------------------------------------------------------------

func oraclePanic(r *rng, n int, st *oracleStats) []oracleFailure {
	st.Rule = "malformed stream: documents / filters / updates / projections / sorts / array filters whose keys are drawn from all operator names (query, update, projection, schema keywords, unknown), odd paths (empty, leading/trailing/double dots, numeric, positional, indexes beyond the back-fill bound and beyond int64) and plain keys, with arbitrary supported BSON values as arguments; each of 24 bsonkit/mongokit entry points is called under recover() and a 10 s watchdog with every flag combination; every fourth iteration 12 driver calls run on a fresh collection holding a document with a document-/binary-/array-/scalar-valued _id, with skip and limit from {0, 1, 2, -1, -7, MinInt64, MaxInt64, 2^62+1, 2^63-2}, each followed by a probe write; plus the targeted scripts (negative skip, huge limit, back-fill bound at 1499999/1500000/1500001/2^31/2^62 relative to the array length, $unset/$rename of an empty-document _id); non-trivial = the input contains at least one operator key"
	var fails []oracleFailure
	seenSig := map[string]bool{}
	add := func(sig, what, script string) {
		if seenSig[sig] || len(fails) >= 20 {
			return
		}
		seenSig[sig] = true
		fails = append(fails, oracleFailure{Property: "C20", Signature: sig, What: what, Family: "panicscript", Case: script})
	}

	// targeted scripts first (cheap, deterministic)
	for _, call := range []string{"find", "findOne", "count"} {
		for _, sk := range []int64{-1, math.MinInt64} {
			if res := scriptSkip(call, sk, 0); res != "" {
				add("C20:negative-skip-panic", call+" with skip "+strconv.FormatInt(sk, 10)+": "+res, fmt.Sprintf("(skip %s %d 0)", call, sk))
			}
		}
		for _, li := range []int64{math.MaxInt64, 1 << 62, math.MinInt64, -1} {
			if call == "findOne" {
				continue
			}
			if res := scriptSkip(call, 0, li); res != "" {
				add("C20:huge-limit-preallocation", call+" with limit "+strconv.FormatInt(li, 10)+": "+res, fmt.Sprintf("(skip %s 0 %d)", call, li))
			}
		}
	}
	st.Dist["targeted-scripts"] += 20
	// back-fill: the moderate offsets first; the absurd ones only when those are
	// refused (without the bound they would exhaust the memory of the process)
	bounded := true
	for _, c := range [][2]int64{{0, 1499999}, {3, backfillBound}, {0, backfillBound + 1}, {5, backfillBound + 1}, {2, 3000000}} {
		if res := scriptBackfill(c[0], c[1]); res != "" {
			add("C20:array-backfill-unbounded", res, fmt.Sprintf("(backfill %d %d)", c[0], c[1]))
			if c[1] > backfillBound {
				bounded = false
			}
		}
	}
	if bounded {
		for _, off := range []int64{1 << 31, 1 << 62, math.MaxInt64 - 7, math.MaxInt64 - 2} {
			if res := scriptBackfill(2, off-2); res != "" {
				add("C20:array-backfill-unbounded", res, fmt.Sprintf("(backfill 2 %d)", off-2))
			}
		}
	}
	for _, op := range []string{"unset", "rename"} {
		for _, id := range []interface{}{bson.D{}, bson.D{{Key: "k", Value: int32(1)}}, primitive.Binary{Data: []byte{}}, bson.A{}, nil, int32(0)} {
			if res := scriptUnsetID(op, id); res != "" {
				add("C20:unset-empty-document-id-panic", "$"+op+" of _id on a document whose _id is "+enc(id)+": "+res, "(unsetid "+op+" "+enc(id)+")")
			}
		}
	}

	// a fresh engine every 100 iterations: local.oplog keeps every event of the
	// run (retention by age), and every transaction clones the catalog
	var client lungo.IClient
	var engine *lungo.Engine
	defer func() {
		if engine != nil {
			engine.Close()
		}
	}()

	for i := 0; i < n; i++ {
		if i%100 == 0 {
			if engine != nil {
				engine.Close()
			}
			var err error
			client, engine, err = lungo.Open(nil, lungo.Options{Store: lungo.NewMemoryStore(), ExpireInterval: time.Hour})
			if err != nil {
				return fails
			}
		}
		st.Evaluations++
		doc := genDocD(r, 3, r.chance(1, 2))
		if r.chance(1, 4) {
			doc = genWeirdDoc(r, 2)
		}
		w1, w2, w3 := genWeirdDoc(r, 3), genWeirdDoc(r, 3), genWeirdDoc(r, 2)
		path := pick(r, weirdPaths)
		if r.chance(1, 2) {
			path = genPath(r, doc)
		}
		if strings.Contains(enc(w1), "x24") {
			st.Nontrivial++
		}
		if len(st.Samples) < 3 {
			st.Samples = append(st.Samples, "doc="+enc(doc)+" weird="+enc(w1))
		}
		val, val2, num := genWeirdValue(r, 2), genWeirdValue(r, 2), genNumber(r)
		sk, li := pick(r, panicWindow), pick(r, panicWindow)
		inputs := map[string][]interface{}{
			"bsonkit.Compare": {val, val2}, "bsonkit.Get": {doc, path}, "bsonkit.All": {doc, path}, "bsonkit.Put": {doc, path, val},
			"bsonkit.Increment": {doc, path, val}, "bsonkit.Multiply": {doc, path, val}, "bsonkit.Push": {doc, path, val},
			"bsonkit.Unset": {doc, path}, "bsonkit.Pop": {doc, path}, "bsonkit.Add": {val, num}, "bsonkit.Mul": {val, num}, "bsonkit.Mod": {val, num},
			"bsonkit.Collect": {doc, w3, path}, "mongokit.Match": {doc, w1}, "mongokit.Extract": {w1}, "mongokit.Apply": {doc, w1, w2, w3},
			"mongokit.Project": {doc, w1}, "mongokit.Sort": {doc, w3, w1}, "mongokit.Columns": {w1}, "mongokit.Distinct": {doc, w3, path},
			"mongokit.CreateIndex+Build": {doc, w3, w1}, "mongokit.Collection": {doc, w1, w3, sk, li}, "bsonkit.schema": {doc, w1},
		}
		st.Dist["entry-points"] += len(panicEntries)
		for ei := range panicEntries {
			e := &panicEntries[ei]
			in := inputs[e.name]
			if res := guarded(func() { e.run(in) }); res != "" {
				add(panicSignature(e.name, res), e.name+": "+res, scriptOf("entry", e.name, in))
			}
		}

		// driver level (every few iterations)
		if i%4 == 0 {
			st.Dist["driver-calls"] += len(driverEntries)
			id := pick(r, []interface{}{bson.D{{Key: "k", Value: int32(r.intn(2))}}, malEmptyID(), primitive.Binary{Data: []byte{byte(r.intn(2))}},
				primitive.Binary{Subtype: 128, Data: []byte{}}, int32(r.intn(3)), bson.A{int32(1)}, nil, math.NaN()})
			stored := bson.D{{Key: "_id", Value: id}, {Key: "a", Value: val}, {Key: "arr", Value: bson.A{int32(1), bson.D{{Key: "q", Value: val2}}}}}
			dinputs := map[string][]interface{}{
				"Collection.UpdateOne": {w2}, "Collection.UpdateMany": {w1, val}, "Collection.ReplaceOne": {val, w1, w3},
				"Collection.Find": {w1, w3, w2, sk, li}, "Collection.FindOne": {w1, w3, w2, sk}, "Collection.CountDocuments": {w1, sk, li},
				"Collection.FindOneAndUpdate": {w1, w2, w3, w3}, "Collection.FindOneAndDelete": {w1, w3, w2}, "Collection.DeleteMany": {w1},
				"Collection.Distinct": {path, w1}, "Indexes.CreateOne": {w3, w1}, "Collection.BulkWrite": {w1, w2, stored},
			}
			for ei := range driverEntries {
				e := &driverEntries[ei]
				in := dinputs[e.name]
				res := runDriverEntry(client, "c"+strconv.Itoa(i)+"_"+strconv.Itoa(ei), e, stored, in)
				if res == "" {
					continue
				}
				script := "(driver " + hx(e.name) + " " + enc(stored)
				for _, v := range in {
					script += " " + encInput(v)
				}
				script += ")"
				if strings.HasPrefix(res, "ENGINE:") {
					add("C20:engine-unusable", res, script)
				} else {
					add(panicSignature(e.name, res), e.name+": "+res, script)
				}
			}
		}
	}
	return fails
}

func init() {
	register(&family{name: "panicscript", gen: func(r *rng) string { return "(backfill 0 1)" }, run: runPanicScript})
	registerOracle(&oracle{prop: "C20", name: "malformed-stream", run: oraclePanic})
}
