package main

// fam_malformed.go — C20: the malformed stream as CORRESPONDENCE families.
//
// Family `malformed` emits cases in the formats of the families match / apply /
// project / access / sortdist (so the Coq runners of those families answer
// them) but draws every document argument from a hostile grammar: keys from
// all operator names (query, update, projection, schema keywords, unknown
// ones), odd paths (empty, leading / trailing / double dots, numeric, signed,
// positional forms), plain keys; arbitrary supported BSON values as operator
// arguments (wrong types at every position, NaN / +-Inf / MaxInt64 / MinInt64,
// extreme decimals); deep nesting; array indexes at, just below and just above
// the back-fill bound relative to the array length, MaxInt64 and digit strings
// beyond int64.  The real function runs under recover() and a watchdog (main.go
// runGuarded): a panic or hang the model does not predict is a mismatch with a
// concrete input.
//
// Family `apimal` does the same through the driver API: short histories on one
// collection whose documents carry document-, binary-, array- and
// scalar-valued _ids, then calls with hostile filters / updates / replacements /
// projections / sorts / array filters, negative and huge skip / limit; it emits
// the `api` case format (Model/RunApi.v).  Every history ends with a probe
// insert into another collection and a count: the engine must still serve.
//
// Outside the model, therefore never generated: path strings with a NUL byte,
// the matcher's syntactic UNMODELLED class (schema keywords pattern /
// patternProperties / multipleOf, $bits positions >= 2^64), and for `apimal`
// Decimal128 values (double x decimal arithmetic) and projections with more
// than one operator entry (Go map order).

import (
	"fmt"
	"math"
	"strconv"
	"strings"

	"go.mongodb.org/mongo-driver/bson"
	"go.mongodb.org/mongo-driver/bson/primitive"

	"github.com/256dpi/lungo/bsonkit"
)

var malOperators = func() []string {
	var out []string
	for _, k := range allOperators {
		if k == "pattern" || k == "patternProperties" || k == "multipleOf" {
			continue
		}
		out = append(out, k)
	}
	return append(out, "$jsonSchema", "$elemMatch", "$not", "$and", "$or", "$nor", "$each", "$slice", "$position", "$sort")
}()

var malPaths = []string{"", "a", "a.b", "a.", ".a", "a..b", "0", "a.0", "a.0.b", "a.$[]", "a.$[x].b", "a.$", "$", "_id", "a.-1", "a.+1", "a.00",
	"a.b.c.d", "a.1.2", "a.$[]", "a.$[].b.$[y]", ".", "..", "a.$[x]", "a.$[].$[]", "_id.k", "a.b.$", "$[]", "a$b", "a.b$", "a.$x", "b.9223372036854775807",
	"a.9223372036854775808", "a.99999999999999999999", "a.-9223372036854775808", "a.1600001", "b.0.1600002", "arr.1600004", "z.1600009.x"}

// drawn counts the cases the family has generated in this process: cases whose
// result holds an array padded with thousands of nulls are kept out of the head
// of the stream, which is what the in-Coq sample evaluates.
var malDrawn int

// absurd window sizes.  Sizes that are merely large (2^31) are left out on
// purpose: should a regression bring back an allocation proportional to the
// limit (bsonkit.Select before /repo cddce86) or to an array index (bsonkit.Put
// before ba43a99), 2^31 elements would exhaust the memory of the harness
// instead of producing a report; 2^63-2 fails at once (makeslice)
var malBigWindow = []int64{1<<63 - 2, 1<<62 + 1}

type malGen struct {
	r     *rng
	noDec bool
}

func (g *malGen) scalar() interface{} {
	v := genScalar(g.r)
	switch x := v.(type) {
	case string:
		if strings.ContainsRune(x, 0) {
			return pick(g.r, []string{"a.", "$", "a.$[]", ""})
		}
	case primitive.Regex:
		return x
	case primitive.Decimal128:
		if g.noDec {
			return pick(g.r, poolInt64)
		}
	}
	return v
}

func (g *malGen) value(depth int) interface{} {
	r := g.r
	if depth <= 0 {
		return g.scalar()
	}
	switch r.intn(7) {
	case 0, 1:
		return g.doc(depth - 1)
	case 2:
		n := r.intn(4)
		a := bson.A{}
		for i := 0; i < n; i++ {
			a = append(a, g.value(depth-1))
		}
		return a
	case 4:
		// almost valid: the two-number arrays of $mod / $slice, bit positions,
		// with zeros and extremes
		nums := []interface{}{int32(0), int64(0), float64(0), math.Copysign(0, -1), int32(1), int32(-1), int64(math.MaxInt64), int64(math.MinInt64),
			math.NaN(), math.Inf(-1), float64(1 << 62), int32(3), float64(0.5), int32(math.MinInt32)}
		return bson.A{pick(r, nums), pick(r, nums)}
	case 3:
		return pick(r, []interface{}{math.NaN(), math.Inf(1), math.Inf(-1), int64(math.MaxInt64), int64(math.MinInt64), int32(math.MinInt32),
			float64(1e300), float64(-1e300), float64(9.3e18), float64(-9.3e18), math.Copysign(0, -1), float64(1 << 62), float64(5e-324), int64(0), int32(0), ""})
	default:
		return g.scalar()
	}
}

func (g *malGen) key() string {
	r := g.r
	switch r.intn(3) {
	case 0:
		k := pick(r, malOperators)
		for g.noDec && k == "$currentDate" { // the driver family has no clock canonicalisation
			k = pick(r, malOperators)
		}
		return k
	case 1:
		return pick(r, malPaths)
	default:
		return pick(r, poolKeys)
	}
}

func (g *malGen) doc(depth int) bson.D {
	n := g.r.intn(4)
	d := bson.D{}
	for i := 0; i < n; i++ {
		d = append(d, bson.E{Key: g.key(), Value: g.value(depth)})
	}
	return d
}

// deep: one spine of the given depth built from the nesting constructs of the
// grammars, with a hostile leaf
func (g *malGen) deep(depth int) bson.D {
	r := g.r
	var leaf interface{} = g.doc(1)
	cur := leaf
	for i := 0; i < depth; i++ {
		switch r.intn(6) {
		case 0:
			cur = bson.D{{Key: pick(r, []string{"$and", "$or", "$nor"}), Value: bson.A{cur}}}
		case 1:
			cur = bson.D{{Key: "a", Value: bson.D{{Key: "$not", Value: cur}}}}
		case 2:
			cur = bson.D{{Key: "a", Value: bson.D{{Key: "$elemMatch", Value: cur}}}}
		case 3:
			cur = bson.A{cur}
		case 4:
			cur = bson.D{{Key: pick(r, []string{"a", "", "0", "$set", "$jsonSchema", "properties", "items", "allOf", "not"}), Value: cur}}
		default:
			cur = bson.D{{Key: "$jsonSchema", Value: bson.D{{Key: pick(r, []string{"allOf", "anyOf", "oneOf"}), Value: bson.A{cur}}}}}
		}
	}
	if d, ok := cur.(bson.D); ok {
		return d
	}
	return bson.D{{Key: pick(r, malOperators), Value: cur}}
}

func (g *malGen) weird(depth int) bson.D {
	for try := 0; ; try++ {
		var d bson.D
		if g.r.chance(1, 12) {
			d = g.deep(5 + g.r.intn(40))
		} else {
			d = g.doc(depth)
		}
		if !malUnmodelled(d) || try > 20 {
			if malUnmodelled(d) {
				return bson.D{{Key: "$foo", Value: int32(1)}}
			}
			return d
		}
	}
}

// the matcher's syntactic UNMODELLED class, document-independent (every
// multipleOf counts)
func malUnmodelled(vs ...interface{}) bool {
	for _, v := range vs {
		if anyEntry(v, func(k string, x interface{}) bool {
			if k == "pattern" || k == "patternProperties" || k == "multipleOf" {
				return true
			}
			if strings.HasPrefix(k, "$bits") {
				if arr, ok := x.(bson.A); ok {
					for _, it := range arr {
						if fl, ok := it.(float64); ok && !math.IsInf(fl, 0) && !math.IsNaN(fl) && math.Abs(fl) >= 18446744073709551616.0 {
							return true
						}
					}
				}
			}
			return false
		}) {
			return true
		}
	}
	return false
}

// a path into an array of d with an index around the back-fill bound
func (g *malGen) boundPath(d bson.D, allowBig bool) (string, bool) {
	r := g.r
	for _, e := range d {
		if a, ok := e.Value.(bson.A); ok && r.chance(2, 3) {
			n := int64(len(a))
			// beyond the bound (refused), and — rarely, they pad the array —
			// well inside it; the exact bound is the oracle's business (a
			// result with 1.5 million nulls is too deep for the extracted
			// model's non-tail-recursive list functions)
			offs := []int64{1500001, 1500001, 1500002, 3000000}
			if allowBig {
				offs = append(offs, 1000, 20000)
			}
			idx := strconv.FormatInt(n+pick(r, offs), 10)
			if r.chance(1, 6) {
				idx = pick(r, []string{"9223372036854775807", "9223372036854775808", "99999999999999999999", "-1", "+3", "007"})
			}
			p := e.Key + "." + idx
			if r.chance(1, 4) {
				p += "." + pick(r, []string{"x", "0", ""})
			}
			return p, true
		}
	}
	return "", false
}

func (g *malGen) docWithArrays() bson.D {
	r := g.r
	d := genDocD(r, 2, r.chance(1, 2))
	if r.chance(2, 3) {
		n := r.intn(4)
		a := bson.A{}
		for i := 0; i < n; i++ {
			a = append(a, genValue(r, 1))
		}
		d = append(d, bson.E{Key: pick(r, []string{"arr", "z"}), Value: a})
	}
	return malClean(d, g.noDec).(bson.D)
}

// malClean removes what is outside the model from a generated value: NUL
// bytes in strings (they may become paths), optionally decimals
func malClean(v interface{}, noDec bool) interface{} {
	switch x := v.(type) {
	case string:
		if strings.ContainsRune(x, 0) {
			return "nul"
		}
	case primitive.Decimal128:
		if noDec {
			return int64(7)
		}
	case bson.D:
		out := make(bson.D, len(x))
		for i, e := range x {
			k := e.Key
			if strings.ContainsRune(k, 0) {
				k = "nul"
			}
			out[i] = bson.E{Key: k, Value: malClean(e.Value, noDec)}
		}
		return out
	case bson.A:
		out := make(bson.A, len(x))
		for i, e := range x {
			out[i] = malClean(e, noDec)
		}
		return out
	}
	return v
}

func genMalformed(r *rng) string {
	malDrawn++
	g := &malGen{r: r}
	d := g.docWithArrays()
	if r.chance(1, 5) {
		d = g.weird(2)
	}
	switch k := r.intn(100); {
	case k < 25:
		return "(match " + enc(d) + " " + enc(g.weird(3)) + ")"
	case k < 30:
		return "(match " + enc(d) + " " + enc(bson.D{{Key: "$jsonSchema", Value: g.weird(3)}}) + ")"
	case k < 55:
		u := g.weird(3)
		if r.chance(1, 2) {
			// a registered operator with a hostile argument document
			u = bson.D{{Key: pick(r, []string{"$set", "$setOnInsert", "$unset", "$rename", "$inc", "$mul", "$max", "$min", "$currentDate", "$push", "$pop", "$pull", "$pullAll", "$addToSet", "$bit"}), Value: g.value(3)}}
			if malUnmodelled(u) {
				u = bson.D{{Key: "$set", Value: bson.D{{Key: "", Value: int32(1)}}}}
			}
		}
		if p, ok := g.boundPath(d, malDrawn > 2500 && r.chance(1, 4)); ok && r.chance(1, 3) {
			u = bson.D{{Key: pick(r, []string{"$set", "$inc", "$push", "$max", "$addToSet", "$setOnInsert", "$unset", "$currentDate"}), Value: bson.D{{Key: p, Value: pick(r, []interface{}{int32(1), true, bson.A{}})}}}}
		}
		var filters bsonkit.List
		for i := r.intn(3); i > 0; i-- {
			f := g.weird(2)
			filters = append(filters, &f)
		}
		return encApplyCase(d, g.weird(1), u, r.chance(1, 2), filters, 1800000000000+int64(r.intn(100000)))
	case k < 60:
		return "(extract " + enc(g.weird(3)) + ")"
	case k < 80:
		return "(project " + enc(d) + " " + enc(g.weird(3)) + ")"
	case k < 90:
		p := pick(r, malPaths)
		if bp, ok := g.boundPath(d, malDrawn > 2500 && r.chance(1, 4)); ok && r.chance(1, 2) {
			p = bp
		}
		switch r.intn(4) {
		case 0:
			return "(get " + enc(d) + " " + hx(p) + ")"
		case 1:
			return "(all " + enc(d) + " " + hx(p) + " " + tf(r.chance(1, 2)) + " " + tf(r.chance(1, 2)) + ")"
		case 2:
			return "(put " + enc(d) + " " + hx(p) + " " + enc(g.value(2)) + " " + tf(r.chance(1, 4)) + ")"
		default:
			return "(unset " + enc(d) + " " + hx(p) + ")"
		}
	case k < 95:
		docs := []bson.D{d, g.docWithArrays(), malClean(g.weird(2), false).(bson.D)}
		return "(sort " + sdEncDocs(docs) + " " + enc(g.weird(1)) + ")"
	case k < 98:
		docs := []bson.D{d, g.docWithArrays()}
		return "(distinct " + sdEncDocs(docs) + " " + hx(pick(r, malPaths)) + ")"
	default:
		docs := []bson.D{}
		for i := 0; i < 3; i++ {
			docs = append(docs, bson.D{{Key: "_id", Value: int32(i)}, {Key: "a", Value: g.scalar()}})
		}
		spec := "NIL"
		if r.chance(1, 2) {
			spec = enc(g.weird(1))
		}
		win := append([]int64{-1, -2, 0, 1, 5, math.MaxInt64, math.MinInt64}, malBigWindow...)
		lim := win
		return fmt.Sprintf("(find %s (D) %s %d %d)", sdEncDocs(docs), spec, pick(r, win), pick(r, lim))
	}
}

// no generated case has a result of a megabyte (paddings stay below 20001
// elements); a result that large means a bound was lost — report it as such
// instead of handing megabytes of text to the model runners
func malCap(obs string) string {
	if len(obs) > 1<<20 {
		return "HUGE-RESULT"
	}
	return obs
}

func malDispatch(c *sx) *family {
	switch c.list[0].atom {
	case "match":
		return families["match"]
	case "apply", "extract":
		return families["apply"]
	case "project":
		return families["project"]
	case "get", "all", "put", "unset":
		return families["access"]
	case "sort", "distinct", "find":
		return families["sortdist"]
	}
	return nil
}

// ---------------------------------------------------------------------------
// driver level

func (g *malGen) id() interface{} {
	r := g.r
	return pick(r, []interface{}{
		bson.D{{Key: "k", Value: int32(r.intn(2))}},
		bson.D{{Key: "k", Value: bson.A{int32(1), bson.D{{Key: "x", Value: nil}}}}},
		malEmptyID(),
		primitive.Binary{Subtype: 0, Data: []byte{byte(r.intn(2))}},
		primitive.Binary{Subtype: 128, Data: []byte{}},
		int32(r.intn(3)), int64(1), float64(1), "s", nil, true,
		primitive.Timestamp{T: 1, I: 1}, primitive.DateTime(0), math.Inf(1),
	})
}

func malEmptyID() interface{} { return bson.D{} }

func (g *malGen) projection() string {
	r := g.r
	var p bson.D
	switch r.intn(6) {
	case 0, 1:
		return "NIL"
	case 2:
		p = bson.D{{Key: g.key(), Value: g.value(2)}}
	case 3:
		p = bson.D{{Key: pick(r, []string{"a", "arr", "a.b", "", "_id"}), Value: bson.D{{Key: "$slice", Value: g.value(1)}}}}
	case 4:
		p = bson.D{{Key: pick(r, poolKeys), Value: pick(r, []interface{}{int32(0), int32(1), true, "x", math.NaN()})},
			{Key: pick(r, []string{"arr", "a", "a.0"}), Value: bson.D{{Key: pick(r, []string{"$slice", "$elemMatch", "$foo"}), Value: g.value(2)}}}}
	default:
		p = bson.D{{Key: pick(r, malPaths), Value: pick(r, []interface{}{int32(1), int32(0), int64(1), float64(0), nil, "1"})}}
	}
	if malUnmodelled(p) {
		return "NIL"
	}
	return enc(p)
}

func (g *malGen) optDoc(depth int) string {
	if g.r.chance(1, 2) {
		return "NIL"
	}
	return enc(g.weirdAPI(depth))
}

func (g *malGen) weirdAPI(depth int) bson.D { return g.weird(depth) }

func update0(g *malGen) bson.D {
	r := g.r
	switch r.intn(4) {
	case 0:
		return g.weirdAPI(3)
	case 1:
		p := pick(r, malPaths)
		return bson.D{{Key: pick(r, []string{"$set", "$inc", "$push", "$unset", "$min", "$addToSet", "$pull", "$rename", "$bit", "$pop", "$mul"}), Value: bson.D{{Key: p, Value: g.value(2)}}}}
	case 2:
		return bson.D{{Key: "$set", Value: bson.D{{Key: pick(r, []string{"arr.1600001", "arr.1600000", "arr.9223372036854775807", "arr.99999999999999999999", "z.1700000", "_id", "_id.k"}), Value: g.scalar()}}}}
	default:
		return bson.D{{Key: pick(r, []string{"$set", "$setOnInsert", "$unset", "$rename", "$inc", "$mul", "$max", "$min", "$push", "$pop", "$pull", "$pullAll", "$addToSet", "$bit"}), Value: g.value(3)}}
	}
}

func genAPIMal(r *rng) string {
	g := &malGen{r: r, noDec: true}
	s := "0"
	t := hx("db") + " " + hx("c")
	parts := []string{"api", "0"}
	var ids []interface{}
	for i := 1 + r.intn(3); i > 0; i-- {
		id := g.id()
		ids = append(ids, id)
		d := bson.D{{Key: "_id", Value: id}}
		d = append(d, g.docWithArrays()...)
		// drop a second _id
		out := bson.D{}
		seen := false
		for _, e := range d {
			if e.Key == "_id" {
				if seen {
					continue
				}
				seen = true
			}
			out = append(out, e)
		}
		parts = append(parts, "(insertOne "+s+" "+t+" "+enc(out)+")")
	}
	filter := func() bson.D {
		if r.chance(1, 3) {
			return bson.D{{Key: "_id", Value: pick(r, ids)}}
		}
		if r.chance(1, 4) {
			return bson.D{}
		}
		return g.weirdAPI(2)
	}
	update := func() bson.D {
		u := update0(g)
		if malUnmodelled(u) {
			return bson.D{{Key: "$set", Value: bson.D{}}}
		}
		return u
	}
	win := append([]int64{0, 0, 0, 1, 2, -1, -1, -5, math.MinInt64, math.MaxInt64}, malBigWindow...)
	lim := win
	afs := func() string {
		var l []string
		for i := r.intn(3); i > 0; i-- {
			l = append(l, enc(g.weirdAPI(2)))
		}
		return "(" + strings.Join(l, " ") + ")"
	}
	for i := 3 + r.intn(6); i > 0; i-- {
		switch k := r.intn(100); {
		case k < 18:
			parts = append(parts, "(update "+s+" "+t+" "+pick(r, []string{"one", "many"})+" "+enc(filter())+" "+enc(update())+" "+tf(r.chance(1, 3))+" "+afs()+")")
		case k < 26:
			repl := g.docWithArrays()
			if r.chance(1, 3) {
				repl = g.weirdAPI(2)
			}
			parts = append(parts, "(replace "+s+" "+t+" "+enc(filter())+" "+enc(repl)+" "+tf(r.chance(1, 3))+")")
		case k < 32:
			parts = append(parts, "(delete "+s+" "+t+" "+pick(r, []string{"one", "many"})+" "+enc(g.weirdAPI(2))+")")
		case k < 42:
			parts = append(parts, "(fau "+s+" "+t+" "+enc(filter())+" "+enc(update())+" "+g.optDoc(1)+" "+g.projection()+" "+tf(r.chance(1, 3))+" "+tf(r.chance(1, 2))+" "+afs()+")")
		case k < 47:
			parts = append(parts, "(far "+s+" "+t+" "+enc(filter())+" "+enc(g.docWithArrays())+" "+g.optDoc(1)+" "+g.projection()+" "+tf(r.chance(1, 3))+" "+tf(r.chance(1, 2))+")")
		case k < 51:
			parts = append(parts, "(fad "+s+" "+t+" "+enc(g.weirdAPI(2))+" "+g.optDoc(1)+" "+g.projection()+")")
		case k < 68:
			parts = append(parts, fmt.Sprintf("(find %s %s %s %s %s %d %d)", s, t, enc(filter()), g.optDoc(1), g.projection(), pick(r, win), pick(r, lim)))
		case k < 74:
			parts = append(parts, fmt.Sprintf("(findOne %s %s %s %s %s %d)", s, t, enc(filter()), g.optDoc(1), g.projection(), pick(r, win)))
		case k < 80:
			parts = append(parts, fmt.Sprintf("(count %s %s %s %d %d)", s, t, enc(filter()), pick(r, win), pick(r, lim)))
		case k < 85:
			// Collection.Distinct panics deliberately on the empty field name
			// ("lungo: missing field path", like a nil filter): excluded
			f := pick(r, malPaths)
			for f == "" {
				f = pick(r, malPaths)
			}
			parts = append(parts, "(distinct "+s+" "+t+" "+hx(f)+" "+enc(filter())+")")
		case k < 88 && k >= 85 && r.chance(1, 2):
			// catalog-level calls with hostile arguments: listings filtered on every
			// field of the specification documents with values of every type,
			// collections with odd names, CreateMany with weird keys
			specField := pick(r, []string{"name", "type", "options", "info", "info.uuid", "info.readOnly", "idIndex", "idIndex.v", "idIndex.key", "idIndex.key._id", "idIndex.name", "idIndex.namespace", "sizeOnDisk", "empty", "", "idIndex.v.x", "idIndex.0"})
			var flt bson.D
			switch r.intn(4) {
			case 0:
				flt = bson.D{{Key: specField, Value: g.value(2)}}
			case 1:
				flt = bson.D{{Key: specField, Value: bson.D{{Key: pick(r, []string{"$gt", "$lte", "$ne", "$in", "$type", "$size", "$all", "$mod", "$exists", "$elemMatch", "$not"}), Value: g.value(2)}}}}
			case 2:
				flt = g.weirdAPI(2)
			default:
				flt = bson.D{{Key: specField, Value: pick(r, []interface{}{int32(2), int64(0), float64(1), int32(1), false, "collection", bson.D{}})}}
			}
			if malUnmodelled(flt) {
				flt = bson.D{{Key: specField, Value: int32(2)}}
			}
			switch r.intn(4) {
			case 0:
				parts = append(parts, "(listColls "+s+" "+hx(pick(r, []string{"db", "db", "local", "", "a.b"}))+" "+enc(flt)+")")
			case 1:
				parts = append(parts, "(listDbs "+s+" "+enc(flt)+")")
			case 2:
				parts = append(parts, "(createColl "+s+" "+hx(pick(r, []string{"db", "db", "local", "", "a.b", "$x"}))+" "+hx(pick(r, []string{"c", "n", "", "a.b", "$cmd", "system.x", "\x00"}))+")")
			default:
				key := bson.D{{Key: pick(r, malPaths), Value: pick(r, []interface{}{int32(1), int32(-1), int64(1), float64(1), "x", math.NaN(), nil})}}
				parts = append(parts, "(createMany "+s+" "+t+" ("+hx(pick(r, []string{"", "ix", "_id_"}))+" "+enc(key)+" "+tf(r.chance(1, 3))+" NIL NIL) ("+hx("")+" "+enc(bson.D{{Key: "m", Value: int32(1)}})+" F NIL NIL))")
			}
		case k < 92:
			partial := "NIL"
			if r.chance(1, 2) {
				partial = enc(g.weirdAPI(2))
			}
			exp := "NIL"
			if r.chance(1, 4) {
				exp = strconv.Itoa(pick(r, []int{0, 1, 60}))
			}
			key := g.weirdAPI(1)
			if r.chance(1, 2) {
				key = bson.D{{Key: pick(r, malPaths), Value: pick(r, []interface{}{int32(1), int32(-1), int64(1), float64(1), "x", math.NaN(), nil})}}
			}
			parts = append(parts, "(createIndex "+s+" "+t+" "+hx(pick(r, []string{"", "ix", "_id_"}))+" "+enc(key)+" "+tf(r.chance(1, 3))+" "+partial+" "+exp+")")
		default:
			d := bson.D{{Key: "_id", Value: g.id()}}
			d = append(d, bson.E{Key: g.key(), Value: g.value(2)})
			if malUnmodelled(d) {
				d = d[:1]
			}
			parts = append(parts, "(insertOne "+s+" "+t+" "+enc(malClean(d, true))+")")
		}
	}
	// the engine must still serve
	parts = append(parts, "(insertOne "+s+" "+hx("db")+" "+hx("probe")+" "+enc(bson.D{{Key: "_id", Value: int32(1)}})+")")
	parts = append(parts, "(count "+s+" "+hx("db")+" "+hx("probe")+" (D) 0 0)")
	return "(" + strings.Join(parts, " ") + ")"
}

func init() {
	register(&family{
		name: "malformed",
		gen:  genMalformed,
		run: func(c *sx) string {
			f := malDispatch(c)
			if f == nil {
				return "BAD-CASE"
			}
			return malCap(f.run(c))
		},
		classify: func(c *sx, obs string) ([]string, bool) {
			kind := "ok"
			switch {
			case obs == "ERR" || obs == "ERR2" || obs == "INSERT-ERR":
				kind = "err"
			case obs == "PANIC":
				kind = "panic"
			case obs == "HANG":
				kind = "hang"
			case strings.HasPrefix(obs, "UNMODELLED") || obs == "ORDER-DEPENDENT":
				kind = "outside-model"
			}
			return []string{"entry:" + c.list[0].atom + ":" + kind, "outcome:" + kind}, kind == "err" || kind == "ok"
		},
	})
	register(&family{
		name: "apimal",
		gen:  genAPIMal,
		run:  func(c *sx) string { return malCap(runAPI(c)) },
		classify: func(c *sx, obs string) ([]string, bool) {
			var labels []string
			replies := strings.Split(obs, " ;; ")
			if obs == "PANIC" || obs == "HANG" {
				return []string{"history:" + strings.ToLower(obs)}, true
			}
			served := "served"
			for i, call := range c.list[2:] {
				op := call.list[0].atom
				kind := "ok"
				if i < len(replies) {
					switch {
					case strings.HasPrefix(replies[i], "ERR"):
						kind = "err"
					case strings.HasPrefix(replies[i], "DUP"):
						kind = "dup"
					case strings.HasPrefix(replies[i], "NODOC"):
						kind = "nodoc"
					case strings.HasPrefix(replies[i], "PANIC"):
						kind = "panic"
					}
				}
				labels = append(labels, "call:"+op+":"+kind)
				if i == len(c.list[2:])-1 && !strings.HasPrefix(replies[min(i, len(replies)-1)], "(n 1)") {
					served = "NOT-served"
				}
			}
			labels = append(labels, "probe:"+served)
			return labels, true
		},
	})
}
