package main

// fam_sortdist.go — family `sortdist` (C13): mongokit.Sort, mongokit.Distinct
// and Collection.Find on generated lists of documents, and the model-free
// oracle of C13 on the real code.
//
//   (sort (<doc>…) <sortspec>)                          -> positions of the mongokit.Sort result | ERR
//   (distinct (<doc>…) xPATH)                           -> mongokit.Distinct values, canonical form
//   (find (<doc>…) <filter> <sortspec|NIL> skip limit)  -> positions of Collection.Find's result | ERR
//
// A document is identified by its position in the input list.  Distinct
// values are printed canonically (numbers as exact reduced rationals): Go's
// sort.Slice is unstable, so WHICH of several BSON-equal values of different
// numeric type survives de-duplication is unspecified.
//
// The matcher model is provisional (MiniOps.mini_match): `find` filters are
// restricted to {} and {field: scalar} equality.

import (
	"fmt"
	"sort"
	"strconv"
	"strings"

	"go.mongodb.org/mongo-driver/bson"
	"go.mongodb.org/mongo-driver/bson/primitive"

	"github.com/256dpi/lungo/bsonkit"
	"github.com/256dpi/lungo/mongokit"
)

// ---------------------------------------------------------------------------
// canonical form of a value (shared with coq/Model/RunSort.v: canon)

func canonValue(sb *strings.Builder, v interface{}) {
	switch x := v.(type) {
	case nil, primitive.Null, bsonkit.MissingType:
		sb.WriteString("N")
	case int32, int64, float64, primitive.Decimal128:
		xv, ok := exactNum(v)
		if !ok {
			sb.WriteString("BAD-NUMBER")
			return
		}
		switch xv.kind {
		case 0:
			sb.WriteString("NaN")
		case 1:
			sb.WriteString("-Inf")
		case 3:
			sb.WriteString("+Inf")
		default:
			sb.WriteString("(q " + xv.q.Num().String() + " " + xv.q.Denom().String() + ")")
		}
	case bson.D:
		sb.WriteString("(D")
		for _, e := range x {
			sb.WriteString(" (" + hx(e.Key) + " ")
			canonValue(sb, e.Value)
			sb.WriteString(")")
		}
		sb.WriteString(")")
	case bson.A:
		sb.WriteString("(A")
		for _, e := range x {
			sb.WriteString(" ")
			canonValue(sb, e)
		}
		sb.WriteString(")")
	default:
		encValue(sb, v)
	}
}

func canonList(a bson.A) string {
	var sb strings.Builder
	sb.WriteString("(")
	for i, v := range a {
		if i > 0 {
			sb.WriteString(" ")
		}
		canonValue(&sb, v)
	}
	sb.WriteString(")")
	return sb.String()
}

// ---------------------------------------------------------------------------
// generators

var sdFields = []string{"a", "b", "c", "x"}
var sdSortKeys = []string{"a", "b", "c", "a.b", "a", "b", "x", "b.a", "a.0"}

// sdTame replaces decimals with extreme exponents (|exp| > 400): every
// comparison in the exact model recomputes 10^|exp|, which makes a 40-document
// sort take minutes.  They are covered by family cmp (C12).
func sdTame(v interface{}) interface{} {
	switch x := v.(type) {
	case primitive.Decimal128:
		if x.IsNaN() || x.IsInf() != 0 {
			return x
		}
		if _, exp, err := x.BigInt(); err != nil || exp > 400 || exp < -400 {
			return mustDec("1E+22")
		}
		return x
	case bson.A:
		c := make(bson.A, len(x))
		for i, e := range x {
			c[i] = sdTame(e)
		}
		return c
	case bson.D:
		c := make(bson.D, len(x))
		for i, e := range x {
			c[i] = bson.E{Key: e.Key, Value: sdTame(e.Value)}
		}
		return c
	}
	return v
}

// sdPool: the values the fields of one case draw from.  Few values, many of
// them BSON-equal across numeric types or related by the array min/max rule,
// so that ties and cross-type equal keys are frequent.
func sdPool(r *rng, k int) []interface{} {
	pool := make([]interface{}, 0, k)
	for len(pool) < k {
		switch r.intn(10) {
		case 0:
			pool = append(pool, nil)
		case 1, 2:
			pool = append(pool, genNumber(r))
		case 3:
			// an array of small numbers: min/max rule, ties with scalars
			n := r.intn(4)
			a := bson.A{}
			for i := 0; i < n; i++ {
				a = append(a, genNumber(r))
			}
			pool = append(pool, a)
		case 4:
			// embedded document (for a.b) or array of embedded documents
			d := bson.D{{Key: "b", Value: genValue(r, 1)}}
			if r.chance(1, 2) {
				pool = append(pool, d)
			} else {
				pool = append(pool, bson.A{d, bson.D{{Key: "b", Value: genNumber(r)}}, genScalar(r)})
			}
		case 5:
			if len(pool) > 0 {
				pool = append(pool, mutate(r, pool[r.intn(len(pool))]))
			} else {
				pool = append(pool, genScalar(r))
			}
		case 6:
			pool = append(pool, genValue(r, 2))
		default:
			pool = append(pool, genScalar(r))
		}
	}
	for i := range pool {
		pool[i] = sdTame(pool[i])
	}
	return pool
}

// sdDocs: 0–8 documents usually; sometimes 15–40 documents over a tiny pool
// (an unstable sort only shows on longer lists with many ties).
func sdDocs(r *rng, withID bool) []bson.D {
	var n, k int
	switch {
	case r.chance(1, 6):
		n, k = 15+r.intn(26), 1+r.intn(3)
	case r.chance(1, 12):
		n, k = r.intn(2), 2
	default:
		n, k = 2+r.intn(7), 2+r.intn(4)
	}
	pool := sdPool(r, k)
	fields := sdFields[:2+r.intn(3)]
	docs := make([]bson.D, 0, n)
	for i := 0; i < n; i++ {
		d := bson.D{}
		if withID {
			d = append(d, bson.E{Key: "_id", Value: int32(i)})
		}
		for _, f := range fields {
			switch {
			case r.chance(1, 6):
				// missing field
			case r.chance(1, 10):
				d = append(d, bson.E{Key: f, Value: sdTame(genValue(r, 2))})
			default:
				d = append(d, bson.E{Key: f, Value: pool[r.intn(len(pool))]})
			}
		}
		docs = append(docs, d)
	}
	return docs
}

var sdDirections = []interface{}{int32(1), int32(-1), int64(1), int64(-1), float64(1), float64(-1)}
var sdBadDirections = []interface{}{int32(0), int32(2), int64(-2), float64(0), "1", nil, true, float64(1.5), float64(-1.9),
	float64(2.5), primitive.NewDecimal128(decBits(1))}

func sdSortSpec(r *rng, keys []string) bson.D {
	if r.chance(1, 40) {
		return bson.D{}
	}
	n := 1 + r.intn(3)
	d := bson.D{}
	used := map[string]bool{}
	for i := 0; i < n; i++ {
		k := pick(r, keys)
		if r.chance(1, 25) {
			k = "_id"
		}
		if used[k] {
			continue
		}
		used[k] = true
		var dir interface{} = pick(r, sdDirections)
		if r.chance(1, 40) {
			dir = pick(r, sdBadDirections)
		}
		d = append(d, bson.E{Key: k, Value: dir})
	}
	return d
}

func sdIsPlainScalar(v interface{}) bool {
	switch v.(type) {
	case bson.D, bson.A, primitive.Regex, bsonkit.MissingType:
		return false
	}
	return true
}

// sdFilter: {} or {field: scalar}; the scalar is usually one that occurs.
func sdFilter(r *rng, docs []bson.D) bson.D {
	if r.chance(1, 3) || len(docs) == 0 {
		return bson.D{}
	}
	f := pick(r, []string{"a", "b", "c", "a.b", "x"})
	var cands []interface{}
	for _, d := range docs {
		v, _ := bsonkit.All(&d, f, true, true)
		if a, ok := v.(bson.A); ok {
			for _, it := range a {
				if sdIsPlainScalar(it) {
					cands = append(cands, it)
				}
			}
		} else if sdIsPlainScalar(v) {
			cands = append(cands, v)
		}
	}
	var v interface{}
	switch {
	case len(cands) > 0 && r.chance(4, 5):
		v = cands[r.intn(len(cands))]
		if r.chance(1, 3) {
			v = mutate(r, v)
		}
	case r.chance(1, 4):
		v = nil
	default:
		v = genScalar(r)
	}
	if !sdIsPlainScalar(v) {
		v = nil
	}
	return bson.D{{Key: f, Value: sdTame(v)}}
}

func sdEncDocs(docs []bson.D) string {
	var sb strings.Builder
	sb.WriteString("(")
	for i, d := range docs {
		if i > 0 {
			sb.WriteString(" ")
		}
		encValue(&sb, d)
	}
	sb.WriteString(")")
	return sb.String()
}

func sdList(docs []bson.D) (bsonkit.List, map[bsonkit.Doc]int) {
	list := make(bsonkit.List, len(docs))
	pos := map[bsonkit.Doc]int{}
	for i := range docs {
		d := docs[i]
		list[i] = &d
		pos[list[i]] = i
	}
	return list, pos
}

func sdPositions(l bsonkit.List, pos map[bsonkit.Doc]int) string {
	var sb strings.Builder
	sb.WriteString("(")
	for i, d := range l {
		if i > 0 {
			sb.WriteString(" ")
		}
		p, ok := pos[d]
		if !ok {
			sb.WriteString("?")
		} else {
			sb.WriteString(strconv.Itoa(p))
		}
	}
	sb.WriteString(")")
	return sb.String()
}

func sdCollection(docs []bson.D) (*mongokit.Collection, bsonkit.List, map[bsonkit.Doc]int, error) {
	coll := mongokit.NewCollection(true)
	list, pos := sdList(docs)
	for _, d := range list {
		if _, err := coll.Insert(d); err != nil {
			return nil, nil, nil, err
		}
	}
	return coll, list, pos, nil
}

func sdCountMatches(docs []bson.D, q bson.D) int {
	n := 0
	for i := range docs {
		ok, err := mongokit.Match(&docs[i], &q)
		if err == nil && ok {
			n++
		}
	}
	return n
}

func sdWindowValues(n int) []int {
	vs := []int{0, 1, 2, n - 1, n, n + 1}
	out := vs[:0]
	for _, v := range vs {
		if v >= 0 {
			out = append(out, v)
		}
	}
	return out
}

func genSortDist(r *rng) string {
	switch r.intn(10) {
	case 0, 1, 2:
		docs := sdDocs(r, r.chance(1, 3))
		return "(sort " + sdEncDocs(docs) + " " + enc(sdSortSpec(r, sdSortKeys)) + ")"
	case 3, 4, 5:
		docs := sdDocs(r, false)
		var p string
		switch {
		case len(docs) > 0 && r.chance(1, 2):
			p = genPath(r, docs[r.intn(len(docs))])
		default:
			p = pick(r, sdSortKeys)
		}
		return "(distinct " + sdEncDocs(docs) + " " + hx(p) + ")"
	default:
		docs := sdDocs(r, true)
		q := sdFilter(r, docs)
		spec := "NIL"
		if !r.chance(1, 6) {
			spec = enc(sdSortSpec(r, sdSortKeys))
		}
		n := sdCountMatches(docs, q)
		ws := sdWindowValues(n)
		skip, limit := pick(r, ws), pick(r, ws)
		return fmt.Sprintf("(find %s %s %s %d %d)", sdEncDocs(docs), enc(q), spec, skip, limit)
	}
}

func sdDecDocs(n *sx) []bson.D {
	docs := make([]bson.D, 0, len(n.list))
	for _, e := range n.list {
		docs = append(docs, decValue(e).(bson.D))
	}
	return docs
}

func runSortDist(c *sx) string {
	switch c.list[0].atom {
	case "sort":
		list, pos := sdList(sdDecDocs(c.list[1]))
		res, err := mongokit.Sort(list, decDoc(c.list[2]))
		if err != nil {
			return "ERR"
		}
		return sdPositions(res, pos)
	case "distinct":
		list, _ := sdList(sdDecDocs(c.list[1]))
		return canonList(mongokit.Distinct(list, unhx(c.list[2].atom)))
	case "find":
		coll, _, pos, err := sdCollection(sdDecDocs(c.list[1]))
		if err != nil {
			return "INSERT-ERR"
		}
		var sort bsonkit.Doc
		if c.list[3].isL {
			sort = decDoc(c.list[3])
		}
		res, err := coll.Find(decDoc(c.list[2]), sort, int(atoi64(c.list[4].atom)), int(atoi64(c.list[5].atom)))
		if err != nil {
			return "ERR"
		}
		return sdPositions(res.Matched, pos)
	}
	return "BAD-CASE"
}

func sdBucket(n int) string {
	switch {
	case n == 0:
		return "0"
	case n == 1:
		return "1"
	case n <= 8:
		return "2-8"
	case n < 15:
		return "9-14"
	default:
		return "15+"
	}
}

func init() {
	register(&family{
		name: "sortdist",
		gen:  genSortDist,
		run:  runSortDist,
		classify: func(c *sx, obs string) ([]string, bool) {
			op := c.list[0].atom
			labels := []string{"op:" + op, op + ":docs=" + sdBucket(len(c.list[1].list))}
			nres := 0
			switch {
			case obs == "ERR" || obs == "PANIC" || obs == "INSERT-ERR":
				labels = append(labels, op+":"+obs)
			default:
				if o, err := parseSx(obs); err == nil {
					nres = len(o.list)
				}
				labels = append(labels, op+":results="+sdBucket(nres))
			}
			switch op {
			case "sort":
				labels = append(labels, "sort:keys="+strconv.Itoa(len(c.list[2].list)-1))
			case "find":
				if c.list[3].isL {
					labels = append(labels, "find:sorted")
				} else {
					labels = append(labels, "find:unsorted")
				}
				if len(c.list[2].list) > 1 {
					labels = append(labels, "find:filter=eq")
				} else {
					labels = append(labels, "find:filter={}")
				}
				if c.list[4].atom != "0" {
					labels = append(labels, "find:skip>0")
				}
				if c.list[5].atom != "0" {
					labels = append(labels, "find:limit>0")
				}
			}
			return labels, nres >= 2
		},
	})

	registerOracle(&oracle{prop: "C13", name: "sort-window-distinct", run: oracleC13})
}

// ---------------------------------------------------------------------------
// oracle C13: the property statement itself, on the real code, with an
// INDEPENDENT re-implementation of the ordering rule and of the value
// extraction (no model involved).

type orcCol struct {
	path string
	rev  bool
}

// orcLookup: the value at a plain path (top-level key, or key.key through
// embedded documents only); anything else is missing.
func orcLookup(d bson.D, path string) interface{} {
	var cur interface{} = d
	for _, seg := range strings.Split(path, ".") {
		doc, ok := cur.(bson.D)
		if !ok {
			return bsonkit.Missing
		}
		cur = bsonkit.Missing
		for _, e := range doc {
			if e.Key == seg {
				cur = e.Value
				break
			}
		}
		if cur == bsonkit.Missing {
			return bsonkit.Missing
		}
	}
	return cur
}

// orcKey: missing as null; a non-empty array by its smallest (ascending) or
// largest (descending) element.
func orcKey(v interface{}, rev bool) interface{} {
	if v == bsonkit.Missing {
		return nil
	}
	if arr, ok := v.(bson.A); ok && len(arr) > 0 {
		best := arr[0]
		for _, it := range arr[1:] {
			c := bsonkit.Compare(it, best)
			if (!rev && c < 0) || (rev && c > 0) {
				best = it
			}
		}
		return best
	}
	return v
}

func orcOrder(a, b bson.D, cols []orcCol) int {
	for _, c := range cols {
		r := bsonkit.Compare(orcKey(orcLookup(a, c.path), c.rev), orcKey(orcLookup(b, c.path), c.rev))
		if r != 0 {
			if c.rev {
				return -sgn(r)
			}
			return sgn(r)
		}
	}
	return 0
}

// orcValues: the values a document has at the path — embedded documents are
// entered by key, arrays on the way are traversed element by element, a leaf
// that is an array contributes its elements individually.
func orcValues(v interface{}, segs []string) []interface{} {
	if len(segs) == 0 {
		if arr, ok := v.(bson.A); ok {
			return append([]interface{}{}, arr...)
		}
		return []interface{}{v}
	}
	switch x := v.(type) {
	case bson.D:
		for _, e := range x {
			if e.Key == segs[0] {
				return orcValues(e.Value, segs[1:])
			}
		}
	case bson.A:
		var out []interface{}
		for _, it := range x {
			if d, ok := it.(bson.D); ok {
				out = append(out, orcValues(d, segs)...)
			}
		}
		return out
	}
	return nil
}

// orcFieldValue: values for the oracle's documents.  No array directly inside
// an array on a traversed path (lungo and MongoDB differ there; out of scope).
func orcFieldValue(r *rng, pool []interface{}) interface{} {
	leaf := func() interface{} {
		if r.chance(1, 4) {
			n := r.intn(4)
			a := bson.A{}
			for i := 0; i < n; i++ {
				a = append(a, pool[r.intn(len(pool))])
			}
			return a
		}
		return pool[r.intn(len(pool))]
	}
	switch r.intn(8) {
	case 0:
		return bson.D{{Key: "b", Value: leaf()}}
	case 1:
		n := r.intn(3)
		a := bson.A{}
		for i := 0; i < n; i++ {
			if r.chance(2, 3) {
				a = append(a, bson.D{{Key: "b", Value: leaf()}})
			} else {
				a = append(a, pool[r.intn(len(pool))])
			}
		}
		return a
	default:
		return leaf()
	}
}

func orcDocs(r *rng) []bson.D {
	var n, k int
	if r.chance(1, 5) {
		n, k = 15+r.intn(26), 1+r.intn(3)
	} else {
		n, k = r.intn(9), 2+r.intn(4)
	}
	pool := make([]interface{}, 0, k)
	for len(pool) < k {
		if len(pool) > 0 && r.chance(1, 3) {
			v := mutate(r, pool[r.intn(len(pool))])
			if sdIsPlainScalar(v) {
				pool = append(pool, v)
			}
			continue
		}
		v := genScalar(r)
		if _, isRe := v.(primitive.Regex); !isRe {
			pool = append(pool, v)
		}
	}
	docs := make([]bson.D, 0, n)
	for i := 0; i < n; i++ {
		d := bson.D{{Key: "_id", Value: int32(i)}}
		for _, f := range []string{"a", "b", "c"} {
			if r.chance(1, 6) {
				continue
			}
			d = append(d, bson.E{Key: f, Value: orcFieldValue(r, pool)})
		}
		docs = append(docs, d)
	}
	return docs
}

func orcCols(r *rng) ([]orcCol, bson.D) {
	n := 1 + r.intn(3)
	var cols []orcCol
	spec := bson.D{}
	used := map[string]bool{}
	for i := 0; i < n; i++ {
		k := pick(r, []string{"a", "b", "c", "a.b"})
		if used[k] {
			continue
		}
		used[k] = true
		rev := r.chance(1, 2)
		cols = append(cols, orcCol{k, rev})
		var dir interface{}
		switch r.intn(3) {
		case 0:
			dir = int32(1 - 2*b2i(rev))
		case 1:
			dir = int64(1 - 2*b2i(rev))
		default:
			dir = float64(1 - 2*b2i(rev))
		}
		spec = append(spec, bson.E{Key: k, Value: dir})
	}
	return cols, spec
}

func b2i(b bool) int {
	if b {
		return 1
	}
	return 0
}

func idsOf(l bsonkit.List) []int {
	out := make([]int, 0, len(l))
	for _, d := range l {
		id, ok := bsonkit.Get(d, "_id").(int32)
		if !ok {
			out = append(out, -1)
		} else {
			out = append(out, int(id))
		}
	}
	return out
}

func intsEq(a, b []int) bool {
	if len(a) != len(b) {
		return false
	}
	for i := range a {
		if a[i] != b[i] {
			return false
		}
	}
	return true
}

func windowOf(full []int, skip, limit int) []int {
	if skip > len(full) {
		return []int{}
	}
	w := full[skip:]
	if limit > 0 && limit < len(w) {
		w = w[:limit]
	}
	return w
}

// checkOrdering: `ids` must be a permutation of `want` (ids of the matching
// documents in insertion order), never decreasing under the independent
// ordering for EVERY earlier/later pair, with ties in insertion order.
func checkOrdering(docs []bson.D, ids, want []int, cols []orcCol) (string, string) {
	if len(ids) != len(want) {
		return "C13:sort-permutation", fmt.Sprintf("result has %d documents, %d match", len(ids), len(want))
	}
	seen := map[int]bool{}
	wantSet := map[int]bool{}
	for _, w := range want {
		wantSet[w] = true
	}
	for _, id := range ids {
		if id < 0 || id >= len(docs) || !wantSet[id] || seen[id] {
			return "C13:sort-permutation", fmt.Sprintf("result %v is not a permutation of the matches %v", ids, want)
		}
		seen[id] = true
	}
	for i := 0; i < len(ids); i++ {
		for j := i + 1; j < len(ids); j++ {
			o := orcOrder(docs[ids[i]], docs[ids[j]], cols)
			if o > 0 {
				return "C13:sort-order", fmt.Sprintf("result %v: document %d comes before %d but is greater under the specification", ids, ids[i], ids[j])
			}
			if o == 0 && ids[i] > ids[j] {
				return "C13:sort-stability", fmt.Sprintf("result %v: documents %d and %d tie but are not in insertion order", ids, ids[i], ids[j])
			}
		}
	}
	return "", ""
}

func oracleC13(r *rng, n int, st *oracleStats) []oracleFailure {
	st.Rule = "collections of 0-8 (sometimes 15-40, tie-rich) documents over a small value pool (mixed numeric types, arrays, embedded documents, missing fields) x {} / {field: scalar} filters x 1-3 sort columns; checked on the real code: full sorted Find is a permutation of the matches (real Match), never decreasing for every earlier/later pair under an independent ordering (bsonkit.Compare per field, min/max array element, missing as null), ties in insertion order; mongokit.Sort likewise; Find/Delete with every skip/limit pair from {0,1,2,n-1,n,n+1} = the window of the full ordering; sorted Delete/Update/Replace of one document hit its first element; Distinct strictly ascending and exactly the values occurring (array elements individually, independent extraction); non-trivial = at least two matching documents"
	var fails []oracleFailure
	fail := func(sig, what string, docs []bson.D, q, spec bson.D, extra string) {
		if len(fails) >= 20 {
			return
		}
		fails = append(fails, oracleFailure{Property: "C13", Signature: sig, What: what, Family: "sortdist",
			Case:   fmt.Sprintf("(find %s %s %s 0 0)", sdEncDocs(docs), enc(q), enc(spec)),
			Detail: map[string]string{"docs": sdEncDocs(docs), "filter": enc(q), "sort": enc(spec), "extra": extra}})
	}
	for it := 0; it < n; it++ {
		docs := orcDocs(r)
		q := sdFilter(r, docs)
		cols, spec := orcCols(r)
		st.Evaluations++

		// the matching documents, by the real Match, in insertion order
		var want []int
		for i := range docs {
			ok, err := mongokit.Match(&docs[i], &q)
			if err != nil {
				want = nil
				break
			}
			if ok {
				want = append(want, i)
			}
		}
		nm := len(want)
		if nm >= 2 {
			st.Nontrivial++
		}
		st.Dist["matches="+sdBucket(nm)]++
		st.Dist["docs="+sdBucket(len(docs))]++
		if len(st.Samples) < 3 {
			st.Samples = append(st.Samples, fmt.Sprintf("(find %s %s %s 0 0)", sdEncDocs(docs), enc(q), enc(spec)))
		}

		func() {
			defer func() {
				if p := recover(); p != nil {
					fail("C13:panic", fmt.Sprint("panic: ", p), docs, q, spec, "")
				}
			}()

			// (1) mongokit.Sort on the whole list
			{
				list, pos := sdList(docs)
				res, err := mongokit.Sort(list, &spec)
				if err != nil {
					fail("C13:sort-error", "Sort fails on a valid specification: "+err.Error(), docs, q, spec, "")
					return
				}
				ids := make([]int, len(res))
				all := make([]int, len(docs))
				for i, d := range res {
					p, ok := pos[d]
					if !ok {
						p = -1
					}
					ids[i] = p
				}
				for i := range all {
					all[i] = i
				}
				if sig, what := checkOrdering(docs, ids, all, cols); sig != "" {
					fail(sig, "mongokit.Sort: "+what, docs, bson.D{}, spec, "")
					return
				}
			}

			// (2) the full sorted Find
			coll, _, _, err := sdCollection(docs)
			if err != nil {
				fail("C13:insert", "Insert failed: "+err.Error(), docs, q, spec, "")
				return
			}
			res, err := coll.Find(&q, &spec, 0, 0)
			if err != nil {
				fail("C13:find-error", "Find fails: "+err.Error(), docs, q, spec, "")
				return
			}
			full := idsOf(res.Matched)
			if sig, what := checkOrdering(docs, full, want, cols); sig != "" {
				fail(sig, "Find: "+what, docs, q, spec, "")
				return
			}

			// (3) every skip/limit pair returns the window of the full ordering
			ws := sdWindowValues(nm)
			for _, skip := range ws {
				for _, limit := range ws {
					res, err := coll.Find(&q, &spec, skip, limit)
					if err != nil {
						fail("C13:find-error", "Find fails: "+err.Error(), docs, q, spec, "")
						return
					}
					got, exp := idsOf(res.Matched), windowOf(full, skip, limit)
					if !intsEq(got, exp) {
						fail("C13:window", fmt.Sprintf("Find skip=%d limit=%d returns %v, the window of the full ordering %v is %v", skip, limit, got, full, exp),
							docs, q, spec, fmt.Sprintf("skip=%d limit=%d", skip, limit))
						return
					}
					st.Dist["window-checks"]++
				}
			}
			// unsorted: the window of the matches in insertion order
			{
				skip, limit := pick(r, ws), pick(r, ws)
				res, err := coll.Find(&q, nil, skip, limit)
				if err != nil {
					fail("C13:find-error", "Find fails: "+err.Error(), docs, q, spec, "")
					return
				}
				got, exp := idsOf(res.Matched), windowOf(want, skip, limit)
				if !intsEq(got, exp) {
					fail("C13:window", fmt.Sprintf("unsorted Find skip=%d limit=%d returns %v, the window of the matches %v is %v", skip, limit, got, want, exp),
						docs, q, bson.D{}, fmt.Sprintf("skip=%d limit=%d", skip, limit))
					return
				}
			}

			// (4) sorted one-document writes act on the first element
			first := []int{}
			if len(full) > 0 {
				first = full[:1]
			}
			remaining := func(c *mongokit.Collection) []int { return idsOf(c.Documents.List) }
			without := func(skipIDs []int) []int {
				drop := map[int]bool{}
				for _, id := range skipIDs {
					drop[id] = true
				}
				out := []int{}
				for i := range docs {
					if !drop[i] {
						out = append(out, i)
					}
				}
				return out
			}
			{
				c2, _, _, _ := sdCollection(docs)
				res, err := c2.Delete(&q, &spec, 0, 1)
				if err != nil {
					fail("C13:write-error", "Delete fails: "+err.Error(), docs, q, spec, "")
					return
				}
				if got := idsOf(res.Matched); !intsEq(got, first) || !intsEq(remaining(c2), without(first)) {
					fail("C13:one-doc-write", fmt.Sprintf("sorted Delete(limit 1) removed %v (collection now %v); the first of the full ordering %v is %v", got, remaining(c2), full, first),
						docs, q, spec, "delete")
					return
				}
				// Delete with a window removes exactly that window
				skip, limit := pick(r, ws), pick(r, ws)
				c3, _, _, _ := sdCollection(docs)
				res, err = c3.Delete(&q, &spec, skip, limit)
				if err != nil {
					fail("C13:write-error", "Delete fails: "+err.Error(), docs, q, spec, "")
					return
				}
				exp := windowOf(full, skip, limit)
				if got := idsOf(res.Matched); !intsEq(got, exp) || !intsEq(remaining(c3), without(exp)) {
					fail("C13:window", fmt.Sprintf("sorted Delete skip=%d limit=%d removed %v; the window of the full ordering %v is %v", skip, limit, got, full, exp),
						docs, q, spec, fmt.Sprintf("delete skip=%d limit=%d", skip, limit))
					return
				}
			}
			marked := func(c *mongokit.Collection) []int {
				out := []int{}
				for _, d := range c.Documents.List {
					if bsonkit.Get(d, "zz") != bsonkit.Missing {
						if id, ok := bsonkit.Get(d, "_id").(int32); ok {
							out = append(out, int(id))
						} else {
							out = append(out, -1)
						}
					}
				}
				return out
			}
			{
				c2, _, _, _ := sdCollection(docs)
				upd := bson.D{{Key: "$set", Value: bson.D{{Key: "zz", Value: int32(1)}}}}
				res, err := c2.Update(&q, &upd, &spec, 0, 1, nil)
				if err != nil {
					fail("C13:write-error", "Update fails: "+err.Error(), docs, q, spec, "")
					return
				}
				if got := idsOf(res.Matched); !intsEq(got, first) || !intsEq(marked(c2), first) {
					fail("C13:one-doc-write", fmt.Sprintf("sorted Update(limit 1) matched %v and changed %v; the first of the full ordering %v is %v", got, marked(c2), full, first),
						docs, q, spec, "update")
					return
				}
			}
			{
				// Update with a window changes exactly that window
				skip, limit := pick(r, ws), pick(r, ws)
				c3, _, _, _ := sdCollection(docs)
				upd := bson.D{{Key: "$set", Value: bson.D{{Key: "zz", Value: int32(1)}}}}
				res, err := c3.Update(&q, &upd, &spec, skip, limit, nil)
				if err != nil {
					fail("C13:write-error", "Update fails: "+err.Error(), docs, q, spec, "")
					return
				}
				exp := windowOf(full, skip, limit)
				sortedExp := append([]int{}, exp...)
				sort.Ints(sortedExp)
				if got := idsOf(res.Matched); !intsEq(got, exp) || !intsEq(marked(c3), sortedExp) {
					fail("C13:window", fmt.Sprintf("sorted Update skip=%d limit=%d matched %v and changed %v; the window of the full ordering %v is %v", skip, limit, got, marked(c3), full, exp),
						docs, q, spec, fmt.Sprintf("update skip=%d limit=%d", skip, limit))
					return
				}
			}
			{
				c2, _, _, _ := sdCollection(docs)
				repl := bson.D{{Key: "zz", Value: int32(1)}}
				res, err := c2.Replace(&q, &repl, &spec)
				if err != nil {
					fail("C13:write-error", "Replace fails: "+err.Error(), docs, q, spec, "")
					return
				}
				if got := idsOf(res.Matched); !intsEq(got, first) || !intsEq(marked(c2), first) {
					fail("C13:one-doc-write", fmt.Sprintf("sorted Replace matched %v and replaced %v; the first of the full ordering %v is %v", got, marked(c2), full, first),
						docs, q, spec, "replace")
					return
				}
			}

			// (5) Distinct
			{
				path := pick(r, []string{"a", "b", "c", "a.b"})
				list, _ := sdList(docs)
				got := mongokit.Distinct(list, path)
				var exp []interface{}
				for _, d := range docs {
					exp = append(exp, orcValues(d, strings.Split(path, "."))...)
				}
				for i := 0; i+1 < len(got); i++ {
					if bsonkit.Compare(got[i], got[i+1]) >= 0 {
						fail("C13:distinct-order", fmt.Sprintf("Distinct(%q) = %s is not strictly ascending at position %d", path, enc(got), i),
							docs, bson.D{}, bson.D{}, "distinct "+path)
						return
					}
				}
				for _, e := range exp {
					found := false
					for _, g := range got {
						if bsonkit.Compare(e, g) == 0 {
							found = true
							break
						}
					}
					if !found {
						fail("C13:distinct-set", fmt.Sprintf("Distinct(%q) = %s misses the occurring value %s", path, enc(got), enc(e)),
							docs, bson.D{}, bson.D{}, "distinct "+path)
						return
					}
				}
				for _, g := range got {
					found := false
					for _, e := range exp {
						if bsonkit.Compare(e, g) == 0 {
							found = true
							break
						}
					}
					if !found {
						fail("C13:distinct-set", fmt.Sprintf("Distinct(%q) = %s contains %s, which does not occur", path, enc(got), enc(g)),
							docs, bson.D{}, bson.D{}, "distinct "+path)
						return
					}
				}
				st.Dist["distinct:values="+sdBucket(len(got))]++
			}
		}()
	}
	return fails
}
