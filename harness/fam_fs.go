package main

// fam_fs.go — property C05 (crash safety of the single-file store).
//
// Family `fs` (correspondence with coq/Model/Fs.v, runner Model/FsRun.v:run_fs):
//   (fstrace (scen OLD STALE) (prog ITEM…) (defers (ITEM…)…) (obs TOK…))
//       translation validation: a REAL engine commit through lungo.FileStore is
//       run in a child process under strace; OBS is the normalised sequence of
//       system calls it made on the store file, its temporary and the directory.
//       PROG/DEFERS is the rendering of dbkit/atomic.go produced by the
//       translator (coq/Gen/Atomic.v), copied into the case.  The model answers:
//       is OBS the system-call sequence of the generated program in this
//       scenario, is the generated program accepted by the proved-sound checker,
//       and does EVERY crash instant and lost-write set of OBS load as old or
//       new (exhaustive enumeration), ending durable.  The harness expects
//       "trace=match wo=1 crash=safe final=durable fds=closed".
//   (fsx (init OLD STALE) (ops TOK…))
//       validates the volatile semantics of the model's `exec`: the same raw
//       system calls are made on a real directory; per-call result and the final
//       contents of the two names must agree.
//
// Oracles C05 (model-free, on the real code):
//   kill          SIGKILL at random instants of a child running a commit loop,
//                 then FileStore.Load: never torn, generation ∈ {acked, acked+1}
//   failing-store a lungo.Store wrapper that fails before / after writing:
//                 error reported, Engine.Catalog() unchanged, later writes work
//   atomic-fail   dbkit.AtomicWriteFile with a failing reader / unremovable
//                 temporary / missing directory: old contents, no temporary left

import (
	"bufio"
	"bytes"
	"context"
	"errors"
	"fmt"
	"io"
	"os"
	"os/exec"
	"path/filepath"
	"regexp"
	"sort"
	"strconv"
	"strings"
	"sync/atomic"
	"syscall"
	"time"

	"go.mongodb.org/mongo-driver/bson"
	"go.mongodb.org/mongo-driver/bson/primitive"
	"go.mongodb.org/mongo-driver/mongo"
	"go.mongodb.org/mongo-driver/mongo/options"

	"github.com/256dpi/lungo"
	"github.com/256dpi/lungo/dbkit"
)

const fsExpected = "trace=match wo=1 crash=safe final=durable fds=closed"

func init() {
	// child modes (re-exec of this binary); must run before main parses anything
	if len(os.Args) >= 3 && os.Args[1] == "fs-child" {
		fsChild(os.Args[2], os.Args[3:])
		os.Exit(0)
	}
	register(&family{
		name:     "fs",
		gen:      genFsCase,
		run:      runFsCase,
		classify: classifyFs,
	})
	registerOracle(&oracle{prop: "C05", name: "kill", run: oracleKill})
	registerOracle(&oracle{prop: "C05", name: "failing-store", run: oracleFailingStore})
	registerOracle(&oracle{prop: "C05", name: "atomic-fail", run: oracleAtomicFail})
}

// ---------------------------------------------------------------------------
// child process

func fsStorePath(dir string) string { return filepath.Join(dir, "store.bson") }

func fsPayload(g int) []byte {
	// sizes from 512 B to about 68 KiB, varying with the generation (the oplog
	// keeps the last 100 full documents, so the image is a few MiB)
	n := 512 << uint(g%8)
	n += (g * 7919) % 4096
	b := make([]byte, n)
	for i := range b {
		b[i] = byte(g + i)
	}
	return b
}

func fsChild(mode string, args []string) {
	ctx := context.Background()
	switch mode {
	case "commit":
		// fs-child commit DIR OLD STALE: one marked engine commit
		dir := args[0]
		old, stale := args[1] == "1", args[2] == "1"
		path := fsStorePath(dir)
		client, engine, err := lungo.Open(ctx, lungo.Options{Store: lungo.NewFileStore(path, 0666)})
		if err != nil {
			fmt.Println("openerr", err)
			os.Exit(3)
		}
		coll := client.Database("db").Collection("c")
		if old {
			if _, err := coll.InsertOne(ctx, bson.M{"_id": "first", "n": int64(0)}); err != nil {
				fmt.Println("err", err)
				os.Exit(3)
			}
		}
		if stale {
			if err := os.WriteFile(path+".tmp", []byte("stale temporary"), 0666); err != nil {
				os.Exit(3)
			}
		}
		_ = os.Remove(filepath.Join(dir, "MARK"))
		_, err = coll.InsertOne(ctx, bson.M{"_id": "gen", "n": int64(1), "pad": fsPayload(7)})
		_ = os.Remove(filepath.Join(dir, "MARK"))
		if err != nil {
			fmt.Println("err", err)
			os.Exit(3)
		}
		engine.Close()
		fmt.Println("done")
	case "loop":
		// fs-child loop DIR: commit generations forever, acknowledging each on stdout
		dir := args[0]
		client, _, err := lungo.Open(ctx, lungo.Options{Store: lungo.NewFileStore(fsStorePath(dir), 0666)})
		if err != nil {
			fmt.Println("loaderr", err)
			os.Exit(3)
		}
		coll := client.Database("db").Collection("c")
		g := 0
		var doc bson.M
		if err := coll.FindOne(ctx, bson.M{"_id": "gen"}).Decode(&doc); err == nil {
			g = int(doc["n"].(int64))
		}
		out := bufio.NewWriter(os.Stdout)
		fmt.Fprintf(out, "start %d\n", g)
		out.Flush()
		for {
			g++
			_, err := coll.ReplaceOne(ctx, bson.M{"_id": "gen"}, bson.M{"_id": "gen", "n": int64(g), "pad": fsPayload(g)}, options.Replace().SetUpsert(true))
			if err != nil {
				fmt.Fprintf(out, "err %v\n", err)
				out.Flush()
				os.Exit(3)
			}
			fmt.Fprintf(out, "ack %d\n", g)
			out.Flush()
		}
	default:
		os.Exit(2)
	}
}

func selfExe() string {
	p, err := os.Executable()
	if err != nil {
		return os.Args[0]
	}
	return p
}

// ---------------------------------------------------------------------------
// strace of one real commit

var reStraceLine = regexp.MustCompile(`^(\d+)\s+(.*)$`)
var reResumed = regexp.MustCompile(`^<\.\.\. (\w+) resumed>(.*)$`)
var reQuoted = regexp.MustCompile(`"((?:[^"\\]|\\.)*)"`)
var reFdPath = regexp.MustCompile(`^\w+\((\d+)<([^>]*)>`)

// straceCommit runs the child under strace and returns the normalised tokens of
// the system calls made between the two markers.
func straceCommit(old, stale int) ([]string, error) {
	dir, err := os.MkdirTemp("", "verif-fs-trace-")
	if err != nil {
		return nil, err
	}
	defer os.RemoveAll(dir)
	dir, _ = filepath.EvalSymlinks(dir)
	if err := os.WriteFile(filepath.Join(dir, "MARK"), nil, 0666); err != nil {
		return nil, err
	}
	tf := filepath.Join(dir, "strace.out")
	cmd := exec.Command("strace", "-f", "-y", "-s", "0", "-o", tf,
		"-e", "trace=openat,open,creat,write,pwrite64,writev,fsync,fdatasync,sync_file_range,close,rename,renameat,renameat2,unlink,unlinkat,rmdir,link,linkat,ftruncate,truncate",
		selfExe(), "fs-child", "commit", dir, strconv.Itoa(old), strconv.Itoa(stale))
	outb, err := cmd.CombinedOutput()
	if err != nil || !strings.Contains(string(outb), "done") {
		return nil, fmt.Errorf("strace child failed: %v %s", err, outb)
	}
	raw, err := os.ReadFile(tf)
	if err != nil {
		return nil, err
	}
	return normaliseStrace(string(raw), dir), nil
}

func normaliseStrace(raw, dir string) []string {
	path := fsStorePath(dir)
	sym := func(p string) string {
		switch p {
		case path:
			return "path"
		case path + ".tmp":
			return "tmp"
		case dir:
			return "dir"
		case filepath.Join(dir, "MARK"):
			return "mark"
		}
		if strings.HasPrefix(p, dir+"/") {
			return "other(" + filepath.Base(p) + ")"
		}
		return ""
	}
	// join unfinished/resumed pairs per pid
	pending := map[string]string{}
	var calls []string
	for _, line := range strings.Split(raw, "\n") {
		m := reStraceLine.FindStringSubmatch(line)
		if m == nil {
			continue
		}
		pid, rest := m[1], m[2]
		if strings.HasSuffix(rest, "<unfinished ...>") {
			pending[pid] = strings.TrimSuffix(rest, "<unfinished ...>")
			continue
		}
		if r := reResumed.FindStringSubmatch(rest); r != nil {
			rest = pending[pid] + r[2]
			delete(pending, pid)
		}
		calls = append(calls, rest)
	}
	var toks []string
	window := 0
	lastUnlinkFailed := ""
	for _, c := range calls {
		name := c
		if i := strings.IndexByte(c, '('); i >= 0 {
			name = c[:i]
		}
		ret := ""
		if i := strings.LastIndex(c, " = "); i >= 0 {
			ret = strings.TrimSpace(c[i+3:])
		}
		failed := strings.HasPrefix(ret, "-1")
		errname := ""
		if failed {
			f := strings.Fields(ret)
			if len(f) >= 2 {
				errname = f[1]
			}
		}
		var strs []string
		for _, q := range reQuoted.FindAllStringSubmatch(c, -1) {
			strs = append(strs, q[1])
		}
		emit := func(t string) {
			if window == 1 {
				toks = append(toks, t)
			}
		}
		switch name {
		case "unlink", "unlinkat", "rmdir":
			if len(strs) == 0 {
				continue
			}
			s := sym(strs[len(strs)-1])
			if s == "mark" {
				if !strings.Contains(c, "AT_REMOVEDIR") {
					window++
				}
				continue
			}
			if s == "" {
				continue
			}
			isRmdir := name == "rmdir" || strings.Contains(c, "AT_REMOVEDIR")
			if isRmdir && failed && lastUnlinkFailed == s {
				// os.Remove falls back to rmdir after a failed unlink: one logical call
				lastUnlinkFailed = ""
				continue
			}
			t := "unlink:" + s
			if isRmdir {
				t = "rmdir:" + s
			}
			if failed {
				t += ":" + errname
				lastUnlinkFailed = s
			} else {
				lastUnlinkFailed = ""
			}
			emit(t)
		case "openat", "open", "creat":
			if len(strs) == 0 {
				continue
			}
			s := sym(strs[0])
			if s == "" || s == "mark" {
				continue
			}
			fl := c
			var t string
			switch {
			case name == "creat":
				t = "opentrunc:" + s
			case strings.Contains(fl, "O_CREAT") && strings.Contains(fl, "O_EXCL") && !strings.Contains(fl, "O_TRUNC") && !strings.Contains(fl, "O_APPEND"):
				t = "openexcl:" + s
			case strings.Contains(fl, "O_CREAT") && strings.Contains(fl, "O_TRUNC") && !strings.Contains(fl, "O_APPEND"):
				t = "opentrunc:" + s
			case s == "dir" && strings.Contains(fl, "O_RDONLY"):
				t = "opendir"
			case strings.Contains(fl, "O_RDONLY"):
				t = "openro:" + s
			default:
				t = "open?:" + s
			}
			if failed {
				t += ":" + errname
			}
			emit(t)
		case "write", "pwrite64", "writev", "fsync", "fdatasync", "sync_file_range", "close", "ftruncate":
			m := reFdPath.FindStringSubmatch(c)
			if m == nil {
				continue
			}
			s := sym(m[2])
			if s == "" || s == "mark" {
				continue
			}
			var t string
			switch name {
			case "write":
				t = "write"
			case "fsync", "fdatasync":
				t = "fsync"
			case "close":
				t = "close"
			default:
				t = name
			}
			if s == "dir" {
				t += "dir"
			} else if s != "tmp" && s != "path" {
				t += ":" + s
			}
			if failed {
				t += ":" + errname
			}
			emit(t)
		case "rename", "renameat", "renameat2", "link", "linkat":
			if len(strs) < 2 {
				continue
			}
			a, b := sym(strs[0]), sym(strs[1])
			if a == "" && b == "" {
				continue
			}
			t := "rename:" + a + ":" + b
			if strings.HasPrefix(name, "link") {
				t = "link:" + a + ":" + b
			}
			if failed {
				t += ":" + errname
			}
			emit(t)
		case "truncate":
			if len(strs) > 0 && sym(strs[0]) != "" {
				emit("truncate:" + sym(strs[0]))
			}
		}
	}
	if window != 2 {
		return append([]string{"markers:" + strconv.Itoa(window)}, toks...)
	}
	return toks
}

// ---------------------------------------------------------------------------
// the generated program, copied from coq/Gen/Atomic.v into the case

func genFilePath() string {
	if p := os.Getenv("VERIF_GEN_ATOMIC"); p != "" {
		return p
	}
	// <verif>/.work/bin/harness -> <verif>/coq/Gen/Atomic.v
	return filepath.Join(filepath.Dir(filepath.Dir(filepath.Dir(selfExe()))), "coq", "Gen", "Atomic.v")
}

var reItem = regexp.MustCompile(`\("((?:[^"]|"")*)", \[((?:[^\]"]|"(?:[^"]|"")*")*)\]\)`)
var reCoqStr = regexp.MustCompile(`"((?:[^"]|"")*)"`)

func parseItems(text string) []string {
	var out []string
	for _, m := range reItem.FindAllStringSubmatch(text, -1) {
		parts := []string{hx(strings.ReplaceAll(m[1], `""`, `"`))}
		for _, a := range reCoqStr.FindAllStringSubmatch(m[2], -1) {
			parts = append(parts, hx(strings.ReplaceAll(a[1], `""`, `"`)))
		}
		out = append(out, "("+strings.Join(parts, " ")+")")
	}
	return out
}

// generatedProgram returns the "(prog …) (defers …)" part of a case.
func generatedProgram() string {
	raw, err := os.ReadFile(genFilePath())
	if err != nil {
		return "(prog (" + hx("Unknown:no generated file") + ")) (defers)"
	}
	text := string(raw)
	i := strings.Index(text, "Definition gen_atomic_prog")
	j := strings.Index(text, "Definition gen_atomic_defers")
	if i < 0 || j < i {
		return "(prog (" + hx("Unknown:malformed generated file") + ")) (defers)"
	}
	prog := parseItems(text[i:j])
	var bodies []string
	// each body is one line "[item; item]" inside the outer list
	for _, line := range strings.Split(text[j:], "\n") {
		line = strings.TrimSpace(line)
		if strings.HasPrefix(line, "[(") || line == "[];" || line == "[]" {
			bodies = append(bodies, "("+strings.Join(parseItems(line), " ")+")")
		}
	}
	return "(prog " + strings.Join(prog, " ") + ") (defers " + strings.Join(bodies, " ") + ")"
}

// ---------------------------------------------------------------------------
// family

var fsCaseNo int

var fsScenarios = [][2]int{{1, 0}, {0, 0}, {1, 1}, {0, 1}}

var fsTokens = []string{"unlink:tmp", "unlink:path", "openexcl:tmp", "openexcl:path", "opentrunc:tmp", "opentrunc:path",
	"write", "fsync", "close", "rename:tmp:path", "rename:path:tmp", "rename:tmp:tmp", "opendir", "fsyncdir", "closedir"}

var fsProtocol = []string{"unlink:tmp", "openexcl:tmp", "write", "fsync", "close", "rename:tmp:path", "opendir", "fsyncdir", "closedir", "close", "unlink:tmp"}

func genFsCase(r *rng) string {
	k := fsCaseNo
	fsCaseNo++
	if k < len(fsScenarios) {
		sc := fsScenarios[k]
		toks, err := straceCommit(sc[0], sc[1])
		if err != nil {
			toks = []string{"strace-failed"}
		}
		return fmt.Sprintf("(fstrace (scen %d %d) %s (obs %s))", sc[0], sc[1], generatedProgram(), strings.Join(toks, " "))
	}
	// raw system-call programs: mutations of the protocol, or random
	var ops []string
	if r.chance(2, 3) {
		ops = append(ops, fsProtocol...)
		for m := r.intn(4); m > 0; m-- {
			switch r.intn(4) {
			case 0: // drop
				if len(ops) > 1 {
					i := r.intn(len(ops))
					ops = append(ops[:i:i], ops[i+1:]...)
				}
			case 1: // swap neighbours
				if len(ops) > 1 {
					i := r.intn(len(ops) - 1)
					ops[i], ops[i+1] = ops[i+1], ops[i]
				}
			case 2: // insert
				i := r.intn(len(ops) + 1)
				ops = append(ops[:i:i], append([]string{pick(r, fsTokens)}, ops[i:]...)...)
			case 3: // replace
				ops[r.intn(len(ops))] = pick(r, fsTokens)
			}
		}
	} else {
		for n := 2 + r.intn(9); n > 0; n-- {
			ops = append(ops, pick(r, fsTokens))
		}
	}
	return fmt.Sprintf("(fsx (init %d %d) (ops %s))", r.intn(2), r.intn(3), strings.Join(ops, " "))
}

func sxAtoms(n *sx) []string {
	var out []string
	for _, c := range n.list[1:] {
		out = append(out, c.atom)
	}
	return out
}

func runFsCase(c *sx) string {
	switch c.list[0].atom {
	case "fstrace":
		old, _ := strconv.Atoi(c.list[1].list[1].atom)
		stale, _ := strconv.Atoi(c.list[1].list[2].atom)
		want := sxAtoms(c.list[4])
		// the case carries the sequence observed at generation time; observe again
		got, err := straceCommit(old, stale)
		if err != nil {
			return "STRACE-FAILED"
		}
		if collapse(strings.Join(got, " ")) != collapse(strings.Join(want, " ")) {
			return "REPLAY-DIFFERS:" + strings.Join(got, ",")
		}
		return fsExpected
	case "fsx":
		old, _ := strconv.Atoi(c.list[1].list[1].atom)
		stale, _ := strconv.Atoi(c.list[1].list[2].atom)
		return runFsx(old, stale, sxAtoms(c.list[2]))
	}
	return "BAD-CASE"
}

// collapse folds runs of write tokens (the number of write(2) calls of one
// io.Copy depends on buffer sizes).
func collapse(s string) string {
	for strings.Contains(s, "write write") {
		s = strings.ReplaceAll(s, "write write", "write")
	}
	return s
}

func classifyFs(c *sx, obs string) ([]string, bool) {
	kind := c.list[0].atom
	labels := []string{"kind:" + kind}
	switch kind {
	case "fstrace":
		labels = append(labels, "scenario:old="+c.list[1].list[1].atom+",stale="+c.list[1].list[2].atom, "verdict:"+obs)
	case "fsx":
		for _, t := range sxAtoms(c.list[2]) {
			labels = append(labels, "op:"+t)
		}
		for _, r := range strings.Split(strings.SplitN(obs, " ", 2)[0], ",") {
			labels = append(labels, "result:"+r)
		}
	}
	return labels, true
}

func bytesText(b []byte) string {
	if len(b) == 0 {
		return "empty"
	}
	var s []string
	for _, x := range b {
		s = append(s, strconv.Itoa(int(x)))
	}
	return strings.Join(s, ".")
}

func fileText(p string) string {
	b, err := os.ReadFile(p)
	if err != nil {
		if os.IsNotExist(err) {
			return "absent"
		}
		return "unreadable"
	}
	return bytesText(b)
}

func errnoText(err error) string {
	switch {
	case err == nil:
		return "ok"
	case errors.Is(err, syscall.ENOENT):
		return "ENOENT"
	case errors.Is(err, syscall.EEXIST):
		return "EEXIST"
	case errors.Is(err, syscall.EBADF), errors.Is(err, os.ErrClosed):
		return "EBADF"
	}
	return "EOTHER"
}

// runFsx executes raw system calls on a real directory, with the model's
// bookkeeping of one file descriptor and one directory descriptor.
func runFsx(old, stale int, toks []string) string {
	dir, err := os.MkdirTemp("", "verif-fsx-")
	if err != nil {
		return "MKDIR-FAILED"
	}
	defer os.RemoveAll(dir)
	path := filepath.Join(dir, "store")
	tmp := path + ".tmp"
	if old == 1 {
		os.WriteFile(path, []byte{1, 2}, 0666)
	}
	switch stale {
	case 1:
		os.WriteFile(tmp, []byte{99}, 0666)
	case 2:
		os.WriteFile(tmp, []byte{98, 97}, 0666)
	}
	name := func(s string) string {
		if s == "tmp" {
			return tmp
		}
		return path
	}
	var fd, dfd *os.File
	var res []string
	for _, t := range toks {
		parts := strings.Split(t, ":")
		var e error
		switch {
		case parts[0] == "unlink" && len(parts) == 2:
			e = syscall.Unlink(name(parts[1]))
		case (parts[0] == "openexcl" || parts[0] == "opentrunc") && len(parts) == 2:
			if fd != nil {
				res = append(res, "EOTHER")
				continue
			}
			fl := os.O_WRONLY | os.O_CREATE | os.O_EXCL
			if parts[0] == "opentrunc" {
				fl = os.O_WRONLY | os.O_CREATE | os.O_TRUNC
			}
			var f *os.File
			f, e = os.OpenFile(name(parts[1]), fl, 0666)
			if e == nil {
				fd = f
			}
		case t == "write":
			if fd == nil {
				e = syscall.EBADF
			} else {
				_, e = fd.Write([]byte{3, 4, 5})
			}
		case t == "fsync":
			if fd == nil {
				e = syscall.EBADF
			} else {
				e = fd.Sync()
			}
		case t == "close":
			if fd == nil {
				e = syscall.EBADF
			} else {
				e = fd.Close()
				fd = nil
			}
		case parts[0] == "rename" && len(parts) == 3:
			e = os.Rename(name(parts[1]), name(parts[2]))
		case t == "opendir":
			if dfd != nil {
				res = append(res, "EOTHER")
				continue
			}
			dfd, e = os.Open(dir)
		case t == "fsyncdir":
			if dfd == nil {
				e = syscall.EBADF
			} else {
				e = dfd.Sync()
			}
		case t == "closedir":
			if dfd == nil {
				e = syscall.EBADF
			} else {
				e = dfd.Close()
				dfd = nil
			}
		default:
			res = append(res, "EOTHER")
			continue
		}
		res = append(res, errnoText(e))
	}
	if fd != nil {
		fd.Close()
	}
	if dfd != nil {
		dfd.Close()
	}
	return strings.Join(res, ",") + " path=" + fileText(path) + " tmp=" + fileText(tmp)
}

// ---------------------------------------------------------------------------
// oracle: real SIGKILL during a commit loop

func loadGeneration(dir string) (gen int, present bool, err error) {
	cat, err := lungo.NewFileStore(fsStorePath(dir), 0666).Load()
	if err != nil {
		return 0, false, err
	}
	coll := cat.Namespaces[lungo.Handle{"db", "c"}]
	if coll == nil {
		return 0, false, nil
	}
	for _, d := range coll.Documents.List {
		m := map[string]interface{}{}
		for _, e := range *d {
			m[e.Key] = e.Value
		}
		if m["_id"] == "gen" {
			n, _ := m["n"].(int64)
			pad := []byte(nil)
			switch p := m["pad"].(type) {
			case []byte:
				pad = p
			default:
				if b, ok := bsonBinary(p); ok {
					pad = b
				}
			}
			if !bytes.Equal(pad, fsPayload(int(n))) {
				return int(n), true, fmt.Errorf("payload of generation %d is damaged (%d bytes)", n, len(pad))
			}
			return int(n), true, nil
		}
	}
	return 0, false, nil
}

func oracleKill(r *rng, n int, st *oracleStats) []oracleFailure {
	rounds := n / 2
	if rounds < 20 {
		rounds = 20
	}
	st.Rule = "a child process commits generations 1,2,3… (ReplaceOne upsert of {_id:gen, n:g, pad: 512B–68KiB}) through lungo.Open with a FileStore and acknowledges each returned commit on a pipe; the parent sends SIGKILL after a random delay (0–60 ms after start), then FileStore.Load in the parent must succeed (never torn) and show generation ∈ {last acknowledged, last acknowledged+1} with an intact payload; the next round starts from the file (and any stale temporary) the kill left behind; a round is non-trivial when the kill lands after the child reported its loaded generation, i.e. while the commit loop runs (fsync latency here is 5–50 ms, so most kills land inside the first commit of the round)"
	var fails []oracleFailure
	dir, err := os.MkdirTemp("", "verif-fs-kill-")
	if err != nil {
		return []oracleFailure{{Property: "C05", What: "infrastructure: cannot create directory"}}
	}
	defer os.RemoveAll(dir)
	prev := 0
	for i := 0; i < rounds && len(fails) < 5; i++ {
		cmd := exec.Command(selfExe(), "fs-child", "loop", dir)
		stdout, _ := cmd.StdoutPipe()
		if err := cmd.Start(); err != nil {
			fails = append(fails, oracleFailure{Property: "C05", What: "infrastructure: cannot start child"})
			break
		}
		var acked atomic.Int64
		var started atomic.Int64
		started.Store(-1)
		acked.Store(-1)
		loadErr := make(chan string, 1)
		done := make(chan struct{})
		go func() {
			defer close(done)
			sc := bufio.NewScanner(stdout)
			for sc.Scan() {
				f := strings.Fields(sc.Text())
				if len(f) < 2 {
					continue
				}
				switch f[0] {
				case "start":
					v, _ := strconv.Atoi(f[1])
					started.Store(int64(v))
				case "ack":
					v, _ := strconv.Atoi(f[1])
					acked.Store(int64(v))
				case "loaderr", "err":
					select {
					case loadErr <- sc.Text():
					default:
					}
				}
			}
		}()
		// wait for the start line (or an early kill one time in eight)
		deadline := time.Now().Add(5 * time.Second)
		early := r.intn(8) == 0
		for !early && started.Load() < 0 && time.Now().Before(deadline) {
			select {
			case msg := <-loadErr:
				fails = append(fails, oracleFailure{Property: "C05", What: "store file does not load after a kill (child)", Detail: map[string]interface{}{"round": i, "message": msg}})
				deadline = time.Now()
			default:
				time.Sleep(200 * time.Microsecond)
			}
		}
		delay := time.Duration(r.intn(60000)) * time.Microsecond
		if r.intn(4) == 0 {
			delay = time.Duration(r.intn(3000)) * time.Microsecond
		}
		time.Sleep(delay)
		_ = cmd.Process.Signal(syscall.SIGKILL)
		<-done
		_ = cmd.Wait()
		st.Evaluations++
		last := int(acked.Load())
		base := last
		if base < 0 {
			base = prev // nothing acknowledged in this round
		}
		_, tmpErr := os.Stat(fsStorePath(dir) + ".tmp")
		if tmpErr == nil {
			st.Dist["kill:temporary-left-behind"]++
		}
		g, present, err := loadGeneration(dir)
		switch {
		case err != nil:
			raw, _ := os.ReadFile(fsStorePath(dir))
			fails = append(fails, oracleFailure{Property: "C05", What: "store file is torn or unloadable after SIGKILL",
				Detail: map[string]interface{}{"round": i, "error": err.Error(), "file_bytes": len(raw), "last_acknowledged": base}})
		case !present && base > 0:
			fails = append(fails, oracleFailure{Property: "C05", What: "acknowledged commit lost after SIGKILL",
				Detail: map[string]interface{}{"round": i, "loaded": "no generation document", "last_acknowledged": base}})
		case present && (g < base || g > base+1):
			fails = append(fails, oracleFailure{Property: "C05", What: "loaded generation is neither the last acknowledged commit nor the one in flight",
				Detail: map[string]interface{}{"round": i, "loaded": g, "last_acknowledged": base}})
		}
		switch {
		case last > 0:
			st.Nontrivial++
			st.Dist["kill:after-acknowledged-commits-of-this-round"]++
		case started.Load() >= 0:
			st.Nontrivial++
			st.Dist["kill:during-first-commit-of-this-round"]++
		default:
			st.Dist["kill:during-startup-or-load"]++
		}
		if present && g == base+1 {
			st.Dist["kill:loaded-in-flight-generation"]++
		} else {
			st.Dist["kill:loaded-last-acknowledged"]++
		}
		if len(st.Samples) < 3 {
			st.Samples = append(st.Samples, fmt.Sprintf("round %d: delay %v, last ack %d, loaded %d", i, delay, base, g))
		}
		if os.Getenv("VERIF_FS_DEBUG") != "" {
			fmt.Fprintf(os.Stderr, "round %d early=%v started=%d delay=%v last=%d loaded=%d\n", i, early, started.Load(), delay, last, g)
		}
		if present {
			prev = g
		}
	}
	return fails
}

// ---------------------------------------------------------------------------
// oracle: a Store that fails

var errInjected = errors.New("injected store failure")

// guard runs f and returns the panic message, if any.
func guard(f func()) (msg string) {
	defer func() {
		if p := recover(); p != nil {
			msg = fmt.Sprint(p)
		}
	}()
	f()
	return ""
}

type flakyStore struct {
	inner lungo.Store
	mode  int // 0 ok, 1 fail before writing, 2 fail after writing
	calls int
}

func (s *flakyStore) Load() (*lungo.Catalog, error) { return s.inner.Load() }

func (s *flakyStore) Store(c *lungo.Catalog) error {
	s.calls++
	switch s.mode {
	case 1:
		return errInjected
	case 2:
		if err := s.inner.Store(c); err != nil {
			return err
		}
		return errInjected
	}
	return s.inner.Store(c)
}

func fsDumpCatalog(c *lungo.Catalog) string {
	var names []string
	for h := range c.Namespaces {
		if h == lungo.Oplog {
			continue // timestamps differ between the visible and the reloaded oplog only by encoding of none; compared separately by C06/C08
		}
		names = append(names, h.String())
	}
	sort.Strings(names)
	var sb strings.Builder
	for _, n := range names {
		for h, coll := range c.Namespaces {
			if h.String() != n {
				continue
			}
			sb.WriteString(n + "{")
			for _, d := range coll.Documents.List {
				sb.WriteString(enc(*d))
			}
			sb.WriteString("}")
		}
	}
	return sb.String()
}

// fsDumpFull: fsDumpCatalog plus the change log (local.oplog), event by event
func fsDumpFull(c *lungo.Catalog) string {
	var sb strings.Builder
	sb.WriteString(fsDumpCatalog(c))
	sb.WriteString("oplog{")
	if o := c.Namespaces[lungo.Oplog]; o != nil {
		for _, d := range o.Documents.List {
			sb.WriteString(enc(*d))
		}
	}
	sb.WriteString("}")
	return sb.String()
}

func oracleFailingStore(r *rng, n int, st *oracleStats) []oracleFailure {
	st.Rule = "histories of 4–10 writes (insert / update / delete / insert-many) on an engine created with lungo.CreateEngine(Options{Store: wrapper}); the wrapper around a real FileStore fails a random subset of Store calls before writing or after writing; after a failed commit: error reported, Engine.Catalog() is the same pointer with the same contents, a probe write within 2 s succeeds (token released, txn cleared); after the last successful commit the file reloads to the visible state; fail-after is the one place where visible (old) and durable (new) differ — counted as divergence:visible-old-durable-new; a history is non-trivial when at least one Store call failed"
	var fails []oracleFailure
	fail := func(what string, detail map[string]interface{}) {
		if len(fails) < 10 {
			fails = append(fails, oracleFailure{Property: "C05", What: what, Detail: detail})
		}
	}
	root, err := os.MkdirTemp("", "verif-fs-flaky-")
	if err != nil {
		return []oracleFailure{{Property: "C05", What: "infrastructure: cannot create directory"}}
	}
	defer os.RemoveAll(root)
	for it := 0; it < n && len(fails) < 6; it++ {
		dir := filepath.Join(root, strconv.Itoa(it))
		os.Mkdir(dir, 0777)
		fstore := lungo.NewFileStore(fsStorePath(dir), 0666)
		ws := &flakyStore{inner: fstore}
		if it%40 == 7 {
			// retention scenario: a commit that only creates an index / a collection trims the
			// change log (events older than the current second, tiny size limits) and then fails
			// in Store: the visible catalog, including local.oplog, must stay as it was
			st.Dist["retention-scenarios"]++
			engine, err := lungo.CreateEngine(lungo.Options{Store: ws, MinOplogSize: 1, MaxOplogSize: 2, MinOplogAge: time.Nanosecond, MaxOplogAge: time.Nanosecond})
			if err == nil {
				client := lungo.NewClient(engine)
				coll := client.Database("db").Collection("c")
				for k := 0; k < 5; k++ {
					coll.InsertOne(context.Background(), bson.D{{Key: "_id", Value: int32(k)}})
				}
				time.Sleep(1100 * time.Millisecond)
				before := engine.Catalog()
				beforeDump := fsDumpFull(before)
				ws.mode = 1 + r.intn(2)
				var opErr error
				if r.chance(1, 2) {
					_, opErr = coll.Indexes().CreateOne(context.Background(), mongo.IndexModel{Keys: bson.D{{Key: "v", Value: int32(1)}}})
				} else {
					opErr = client.Database("db").CreateCollection(context.Background(), "fresh")
				}
				detail := map[string]interface{}{"scenario": "index-or-collection creation commit trims the oplog, Store fails", "mode": ws.mode}
				if opErr == nil {
					fail("store error not reported by the commit", detail)
				}
				if fsDumpFull(engine.Catalog()) != beforeDump {
					fail("contents of Engine.Catalog() (incl. the change log) changed after a failed commit", detail)
				}
				// a successful commit that trims: the file holds exactly the visible state, change log included
				ws.mode = 0
				if _, err := coll.InsertOne(context.Background(), bson.D{{Key: "_id", Value: "after"}}); err == nil {
					if reloaded, err := fstore.Load(); err != nil {
						fail("store file unloadable after a trimming commit", detail)
					} else if fsDumpFull(reloaded) != fsDumpFull(engine.Catalog()) {
						fail("persisted state (incl. the change log) differs from the visible state after a commit that trimmed the change log", detail)
					}
					if o := engine.Catalog().Namespaces[lungo.Oplog]; o != nil && len(o.Documents.List) >= 6 {
						st.Dist["retention-scenario-did-not-trim"]++
					}
				}
				engine.Close()
			}
			continue
		}
		engine, err := lungo.CreateEngine(lungo.Options{Store: ws})
		if err != nil {
			fail("infrastructure: CreateEngine failed", map[string]interface{}{"error": err.Error()})
			continue
		}
		client := lungo.NewClient(engine)
		coll := client.Database("db").Collection("c")
		st.Evaluations++
		injected := 0
		var script []string
		steps := 4 + r.intn(7)
		for s := 0; s < steps; s++ {
			mode := 0
			switch r.intn(5) {
			case 0:
				mode = 1
			case 1:
				mode = 2
			}
			ws.mode = mode
			before := engine.Catalog()
			beforeDump := fsDumpFull(before)
			calls := ws.calls
			ctx, cancel := context.WithTimeout(context.Background(), 2*time.Second)
			id := int32(r.intn(6))
			var opErr error
			var op string
			kind := r.intn(4)
			panicked := guard(func() {
				switch kind {
				case 0:
					op = fmt.Sprintf("insert %d", id)
					_, opErr = coll.InsertOne(ctx, bson.D{{Key: "_id", Value: id}, {Key: "v", Value: int32(s)}})
				case 1:
					op = fmt.Sprintf("update %d", id)
					_, opErr = coll.UpdateOne(ctx, bson.D{{Key: "_id", Value: id}}, bson.D{{Key: "$set", Value: bson.D{{Key: "v", Value: int32(100 + s)}}}}, options.Update().SetUpsert(r.intn(2) == 0))
				case 2:
					op = fmt.Sprintf("delete %d", id)
					_, opErr = coll.DeleteOne(ctx, bson.D{{Key: "_id", Value: id}})
				default:
					op = fmt.Sprintf("insertmany %d %d", 10+s, 20+s)
					_, opErr = coll.InsertMany(ctx, []interface{}{bson.D{{Key: "_id", Value: int32(10 + s)}}, bson.D{{Key: "_id", Value: int32(20 + s)}}})
				}
			})
			cancel()
			script = append(script, fmt.Sprintf("%s/mode%d", op, mode))
			stored := ws.calls > calls
			detail := map[string]interface{}{"script": script, "step": s, "mode": mode}
			if panicked != "" {
				detail["panic"] = panicked
				fail("panic in a write whose commit ran (store ok or failing)", detail)
				break
			}
			if stored && mode != 0 {
				injected++
				st.Dist[fmt.Sprintf("store-failure:mode%d", mode)]++
				if opErr == nil {
					fail("store error not reported by the commit", detail)
				}
				if engine.Catalog() != before {
					fail("Engine.Catalog() replaced after a failed commit", detail)
				} else if fsDumpFull(engine.Catalog()) != beforeDump {
					fail("contents of Engine.Catalog() changed after a failed commit", detail)
				}
				if mode == 2 {
					// the file now holds the state being committed while the old one stays visible
					if reloaded, err := fstore.Load(); err == nil && fsDumpFull(reloaded) != beforeDump {
						st.Dist["divergence:visible-old-durable-new"]++
					}
				}
				// later commits work: probe write
				ws.mode = 0
				pctx, pcancel := context.WithTimeout(context.Background(), 2*time.Second)
				var perr error
				if pp := guard(func() {
					_, perr = coll.InsertOne(pctx, bson.D{{Key: "_id", Value: fmt.Sprintf("probe-%d", s)}})
				}); pp != "" {
					perr = fmt.Errorf("panic: %s", pp)
				}
				pcancel()
				if perr != nil {
					detail["probe_error"] = perr.Error()
					fail("write after a failed commit does not succeed", detail)
					break
				}
				reloaded, err := fstore.Load()
				if err != nil {
					fail("store file unloadable after a commit that followed a failed one", detail)
				} else if fsDumpFull(reloaded) != fsDumpFull(engine.Catalog()) {
					fail("persisted state differs from the visible state after a successful commit", detail)
				}
			} else if stored && opErr == nil {
				st.Dist["store-ok"]++
				if r.intn(3) == 0 {
					reloaded, err := fstore.Load()
					if err != nil {
						fail("store file unloadable after a successful commit", detail)
					} else if fsDumpFull(reloaded) != fsDumpFull(engine.Catalog()) {
						fail("persisted state differs from the visible state after a successful commit", detail)
					}
				}
			} else {
				st.Dist["no-store-call"]++
			}
		}
		if injected > 0 {
			st.Nontrivial++
		}
		if len(st.Samples) < 3 {
			st.Samples = append(st.Samples, strings.Join(script, "; "))
		}
		engine.Close()
	}
	return fails
}

// ---------------------------------------------------------------------------
// oracle: AtomicWriteFile under real failures

type failingReader struct {
	data []byte
	pos  int
	stop int
}

func (f *failingReader) Read(p []byte) (int, error) {
	if f.pos >= f.stop {
		return 0, errInjected
	}
	n := copy(p, f.data[f.pos:f.stop])
	f.pos += n
	return n, nil
}

func oracleAtomicFail(r *rng, n int, st *oracleStats) []oracleFailure {
	st.Rule = "dbkit.AtomicWriteFile on a real directory with the old file present or absent and a stale temporary present or absent: (a) reader fails after j bytes, (b) temporary is a non-empty directory (Remove fails), (c) parent directory missing (OpenFile fails), (d) success; after a failure the error is reported, the file holds exactly the old contents, no temporary is left (except b), and a following AtomicWriteFile succeeds; after success the file holds exactly the new contents and no temporary exists; non-trivial = a failure was injected"
	var fails []oracleFailure
	fail := func(what string, detail map[string]interface{}) {
		if len(fails) < 10 {
			fails = append(fails, oracleFailure{Property: "C05", What: what, Detail: detail})
		}
	}
	root, err := os.MkdirTemp("", "verif-fs-atomic-")
	if err != nil {
		return []oracleFailure{{Property: "C05", What: "infrastructure: cannot create directory"}}
	}
	defer os.RemoveAll(root)
	for it := 0; it < n && len(fails) < 6; it++ {
		dir := filepath.Join(root, strconv.Itoa(it))
		os.Mkdir(dir, 0777)
		path := filepath.Join(dir, "f")
		tmp := path + ".tmp"
		hasOld := r.intn(4) != 0
		old := []byte(fmt.Sprintf("old-%d-%s", it, strings.Repeat("o", r.intn(5000))))
		if hasOld {
			os.WriteFile(path, old, 0666)
		}
		stale := r.intn(2) == 0
		newData := []byte(fmt.Sprintf("new-%d-%s", it, strings.Repeat("n", r.intn(200000))))
		kind := r.intn(4)
		detail := map[string]interface{}{"kind": kind, "has_old": hasOld, "stale": stale, "new_len": len(newData)}
		st.Evaluations++
		checkOld := func() {
			b, err := os.ReadFile(path)
			if hasOld {
				if err != nil || !bytes.Equal(b, old) {
					fail("file does not hold the old contents after a failed AtomicWriteFile", detail)
				}
			} else if !os.IsNotExist(err) {
				fail("file appeared after a failed AtomicWriteFile", detail)
			}
		}
		switch kind {
		case 0: // reader fails
			if stale {
				os.WriteFile(tmp, []byte("stale"), 0666)
			}
			j := r.intn(len(newData))
			detail["fail_after_bytes"] = j
			err := dbkit.AtomicWriteFile(path, &failingReader{data: newData, stop: j}, 0666)
			st.Nontrivial++
			st.Dist["fail:reader"]++
			if err == nil {
				fail("AtomicWriteFile reports success although the reader failed", detail)
			}
			checkOld()
			if _, err := os.Stat(tmp); err == nil {
				fail("temporary left behind after a failed AtomicWriteFile", detail)
			}
		case 1: // temporary cannot be removed
			os.Mkdir(tmp, 0777)
			os.WriteFile(filepath.Join(tmp, "x"), nil, 0666)
			err := dbkit.AtomicWriteFile(path, bytes.NewReader(newData), 0666)
			st.Nontrivial++
			st.Dist["fail:remove-temporary"]++
			if err == nil {
				fail("AtomicWriteFile reports success although the temporary could not be removed", detail)
			}
			checkOld()
			os.RemoveAll(tmp)
		case 2: // directory missing
			missing := filepath.Join(dir, "nodir", "f")
			err := dbkit.AtomicWriteFile(missing, bytes.NewReader(newData), 0666)
			st.Nontrivial++
			st.Dist["fail:open-temporary"]++
			if err == nil {
				fail("AtomicWriteFile reports success in a missing directory", detail)
			}
			checkOld()
		default:
			if stale {
				os.WriteFile(tmp, []byte("stale"), 0666)
			}
			st.Dist["success"]++
		}
		// a following write succeeds and is exact
		if err := dbkit.AtomicWriteFile(path, bytes.NewReader(newData), 0666); err != nil {
			detail["error"] = err.Error()
			fail("AtomicWriteFile does not succeed after a failed one", detail)
			continue
		}
		if b, err := os.ReadFile(path); err != nil || !bytes.Equal(b, newData) {
			fail("file does not hold the new contents after AtomicWriteFile returned nil", detail)
		}
		if _, err := os.Stat(tmp); err == nil {
			fail("temporary left behind after a successful AtomicWriteFile", detail)
		}
		if len(st.Samples) < 3 {
			st.Samples = append(st.Samples, fmt.Sprintf("%v", detail))
		}
	}
	return fails
}

func bsonBinary(v interface{}) ([]byte, bool) {
	if b, ok := v.(primitive.Binary); ok {
		return b.Data, true
	}
	return nil, false
}

var _ = io.EOF
