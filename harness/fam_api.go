package main

// fam_api.go — family `api`: histories of driver API calls executed one at a
// time against a real in-memory lungo engine.  After every call the reply, the
// committed state of the target namespace (documents + index entries, through
// engine.Catalog()) and the new change events are printed canonically; the
// Coq model (Model/Driver.v via Model/RunApi.v) must print the same text.

import (
	"context"
	"errors"
	"fmt"
	"sort"
	"strconv"
	"strings"
	"time"

	"go.mongodb.org/mongo-driver/bson"
	"go.mongodb.org/mongo-driver/bson/primitive"
	"go.mongodb.org/mongo-driver/mongo"
	"go.mongodb.org/mongo-driver/mongo/options"

	"github.com/256dpi/lungo"
	"github.com/256dpi/lungo/bsonkit"
	"github.com/256dpi/lungo/mongokit"
)

// ---------------------------------------------------------------------------
// canonicalisation

// oidCanon renames generated ObjectIDs (everything not starting with a zero
// byte or 0xff) to "gen"+k where k is the rank of the generation: ObjectIDs
// of one process carry a counter that primitive.NewObjectID() increments on
// every call, so k = counter - counter of a probe taken when the history
// started.  Every generation counts, also those of calls that fail later.
type oidCanon struct {
	base     int
	dateBase int64 // dates are printed relative to this (family ttl), 0 = absolute
}

func newOidCanon() *oidCanon {
	p := primitive.NewObjectID()
	return &oidCanon{base: int(p[9])<<16 | int(p[10])<<8 | int(p[11])}
}

func isUserOid(o primitive.ObjectID) bool { return o[0] == 0 || o[0] == 0xff }

func (c *oidCanon) oid(o primitive.ObjectID) primitive.ObjectID {
	if isUserOid(o) || c.base < 0 {
		return o
	}
	n := ((int(o[9])<<16 | int(o[10])<<8 | int(o[11])) - c.base) & 0xffffff
	var r primitive.ObjectID
	copy(r[:], "gen")
	r[9] = byte(n >> 16)
	r[10] = byte(n >> 8)
	r[11] = byte(n)
	return r
}

func (c *oidCanon) value(v interface{}) interface{} {
	switch x := v.(type) {
	case primitive.ObjectID:
		return c.oid(x)
	case primitive.DateTime:
		return primitive.DateTime(int64(x) - c.dateBase)
	case bson.D:
		out := make(bson.D, len(x))
		for i, e := range x {
			out[i] = bson.E{Key: e.Key, Value: c.value(e.Value)}
		}
		return out
	case bson.A:
		out := make(bson.A, len(x))
		for i, e := range x {
			out[i] = c.value(e)
		}
		return out
	}
	return v
}

func (c *oidCanon) enc(v interface{}) string { return enc(c.value(v)) }

// ---------------------------------------------------------------------------
// state dumps through engine.Catalog()

func dumpColl(cn *oidCanon, coll *mongokit.Collection) string {
	var sb strings.Builder
	sb.WriteString("((")
	pos := map[bsonkit.Doc]int{}
	for i, d := range coll.Documents.List {
		if i > 0 {
			sb.WriteString(" ")
		}
		sb.WriteString(cn.enc(*d))
		pos[d] = i
	}
	sb.WriteString(") (")
	names := make([]string, 0, len(coll.Indexes))
	for n := range coll.Indexes {
		names = append(names, n)
	}
	sort.Strings(names)
	for i, n := range names {
		if i > 0 {
			sb.WriteString(" ")
		}
		type pe struct {
			p int
			s string
		}
		var es []pe
		for _, e := range coll.Indexes[n].VerifBase().VerifEntries() {
			var ks []string
			for _, k := range e.Keys {
				ks = append(ks, cn.enc(k))
			}
			p, ok := pos[e.Doc]
			if !ok {
				p = -1
			}
			es = append(es, pe{p, "(" + strings.Join(ks, " ") + ")"})
		}
		sort.SliceStable(es, func(i, j int) bool {
			if es[i].p != es[j].p {
				return es[i].p < es[j].p
			}
			return es[i].s < es[j].s
		})
		sb.WriteString("(" + hx(n))
		for _, e := range es {
			sb.WriteString(" (" + strconv.Itoa(e.p) + " " + e.s + ")")
		}
		sb.WriteString(")")
	}
	sb.WriteString("))")
	return sb.String()
}

func dumpNS(cn *oidCanon, cat *lungo.Catalog, h lungo.Handle) string {
	c := cat.Namespaces[h]
	if c == nil {
		return "ABSENT"
	}
	return dumpColl(cn, c)
}

// stripEvent drops the clock fields and sorts removedFields.
func stripEvent(cn *oidCanon, d bson.D) bson.D {
	var out bson.D
	for _, e := range d {
		switch e.Key {
		case "_id", "clusterTime", "wallTime":
			continue
		case "updateDescription":
			ud := e.Value.(bson.D)
			nd := make(bson.D, len(ud))
			copy(nd, ud)
			for i, f := range nd {
				if f.Key == "removedFields" {
					arr := append(bson.A{}, f.Value.(bson.A)...)
					sort.Slice(arr, func(a, b int) bool { return arr[a].(string) < arr[b].(string) })
					nd[i].Value = arr
				}
			}
			out = append(out, bson.E{Key: e.Key, Value: nd})
			continue
		}
		out = append(out, e)
	}
	return cn.value(out).(bson.D)
}

func canonEvents(cn *oidCanon, evs []bsonkit.Doc) string {
	var out []string
	var drops []string
	var dels []bsonkit.Doc
	flushDrops := func() {
		sort.Strings(drops)
		out = append(out, drops...)
		drops = nil
	}
	// the delete events of one Expire pass come namespace by namespace in map
	// order: runs of consecutive delete events are grouped by namespace (stable)
	flushDels := func() {
		sort.SliceStable(dels, func(i, j int) bool {
			return enc(bsonkit.Get(dels[i], "ns")) < enc(bsonkit.Get(dels[j], "ns"))
		})
		for _, d := range dels {
			out = append(out, enc(stripEvent(cn, *d)))
		}
		dels = nil
	}
	for i, e := range evs {
		switch bsonkit.Get(e, "operationType") {
		case "drop":
			flushDels()
			// the drop events of a dropDatabase come in map order and a later
			// retention pass may cut the run: collection names of a drop run
			// that ends in its dropDatabase event are not compared
			j := i
			for j < len(evs) && bsonkit.Get(evs[j], "operationType") == "drop" {
				j++
			}
			se := stripEvent(cn, *e)
			if j < len(evs) && bsonkit.Get(evs[j], "operationType") == "dropDatabase" {
				for k, f := range se {
					if ns, ok := f.Value.(bson.D); ok && f.Key == "ns" {
						nn := make(bson.D, len(ns))
						copy(nn, ns)
						for m := range nn {
							if nn[m].Key == "coll" {
								nn[m].Value = "*"
							}
						}
						se[k].Value = nn
					}
				}
			}
			drops = append(drops, enc(se))
		case "delete":
			flushDrops()
			dels = append(dels, e)
		default:
			flushDrops()
			flushDels()
			out = append(out, enc(stripEvent(cn, *e)))
		}
	}
	flushDrops()
	flushDels()
	return "(" + strings.Join(out, " ") + ")"
}

func dumpCatalog(cn *oidCanon, cat *lungo.Catalog) string {
	hs := make([]lungo.Handle, 0, len(cat.Namespaces))
	for h := range cat.Namespaces {
		hs = append(hs, h)
	}
	sort.Slice(hs, func(i, j int) bool {
		if hs[i][0] != hs[j][0] {
			return hs[i][0] < hs[j][0]
		}
		return hs[i][1] < hs[j][1]
	})
	var parts []string
	for _, h := range hs {
		var body string
		if h == lungo.Oplog {
			body = canonEvents(cn, cat.Namespaces[h].Documents.List)
		} else {
			body = dumpColl(cn, cat.Namespaces[h])
		}
		parts = append(parts, "("+hx(h[0])+" "+hx(h[1])+" "+body+")")
	}
	return "(" + strings.Join(parts, " ") + ")"
}

// ---------------------------------------------------------------------------
// executing a history

type apiRun struct {
	client   lungo.IClient
	engine   *lungo.Engine
	cn       *oidCanon
	sessions map[int64]lungo.ISession
	lastTs   primitive.Timestamp
	txnOpen  bool  // a session transaction is open (it holds the writer token)
	txnSid   int64 // ... and this is its session
}

func errClass(err error) string {
	if lungo.IsUniquenessError(err) {
		return "DUP"
	}
	return "ERR"
}

func (a *apiRun) ctx(sid int64) (context.Context, context.CancelFunc) {
	// a short deadline turns "would block on the writer token" into an error;
	// it is only needed (and only used) while a session transaction holds the
	// token: without one nothing blocks, and a short deadline would turn a slow
	// call on a loaded machine into a spurious error
	d := 60 * time.Second
	if a.txnOpen {
		d = 30 * time.Millisecond // only calls that must wait for the token consult it: they fail either way
	}
	base, cancel := context.WithTimeout(context.Background(), d)
	if sid > 0 {
		if s, ok := a.sessions[sid]; ok {
			return lungo.VerifSessionContext(base, s.(*lungo.Session)), cancel
		}
	}
	return base, cancel
}

func optDoc(n *sx) interface{} {
	if !n.isL && n.atom == "NIL" {
		return nil
	}
	return decValue(n).(bson.D)
}

func docsOf(n *sx) []interface{} {
	var out []interface{}
	for _, e := range n.list {
		out = append(out, decValue(e).(bson.D))
	}
	return out
}

func (a *apiRun) coll(c *sx) (lungo.ICollection, lungo.Handle) {
	db, co := unhx(c.list[2].atom), unhx(c.list[3].atom)
	return a.client.Database(db).Collection(co), lungo.Handle{db, co}
}

func (a *apiRun) single(res lungo.ISingleResult) string {
	var d bson.D
	err := res.Decode(&d)
	if errors.Is(err, lungo.ErrNoDocuments) {
		return "NODOC"
	} else if err != nil {
		return errClass(err)
	}
	return "(doc " + a.cn.enc(normalize(d)) + ")"
}

// normalize converts decoder output (primitive.D / primitive.A) to bson.D / bson.A.
func normalize(v interface{}) interface{} {
	switch x := v.(type) {
	case bson.D:
		out := make(bson.D, len(x))
		for i, e := range x {
			out[i] = bson.E{Key: e.Key, Value: normalize(e.Value)}
		}
		return out
	case bson.A:
		out := make(bson.A, len(x))
		for i, e := range x {
			out[i] = normalize(e)
		}
		return out
	}
	return v
}

func updRes(cn *oidCanon, r *mongo.UpdateResult, err error) string {
	if err != nil {
		return errClass(err)
	}
	return fmt.Sprintf("(upd %d %d %d %s)", r.MatchedCount, r.ModifiedCount, r.UpsertedCount, cn.enc(normalize(r.UpsertedID)))
}

func afOpt(n *sx) options.ArrayFilters { return options.ArrayFilters{Filters: docsOf(n)} }

// call executes one call and returns (reply text, target handle or nil)
func (a *apiRun) call(c *sx) (string, *lungo.Handle) {
	op := c.list[0].atom
	var sid int64
	if len(c.list) > 1 && !c.list[1].isL {
		sid, _ = strconv.ParseInt(c.list[1].atom, 10, 64)
	}
	ctx, cancel := a.ctx(sid)
	defer cancel()
	tb := func(n *sx) bool { return n.atom == "T" }
	switch op {
	case "insertOne":
		co, h := a.coll(c)
		r, err := co.InsertOne(ctx, decValue(c.list[4]))
		if err != nil {
			return errClass(err), &h
		}
		return "(id " + a.cn.enc(normalize(r.InsertedID)) + ")", &h
	case "insertMany":
		co, h := a.coll(c)
		var docs []interface{}
		for _, d := range c.list[5:] {
			docs = append(docs, decValue(d))
		}
		r, err := co.InsertMany(ctx, docs, options.InsertMany().SetOrdered(tb(c.list[4])))
		if r == nil {
			return errClass(err), &h
		}
		var ids []string
		for _, id := range r.InsertedIDs {
			ids = append(ids, a.cn.enc(normalize(id)))
		}
		st := "OK"
		if err != nil {
			st = errClass(err)
		}
		return "(many (" + strings.Join(ids, " ") + ") " + st + ")", &h
	case "find":
		co, h := a.coll(c)
		o := options.Find().SetSkip(atoi64(c.list[7].atom)).SetLimit(atoi64(c.list[8].atom))
		if s := optDoc(c.list[5]); s != nil {
			o.SetSort(s)
		}
		if p := optDoc(c.list[6]); p != nil {
			o.SetProjection(p)
		}
		cur, err := co.Find(ctx, decValue(c.list[4]), o)
		if err != nil {
			return errClass(err), &h
		}
		var out []bson.D
		if err := cur.All(ctx, &out); err != nil {
			return errClass(err), &h
		}
		parts := []string{"docs"}
		for _, d := range out {
			parts = append(parts, a.cn.enc(normalize(d)))
		}
		return "(" + strings.Join(parts, " ") + ")", &h
	case "findOne":
		co, h := a.coll(c)
		o := options.FindOne().SetSkip(atoi64(c.list[7].atom))
		if s := optDoc(c.list[5]); s != nil {
			o.SetSort(s)
		}
		if p := optDoc(c.list[6]); p != nil {
			o.SetProjection(p)
		}
		return a.single(co.FindOne(ctx, decValue(c.list[4]), o)), &h
	case "count":
		co, h := a.coll(c)
		o := options.Count().SetSkip(atoi64(c.list[5].atom))
		if l := atoi64(c.list[6].atom); l != 0 {
			o.SetLimit(l)
		}
		n, err := co.CountDocuments(ctx, decValue(c.list[4]), o)
		if err != nil {
			return errClass(err), &h
		}
		return fmt.Sprintf("(n %d)", n), &h
	case "estCount":
		co, h := a.coll(c)
		n, err := co.EstimatedDocumentCount(ctx)
		if err != nil {
			return errClass(err), &h
		}
		return fmt.Sprintf("(n %d)", n), &h
	case "updateById":
		co, h := a.coll(c)
		o := options.Update().SetUpsert(tb(c.list[6]))
		if len(c.list[7].list) > 0 {
			o.SetArrayFilters(afOpt(c.list[7]))
		}
		r, err := co.UpdateByID(ctx, decValue(c.list[4]), decValue(c.list[5]), o)
		return updRes(a.cn, r, err), &h
	case "distinct":
		co, h := a.coll(c)
		vs, err := co.Distinct(ctx, unhx(c.list[4].atom), decValue(c.list[5]))
		if err != nil {
			return errClass(err), &h
		}
		parts := []string{"vals"}
		for _, v := range vs {
			parts = append(parts, a.cn.enc(normalize(v)))
		}
		return "(" + strings.Join(parts, " ") + ")", &h
	case "update":
		co, h := a.coll(c)
		o := options.Update().SetUpsert(tb(c.list[7]))
		if len(c.list[8].list) > 0 {
			o.SetArrayFilters(afOpt(c.list[8]))
		}
		var r *mongo.UpdateResult
		var err error
		if c.list[4].atom == "many" {
			r, err = co.UpdateMany(ctx, decValue(c.list[5]), decValue(c.list[6]), o)
		} else {
			r, err = co.UpdateOne(ctx, decValue(c.list[5]), decValue(c.list[6]), o)
		}
		return updRes(a.cn, r, err), &h
	case "replace":
		co, h := a.coll(c)
		r, err := co.ReplaceOne(ctx, decValue(c.list[4]), decValue(c.list[5]), options.Replace().SetUpsert(tb(c.list[6])))
		return updRes(a.cn, r, err), &h
	case "delete":
		co, h := a.coll(c)
		var r *mongo.DeleteResult
		var err error
		if c.list[4].atom == "many" {
			r, err = co.DeleteMany(ctx, decValue(c.list[5]))
		} else {
			r, err = co.DeleteOne(ctx, decValue(c.list[5]))
		}
		if err != nil {
			return errClass(err), &h
		}
		return fmt.Sprintf("(del %d)", r.DeletedCount), &h
	case "fau":
		co, h := a.coll(c)
		o := options.FindOneAndUpdate().SetUpsert(tb(c.list[8]))
		if tb(c.list[9]) {
			o.SetReturnDocument(options.After)
		}
		if s := optDoc(c.list[6]); s != nil {
			o.SetSort(s)
		}
		if p := optDoc(c.list[7]); p != nil {
			o.SetProjection(p)
		}
		if len(c.list[10].list) > 0 {
			o.SetArrayFilters(afOpt(c.list[10]))
		}
		return a.single(co.FindOneAndUpdate(ctx, decValue(c.list[4]), decValue(c.list[5]), o)), &h
	case "far":
		co, h := a.coll(c)
		o := options.FindOneAndReplace().SetUpsert(tb(c.list[8]))
		if tb(c.list[9]) {
			o.SetReturnDocument(options.After)
		}
		if s := optDoc(c.list[6]); s != nil {
			o.SetSort(s)
		}
		if p := optDoc(c.list[7]); p != nil {
			o.SetProjection(p)
		}
		return a.single(co.FindOneAndReplace(ctx, decValue(c.list[4]), decValue(c.list[5]), o)), &h
	case "fad":
		co, h := a.coll(c)
		o := options.FindOneAndDelete()
		if s := optDoc(c.list[5]); s != nil {
			o.SetSort(s)
		}
		if p := optDoc(c.list[6]); p != nil {
			o.SetProjection(p)
		}
		return a.single(co.FindOneAndDelete(ctx, decValue(c.list[4]), o)), &h
	case "bulk":
		co, h := a.coll(c)
		var models []mongo.WriteModel
		for _, m := range c.list[5].list {
			switch m.list[0].atom {
			case "ins":
				models = append(models, mongo.NewInsertOneModel().SetDocument(decValue(m.list[1])))
			case "rep":
				models = append(models, mongo.NewReplaceOneModel().SetFilter(decValue(m.list[1])).SetReplacement(decValue(m.list[2])).SetUpsert(tb(m.list[3])))
			case "upd":
				if m.list[1].atom == "many" {
					mm := mongo.NewUpdateManyModel().SetFilter(decValue(m.list[2])).SetUpdate(decValue(m.list[3])).SetUpsert(tb(m.list[4]))
					if len(m.list[5].list) > 0 {
						mm.SetArrayFilters(afOpt(m.list[5]))
					}
					models = append(models, mm)
				} else {
					mm := mongo.NewUpdateOneModel().SetFilter(decValue(m.list[2])).SetUpdate(decValue(m.list[3])).SetUpsert(tb(m.list[4]))
					if len(m.list[5].list) > 0 {
						mm.SetArrayFilters(afOpt(m.list[5]))
					}
					models = append(models, mm)
				}
			case "del":
				if m.list[1].atom == "many" {
					models = append(models, mongo.NewDeleteManyModel().SetFilter(decValue(m.list[2])))
				} else {
					models = append(models, mongo.NewDeleteOneModel().SetFilter(decValue(m.list[2])))
				}
			}
		}
		r, err := co.BulkWrite(ctx, models, options.BulkWrite().SetOrdered(tb(c.list[4])))
		if r == nil {
			return errClass(err), &h
		}
		var idx []int64
		for i := range r.UpsertedIDs {
			idx = append(idx, i)
		}
		sort.Slice(idx, func(i, j int) bool { return idx[i] < idx[j] })
		var us []string
		for _, i := range idx {
			us = append(us, fmt.Sprintf("(%d %s)", i, a.cn.enc(normalize(r.UpsertedIDs[i]))))
		}
		var es []string
		var we mongo.WriteErrors
		if errors.As(err, &we) {
			for _, w := range we {
				es = append(es, fmt.Sprintf("(%d %s)", w.Index, errClass(errors.New(w.Message))))
			}
		} else if err != nil {
			return errClass(err), &h
		}
		return fmt.Sprintf("(bulk %d %d %d %d %d (%s) (%s))", r.InsertedCount, r.MatchedCount, r.ModifiedCount, r.DeletedCount, r.UpsertedCount,
			strings.Join(us, " "), strings.Join(es, " ")), &h
	case "createIndex":
		co, h := a.coll(c)
		io := options.Index()
		if n := unhx(c.list[4].atom); n != "" {
			io.SetName(n)
		}
		if tb(c.list[6]) {
			io.SetUnique(true)
		}
		if p := optDoc(c.list[7]); p != nil {
			io.SetPartialFilterExpression(p)
		}
		if c.list[8].atom != "NIL" {
			io.SetExpireAfterSeconds(int32(atoi64(c.list[8].atom)))
		}
		name, err := co.Indexes().CreateOne(ctx, mongo.IndexModel{Keys: decValue(c.list[5]), Options: io})
		if err != nil {
			return errClass(err), &h
		}
		return "(name " + hx(name) + ")", &h
	case "dropIndex":
		co, h := a.coll(c)
		_, err := co.Indexes().DropOne(ctx, unhx(c.list[4].atom))
		if err != nil {
			return errClass(err), &h
		}
		return "OK", &h
	case "dropIndexKey":
		co, h := a.coll(c)
		_, err := co.Indexes().DropOneWithKey(ctx, decValue(c.list[4]))
		if err != nil {
			return errClass(err), &h
		}
		return "OK", &h
	case "dropAllIndexes":
		co, h := a.coll(c)
		_, err := co.Indexes().DropAll(ctx)
		if err != nil {
			return errClass(err), &h
		}
		return "OK", &h
	case "listIndexes":
		co, h := a.coll(c)
		cur, err := co.Indexes().List(ctx)
		if err != nil {
			return errClass(err), &h
		}
		var out []bson.D
		if err := cur.All(ctx, &out); err != nil {
			return errClass(err), &h
		}
		parts := []string{"docs"}
		for _, d := range out {
			parts = append(parts, a.cn.enc(normalize(d)))
		}
		return "(" + strings.Join(parts, " ") + ")", &h
	case "createColl":
		db, co := unhx(c.list[2].atom), unhx(c.list[3].atom)
		h := lungo.Handle{db, co}
		if err := a.client.Database(db).CreateCollection(ctx, co); err != nil {
			return errClass(err), &h
		}
		return "OK", &h
	case "listColls":
		// ListCollections (the specification documents) and ListCollectionNames (their names)
		db := a.client.Database(unhx(c.list[2].atom))
		flt := decValue(c.list[3])
		cur, err := db.ListCollections(ctx, flt)
		names, err2 := db.ListCollectionNames(ctx, flt)
		if (err == nil) != (err2 == nil) {
			return "LISTING-GLUE-MISMATCH", nil
		}
		if err != nil {
			return errClass(err), nil
		}
		var out []bson.D
		if err := cur.All(ctx, &out); err != nil {
			return errClass(err), nil
		}
		if len(out) != len(names) {
			return "LISTING-GLUE-MISMATCH", nil
		}
		parts := []string{"docs"}
		for i, d := range out {
			if n, _ := d.Map()["name"].(string); n != names[i] {
				return "LISTING-GLUE-MISMATCH", nil
			}
			parts = append(parts, a.cn.enc(normalize(d)))
		}
		return "(" + strings.Join(parts, " ") + ")", nil
	case "listDbs":
		flt := decValue(c.list[2])
		res, err := a.client.ListDatabases(ctx, flt)
		names, err2 := a.client.ListDatabaseNames(ctx, flt)
		if (err == nil) != (err2 == nil) {
			return "LISTING-GLUE-MISMATCH", nil
		}
		if err != nil {
			return errClass(err), nil
		}
		if len(res.Databases) != len(names) || res.TotalSize != 0 {
			return "LISTING-GLUE-MISMATCH", nil
		}
		parts := []string{"docs"}
		for i, d := range res.Databases {
			if d.Name != names[i] {
				return "LISTING-GLUE-MISMATCH", nil
			}
			parts = append(parts, enc(bson.D{{Key: "name", Value: d.Name}, {Key: "sizeOnDisk", Value: d.SizeOnDisk}, {Key: "empty", Value: d.Empty}}))
		}
		return "(" + strings.Join(parts, " ") + ")", nil
	case "createMany":
		co, h := a.coll(c)
		var models []mongo.IndexModel
		for _, sp := range c.list[4:] {
			io := options.Index()
			if n := unhx(sp.list[0].atom); n != "" {
				io.SetName(n)
			}
			if tb(sp.list[2]) {
				io.SetUnique(true)
			}
			if p := optDoc(sp.list[3]); p != nil {
				io.SetPartialFilterExpression(p)
			}
			if sp.list[4].atom != "NIL" {
				io.SetExpireAfterSeconds(int32(atoi64(sp.list[4].atom)))
			}
			models = append(models, mongo.IndexModel{Keys: decValue(sp.list[1]), Options: io})
		}
		names, err := co.Indexes().CreateMany(ctx, models)
		hn := make([]string, len(names))
		for i, n := range names {
			hn[i] = hx(n)
		}
		st := "OK"
		if err != nil {
			st = errClass(err)
		}
		return "(names (" + strings.Join(hn, " ") + ") " + st + ")", &h
	case "dropColl":
		co, h := a.coll(c)
		if err := co.Drop(ctx); err != nil {
			return errClass(err), &h
		}
		return "OK", &h
	case "dropDb":
		if err := a.client.Database(unhx(c.list[2].atom)).Drop(ctx); err != nil {
			return errClass(err), nil
		}
		return "OK", nil
	case "start":
		s, ok := a.sessions[sid]
		if !ok {
			s, _ = a.client.StartSession()
			a.sessions[sid] = s
		}
		// the generator starts a transaction only while no other is open, so
		// the token is free and StartTransaction does not wait
		if err := s.StartTransaction(); err != nil {
			return "ERR", nil
		}
		a.txnOpen, a.txnSid = true, sid
		return "OK", nil
	case "commit":
		s, ok := a.sessions[sid]
		if !ok {
			s, _ = a.client.StartSession()
			a.sessions[sid] = s
		}
		if err := s.CommitTransaction(ctx); err != nil {
			return "ERR", nil
		}
		if sid == a.txnSid {
			a.txnOpen = false
		}
		return "OK", nil
	case "abort":
		s, ok := a.sessions[sid]
		if !ok {
			s, _ = a.client.StartSession()
			a.sessions[sid] = s
		}
		if err := s.AbortTransaction(ctx); err != nil {
			return "ERR", nil
		}
		if sid == a.txnSid {
			a.txnOpen = false
		}
		return "OK", nil
	case "end":
		s, ok := a.sessions[sid]
		if !ok {
			s, _ = a.client.StartSession()
			a.sessions[sid] = s
		}
		s.EndSession(ctx)
		if sid == a.txnSid {
			a.txnOpen = false
		}
		return "OK", nil
	case "expire":
		txn, err := a.engine.Begin(ctx, true)
		if err != nil {
			return "ERR", nil
		}
		if err := txn.Expire(); err != nil {
			a.engine.Abort(txn)
			return "ERR", nil
		}
		if err := a.engine.Commit(txn); err != nil {
			a.engine.Abort(txn)
			return "ERR", nil
		}
		return "OK", nil
	case "trim":
		k, _ := strconv.Atoi(c.list[1].atom)
		txn, err := a.engine.Begin(ctx, true)
		if err != nil {
			return "ERR", nil
		}
		before := len(txn.Catalog().Namespaces[lungo.Oplog].Documents.List)
		txn.Clean(k, 0, 0, 0)
		after := len(txn.Catalog().Namespaces[lungo.Oplog].Documents.List)
		if err := a.engine.Commit(txn); err != nil {
			a.engine.Abort(txn)
			return "ERR", nil
		}
		return fmt.Sprintf("(n %d)", before-after), nil
	}
	return "BAD-CALL", nil
}

// shiftDates rewrites every (t ms) node of a parsed case to (t ms+delta).
func shiftDates(n *sx, delta int64) {
	if !n.isL {
		return
	}
	if len(n.list) == 2 && !n.list[0].isL && n.list[0].atom == "t" && !n.list[1].isL {
		n.list[1].atom = strconv.FormatInt(atoi64(n.list[1].atom)+delta, 10)
		return
	}
	for _, c := range n.list {
		shiftDates(c, delta)
	}
}

func runAPI(c *sx) string {
	opts := lungo.Options{Store: lungo.NewMemoryStore(), ExpireInterval: time.Hour}
	client, engine, err := lungo.Open(nil, opts)
	if err != nil {
		return "OPEN-ERR"
	}
	defer engine.Close()
	a := &apiRun{client: client, engine: engine, cn: newOidCanon(), sessions: map[int64]lungo.ISession{}}
	if c.list[0].atom == "apirel" {
		// family ttl: every date of the case is an offset from the moment the history starts
		a.cn.dateBase = time.Now().UnixMilli()
		shiftDates(c, a.cn.dateBase)
	}
	var lines []string
	for _, call := range c.list[2:] {
		oplogBefore := engine.Catalog().Namespaces[lungo.Oplog].Documents.List
		var lastBefore bsonkit.Doc
		if len(oplogBefore) > 0 {
			lastBefore = oplogBefore[len(oplogBefore)-1]
		}
		reply, h := a.call(call)
		cat := engine.Catalog()
		oplogAfter := cat.Namespaces[lungo.Oplog].Documents.List
		// events appended since: those after lastBefore (by timestamp)
		var evs []bsonkit.Doc
		for _, e := range oplogAfter {
			if lastBefore == nil || bsonkit.Compare(bsonkit.Get(e, "clusterTime"), bsonkit.Get(lastBefore, "clusterTime")) > 0 {
				evs = append(evs, e)
			}
		}
		trimmed := len(oplogBefore) + len(evs) - len(oplogAfter)

		ns := "-"
		if h != nil {
			ns = dumpNS(a.cn, cat, *h)
		}
		lines = append(lines, reply+" "+ns+" "+canonEvents(a.cn, evs)+" "+strconv.Itoa(trimmed))
	}
	lines = append(lines, "FINAL "+dumpCatalog(a.cn, engine.Catalog()))
	return strings.Join(lines, " ;; ")
}

// ---------------------------------------------------------------------------
// generation

var apiDbs = []string{"db", "db2"}
var apiColls = []string{"c", "d"}

type apiGen struct {
	knownIDs   []interface{} // ids handed to earlier inserts (so later filters hit)
	knownNames []string      // index names created earlier
	r          *rng
	openSess   int64 // session with an open transaction, 0 if none
	nextSess   int64
	full       bool   // full operator grammar for everything (model-free oracles)
	fullF      bool   // full filter grammar (Model/Match.v is merged)
	fullU      bool   // full update grammar (after Model/Apply.v is merged)
	fullP      bool   // projections (after Model/Project.v is merged)
	uniqField  string // field of the unique index the history starts with ("" if none)
	grid       bool   // the history starts with a unique COMPOUND index on a and b: keys from a 3x3 grid
}

func (g *apiGen) id() interface{} {
	r := g.r
	switch r.intn(6) {
	case 0:
		return int32(r.intn(5) + 1)
	case 1:
		return int64(r.intn(5) + 1)
	case 2:
		return float64(r.intn(5) + 1)
	case 3:
		return pick(r, []string{"a", "b", "c"})
	case 4:
		return pick(r, poolOids)
	default:
		return int32(r.intn(5) + 1)
	}
}

func (g *apiGen) scalar() interface{} {
	r := g.r
	switch r.intn(8) {
	case 0:
		return nil
	case 1, 2, 3:
		n := int64(r.intn(4) + 1)
		switch r.intn(3) {
		case 0:
			return int32(n)
		case 1:
			return n
		default:
			return float64(n)
		}
	case 4:
		return pick(r, []string{"x", "y", ""})
	case 5:
		return r.chance(1, 2)
	default:
		return int32(r.intn(4) + 1)
	}
}

func (g *apiGen) fieldVal() interface{} {
	if (g.full || g.fullU) && g.r.chance(1, 4) {
		// arrays of embedded documents / embedded documents (targets of "a.0.q", "a.$[].q", "c.x")
		if g.r.chance(1, 2) {
			return bson.A{bson.D{{Key: "q", Value: g.scalar()}}, bson.D{{Key: "q", Value: g.scalar()}, {Key: "r", Value: bson.A{g.scalar()}}}}
		}
		return bson.D{{Key: "x", Value: g.scalar()}, {Key: "q", Value: bson.A{g.scalar(), g.scalar()}}}
	}
	if (g.full || g.fullU) && g.r.chance(1, 7) {
		// arrays directly inside arrays (targets of "a.0.1", "a.1.0"): a deep copy must reach them
		return bson.A{bson.A{int32(g.r.intn(3) + 1), int32(g.r.intn(3) + 1)}, bson.A{g.scalar(), int32(4)}}
	}
	if g.r.chance(1, 5) {
		n := g.r.intn(3)
		a := bson.A{}
		for i := 0; i < n; i++ {
			a = append(a, g.scalar())
		}
		return a
	}
	return g.scalar()
}

func (g *apiGen) doc(withID bool) (d bson.D) {
	d = bson.D{}
	if withID {
		id := g.id()
		g.knownIDs = append(g.knownIDs, id)
		d = append(d, bson.E{Key: "_id", Value: id})
	}
	if (g.full || g.fullU) && g.r.chance(1, 6) {
		// the 4th column of the wide compound indexes
		var e interface{} = g.scalar()
		if g.r.chance(1, 2) {
			e = bson.A{g.scalar(), g.scalar(), int32(g.r.intn(3) + 1)}
		}
		defer func() { d = append(d, bson.E{Key: "d", Value: bson.D{{Key: "e", Value: e}}}) }()
	}
	for _, k := range []string{"a", "b", "c"} {
		if g.grid && k != "c" && g.r.chance(5, 6) {
			// compound unique key from a small grid, in every numeric spelling:
			// groups sharing the first column, duplicates inside a group
			n := int64(g.r.intn(3) + 1)
			d = append(d, bson.E{Key: k, Value: pick(g.r, []interface{}{int32(n), int32(n), n, float64(n)})})
			continue
		}
		if k == g.uniqField && g.r.chance(1, 2) {
			// small integer keys under the unique index: neighbours collide when shifted
			d = append(d, bson.E{Key: k, Value: int32(g.r.intn(6) + 1)})
			continue
		}
		if g.r.chance(3, 5) {
			d = append(d, bson.E{Key: k, Value: g.fieldVal()})
		}
	}
	return d
}

func (g *apiGen) fullFilter(depth int) bson.D {
	r := g.r
	f := pick(r, []string{"a", "b", "c", "_id", "d.e"})
	var v interface{} = g.scalar()
	if f == "_id" {
		v = g.id()
	}
	switch r.intn(14) {
	case 0:
		return bson.D{}
	case 1, 2:
		return bson.D{{Key: f, Value: v}}
	case 3:
		return bson.D{{Key: f, Value: bson.D{{Key: pick(r, []string{"$gt", "$gte", "$lt", "$lte", "$ne", "$eq"}), Value: v}}}}
	case 4:
		return bson.D{{Key: f, Value: bson.D{{Key: pick(r, []string{"$in", "$nin"}), Value: bson.A{g.scalar(), v}}}}}
	case 5:
		return bson.D{{Key: f, Value: bson.D{{Key: "$exists", Value: r.chance(1, 2)}}}}
	case 6:
		return bson.D{{Key: f, Value: bson.D{{Key: "$type", Value: pick(r, []interface{}{"number", "string", "array", int32(16), "null"})}}}}
	case 7:
		if depth > 0 {
			return bson.D{{Key: pick(r, []string{"$and", "$or", "$nor"}), Value: bson.A{g.fullFilter(depth - 1), g.fullFilter(depth - 1)}}}
		}
		return bson.D{{Key: f, Value: v}}
	case 8:
		return bson.D{{Key: f, Value: bson.D{{Key: "$not", Value: bson.D{{Key: "$gt", Value: v}}}}}}
	case 9:
		return bson.D{{Key: f, Value: bson.D{{Key: "$size", Value: int32(r.intn(3))}}}}
	case 10:
		return bson.D{{Key: f, Value: bson.D{{Key: "$all", Value: bson.A{g.scalar()}}}}}
	case 11:
		// malformed
		return bson.D{{Key: f, Value: bson.D{{Key: pick(r, []string{"$foo", "$in", "$size", "$mod"}), Value: g.scalar()}}}}
	case 12:
		return bson.D{{Key: f, Value: bson.D{{Key: "$elemMatch", Value: bson.D{{Key: "$gt", Value: g.scalar()}}}}}}
	default:
		return bson.D{{Key: "a", Value: g.scalar()}, {Key: "b", Value: bson.D{{Key: "$gte", Value: g.scalar()}}}}
	}
}

func (g *apiGen) fullUpdate() bson.D {
	r := g.r
	if g.uniqField != "" && r.chance(1, 8) {
		// shift / swap keys under the unique index (accepted iff the FINAL key set is duplicate-free)
		return bson.D{{Key: "$inc", Value: bson.D{{Key: g.uniqField, Value: pick(r, []interface{}{int32(1), int32(-1), int64(1)})}}}}
	}
	if r.chance(1, 8) {
		// updates that change some of the matched documents and leave others untouched
		f := pick(r, []string{"a", "b", "c"})
		switch r.intn(4) {
		case 0:
			return bson.D{{Key: "$unset", Value: bson.D{{Key: f, Value: ""}}}}
		case 1:
			return bson.D{{Key: pick(r, []string{"$max", "$min"}), Value: bson.D{{Key: f, Value: int32(r.intn(4) + 1)}}}}
		case 2:
			return bson.D{{Key: "$rename", Value: bson.D{{Key: f, Value: pick(r, []string{"z", "b", "c"})}}}}
		default:
			return bson.D{{Key: "$addToSet", Value: bson.D{{Key: f, Value: int32(r.intn(3) + 1)}}}}
		}
	}
	f := pick(r, []string{"a", "b", "c", "a", "b", "c", "_id", "d.e", "a.0", "c.x", "a.0.q", "a.0.q", "a.1.r.0", "b.q.1", "a.$[].q", "a.$[].q", "c.q", "a.0.1", "a.1.0", "b.0.1", "a.0.1", "b.1.0", "c.0.1"})
	var v interface{} = g.scalar()
	if f == "_id" {
		v = g.id()
	}
	n := pick(r, []interface{}{int32(1), int32(2), int64(3), float64(1.5), int32(-1), "x"})
	one := func(op string, arg interface{}) bson.D { return bson.D{{Key: op, Value: bson.D{{Key: f, Value: arg}}}} }
	switch r.intn(18) {
	case 0, 1, 2:
		return one("$set", v)
	case 3:
		return one("$unset", "")
	case 4, 5:
		return one("$inc", n)
	case 6:
		return one("$mul", n)
	case 7:
		return one(pick(r, []string{"$min", "$max"}), v)
	case 8:
		return one("$push", v)
	case 9:
		// $each with zero to two elements, every modifier optional, on the drawn
		// field or on one that is usually missing (the recorded change must then
		// be the whole new array, also when it is empty)
		each := bson.A{}
		for i := r.intn(3); i > 0; i-- {
			each = append(each, g.scalar())
		}
		spec := bson.D{{Key: "$each", Value: each}}
		if r.chance(1, 2) {
			spec = append(spec, bson.E{Key: "$slice", Value: int32(r.intn(4) - 1)})
		}
		if r.chance(1, 4) {
			spec = append(spec, bson.E{Key: "$position", Value: int32(r.intn(3) - 1)})
		}
		if r.chance(1, 4) {
			spec = append(spec, bson.E{Key: "$sort", Value: pick(r, []interface{}{int32(1), int32(-1)})})
		}
		target := f
		if r.chance(1, 3) {
			target = pick(r, []string{"n", "z", "c.w"})
		}
		return bson.D{{Key: "$push", Value: bson.D{{Key: target, Value: spec}}}}
	case 10:
		return one("$pop", pick(r, []interface{}{int32(1), int32(-1)}))
	case 11:
		return one(pick(r, []string{"$pull", "$addToSet"}), v)
	case 12:
		return one("$pullAll", bson.A{g.scalar(), g.scalar()})
	case 13:
		return one("$rename", pick(r, []string{"z", "b", "a", "c.y"}))
	case 14:
		return one("$setOnInsert", v)
	case 15:
		return bson.D{{Key: "$set", Value: bson.D{{Key: "a", Value: g.scalar()}}}, {Key: "$inc", Value: bson.D{{Key: pick(r, []string{"b", "a"}), Value: int32(1)}}}}
	case 16:
		return one(pick(r, []string{"$foo", "$bit"}), v)
	default:
		return bson.D{{Key: "a", Value: g.scalar()}} // not an operator document
	}
}

func (g *apiGen) projection() string {
	r := g.r
	if !(g.full || g.fullP) || r.chance(1, 2) {
		return "NIL"
	}
	switch r.intn(7) {
	case 0:
		return enc(bson.D{{Key: "a", Value: int32(1)}})
	case 1:
		return enc(bson.D{{Key: "a", Value: int32(0)}})
	case 2:
		return enc(bson.D{{Key: "a", Value: int32(1)}, {Key: "b", Value: int32(0)}}) // invalid mix
	case 3:
		return enc(bson.D{{Key: "_id", Value: int32(0)}, {Key: "b", Value: int32(1)}, {Key: "d.e", Value: int32(1)}})
	case 4:
		return enc(bson.D{{Key: "a", Value: bson.D{{Key: "$slice", Value: int32(1)}}}})
	case 5:
		return enc(bson.D{{Key: "c", Value: "x"}}) // invalid argument
	default:
		return enc(bson.D{{Key: "b", Value: true}, {Key: "c", Value: int64(1)}})
	}
}

// filterU: the filter of a call that may upsert.  Until Model/Apply.v (Extract)
// is merged the upsert seed is only modelled for plain equality filters.
func (g *apiGen) filterU(upsert bool) bson.D {
	if upsert && !g.full && !g.fullU {
		save := g.fullF
		g.fullF = false
		f := g.filter()
		g.fullF = save
		return f
	}
	return g.filter()
}

func (g *apiGen) filter() bson.D {
	r := g.r
	if (g.full || g.fullF) && r.chance(1, 2) {
		return g.fullFilter(2)
	}
	switch r.intn(6) {
	case 0:
		return bson.D{}
	case 1, 2:
		if len(g.knownIDs) > 0 && r.chance(3, 4) {
			return bson.D{{Key: "_id", Value: pick(r, g.knownIDs)}}
		}
		return bson.D{{Key: "_id", Value: g.id()}}
	case 3:
		return bson.D{{Key: pick(r, []string{"a", "b", "c"}), Value: g.scalar()}}
	case 4:
		return bson.D{{Key: pick(r, []string{"a", "b"}), Value: g.scalar()}, {Key: "c", Value: g.scalar()}}
	default:
		return bson.D{{Key: pick(r, []string{"a", "b", "c"}), Value: g.scalar()}}
	}
}

func (g *apiGen) update() bson.D {
	r := g.r
	if (g.full || g.fullU) && r.chance(2, 3) {
		return g.fullUpdate()
	}
	f := pick(r, []string{"a", "b", "c", "_id", "d.e"})
	var v interface{} = g.scalar()
	if f == "_id" {
		v = g.id()
	}
	if r.chance(1, 30) {
		return bson.D{}
	}
	return bson.D{{Key: "$set", Value: bson.D{{Key: f, Value: v}}}}
}

func (g *apiGen) sortSpec() string {
	r := g.r
	if r.chance(1, 2) {
		return "NIL"
	}
	if g.uniqField != "" && r.chance(1, 4) {
		// exactly the key of the (possibly partial) unique index
		return enc(bson.D{{Key: g.uniqField, Value: pick(r, []interface{}{int32(1), int32(1), int32(-1)})}})
	}
	d := bson.D{}
	for _, k := range []string{"a", "b", "_id"} {
		if r.chance(1, 2) {
			d = append(d, bson.E{Key: k, Value: pick(r, []interface{}{int32(1), int32(-1), int64(1), float64(-1)})})
		}
	}
	if r.chance(1, 40) {
		d = append(d, bson.E{Key: "c", Value: int32(2)})
	}
	return enc(d)
}

func (g *apiGen) target() string {
	r := g.r
	db := apiDbs[0]
	if r.chance(1, 8) {
		db = apiDbs[1]
	}
	co := apiColls[0]
	if r.chance(1, 5) {
		co = apiColls[1]
	}
	return hx(db) + " " + hx(co)
}

func (g *apiGen) indexSpec() string {
	r := g.r
	key := bson.D{}
	fields := []string{"a", "b", "c"}
	n := 1
	if r.chance(1, 4) {
		n = 2
	}
	perm := []int{0, 1, 2}
	for i := range perm {
		j := i + r.intn(len(perm)-i)
		perm[i], perm[j] = perm[j], perm[i]
	}
	for i := 0; i < n; i++ {
		key = append(key, bson.E{Key: fields[perm[i]], Value: pick(r, []interface{}{int32(1), int32(-1)})})
	}
	if r.chance(1, 30) {
		key = bson.D{}
	}
	if r.chance(1, 12) {
		// wide compound key: four columns, the last one often holds arrays
		key = bson.D{{Key: "a", Value: int32(1)}, {Key: "b", Value: int32(1)}, {Key: "c", Value: int32(-1)}, {Key: "d.e", Value: int32(1)}}
		if r.chance(1, 2) {
			key = bson.D{{Key: "c", Value: int32(1)}, {Key: "b", Value: int32(-1)}, {Key: "a", Value: int32(1)}, {Key: "d.e", Value: int32(1)}}
		}
	}
	name := ""
	if r.chance(1, 4) {
		name = pick(r, []string{"ix", "a_1", "_id_"})
	}
	if name != "" {
		g.knownNames = append(g.knownNames, name)
	} else if len(key) > 0 {
		var segs []string
		for _, e := range key {
			segs = append(segs, e.Key, fmt.Sprint(e.Value))
		}
		g.knownNames = append(g.knownNames, strings.Join(segs, "_"))
	}
	partial := "NIL"
	if r.chance(1, 4) {
		partial = enc(bson.D{{Key: "c", Value: g.scalar()}})
	}
	exp := "NIL"
	if r.chance(1, 6) {
		exp = strconv.Itoa(r.intn(3) * 3600)
	}
	return hx(name) + " " + enc(key) + " " + tf(r.chance(1, 2)) + " " + partial + " " + exp
}

func (g *apiGen) call() string {
	r := g.r
	// session routing: calls may carry the open session's context
	sid := int64(0)
	if g.openSess > 0 && r.chance(2, 3) {
		sid = g.openSess
	}
	s := strconv.FormatInt(sid, 10)
	// while a transaction is open, other clients only read (a write would
	// wait for the token); occasionally try it anyway (it must fail)
	readOnly := g.openSess > 0 && sid == 0 && !r.chance(1, 12)
	t := g.target()
	k := r.intn(100)
	if readOnly {
		k = 60 + r.intn(20)
	}
	if g.uniqField != "" && !readOnly && r.chance(1, 20) {
		// shift all numeric keys under the unique index by one: accepted iff the
		// FINAL key set is duplicate-free, whatever the order of processing
		flt := bson.D{{Key: g.uniqField, Value: bson.D{{Key: pick(r, []string{"$gte", "$lte"}), Value: int32(r.intn(4) + 1)}}}}
		upd := bson.D{{Key: "$inc", Value: bson.D{{Key: g.uniqField, Value: pick(r, []interface{}{int32(1), int32(-1)})}}}}
		return "(update " + s + " " + hx(apiDbs[0]) + " " + hx(apiColls[0]) + " many " + enc(flt) + " " + enc(upd) + " F ())"
	}
	if g.uniqField != "" && r.chance(1, 25) {
		// read everything in the order of the (possibly partial) unique index
		// key: the result is the whole collection, indexed or not
		srt := enc(bson.D{{Key: g.uniqField, Value: pick(r, []interface{}{int32(1), int32(1), int32(-1)})}})
		return "(find " + s + " " + hx(apiDbs[0]) + " " + hx(apiColls[0]) + " (D) " + srt + " NIL " + strconv.Itoa(pick(r, []int{0, 0, 1})) + " " + strconv.Itoa(pick(r, []int{0, 0, 3})) + ")"
	}
	if r.chance(1, 14) {
		return g.extCall(s, t, readOnly)
	}
	switch {
	case k < 18:
		return "(insertOne " + s + " " + t + " " + enc(g.doc(r.chance(4, 5))) + ")"
	case k < 24:
		n := r.intn(3) + 1
		parts := []string{}
		for i := 0; i < n; i++ {
			parts = append(parts, enc(g.doc(r.chance(4, 5))))
		}
		return "(insertMany " + s + " " + t + " " + tf(r.chance(1, 2)) + " " + strings.Join(parts, " ") + ")"
	case k < 34:
		up := r.chance(1, 3)
		if r.chance(1, 8) {
			// UpdateByID: an id that exists, one that may, documents and arrays as ids are left to the id pool
			var id interface{} = g.id()
			if len(g.knownIDs) > 0 && r.chance(2, 3) {
				id = pick(r, g.knownIDs)
			}
			if id == nil {
				id = int32(1)
			}
			return "(updateById " + s + " " + t + " " + enc(id) + " " + enc(g.update()) + " " + tf(up) + " ())"
		}
		mode := pick(r, []string{"one", "many"})
		flt := g.filterU(up)
		if mode == "many" && r.chance(1, 3) {
			flt = bson.D{} // every document: multi-document updates with mixed effects
		}
		return "(update " + s + " " + t + " " + mode + " " + enc(flt) + " " + enc(g.update()) + " " + tf(up) + " ())"
	case k < 40:
		up := r.chance(1, 3)
		return "(replace " + s + " " + t + " " + enc(g.filterU(up)) + " " + enc(g.doc(r.chance(1, 3))) + " " + tf(up) + ")"
	case k < 46:
		return "(delete " + s + " " + t + " " + pick(r, []string{"one", "many"}) + " " + enc(g.filter()) + ")"
	case k < 50:
		up := r.chance(1, 3)
		return "(fau " + s + " " + t + " " + enc(g.filterU(up)) + " " + enc(g.update()) + " " + g.sortSpec() + " " + g.projection() + " " + tf(up) + " " + tf(r.chance(1, 2)) + " ())"
	case k < 53:
		up := r.chance(1, 3)
		return "(far " + s + " " + t + " " + enc(g.filterU(up)) + " " + enc(g.doc(r.chance(1, 3))) + " " + g.sortSpec() + " " + g.projection() + " " + tf(up) + " " + tf(r.chance(1, 2)) + ")"
	case k < 56:
		return "(fad " + s + " " + t + " " + enc(g.filter()) + " " + g.sortSpec() + " " + g.projection() + ")"
	case k < 60:
		n := r.intn(3) + 1
		var ops []string
		for i := 0; i < n; i++ {
			switch r.intn(4) {
			case 0:
				ops = append(ops, "(ins "+enc(g.doc(true))+")")
			case 1:
				up := r.chance(1, 3)
				ops = append(ops, "(rep "+enc(g.filterU(up))+" "+enc(g.doc(r.chance(1, 3)))+" "+tf(up)+")")
			case 2:
				up := r.chance(1, 3)
				ops = append(ops, "(upd "+pick(r, []string{"one", "many"})+" "+enc(g.filterU(up))+" "+enc(g.update())+" "+tf(up)+" ())")
			default:
				ops = append(ops, "(del "+pick(r, []string{"one", "many"})+" "+enc(g.filter())+")")
			}
		}
		return "(bulk " + s + " " + t + " " + tf(r.chance(1, 2)) + " (" + strings.Join(ops, " ") + "))"
	case k < 68:
		skip := pick(r, []int{0, 0, 0, 1, 2, 5})
		limit := pick(r, []int{0, 0, 1, 2, 5})
		return "(find " + s + " " + t + " " + enc(g.filter()) + " " + g.sortSpec() + " " + g.projection() + " " + strconv.Itoa(skip) + " " + strconv.Itoa(limit) + ")"
	case k < 71:
		return "(findOne " + s + " " + t + " " + enc(g.filter()) + " " + g.sortSpec() + " " + g.projection() + " " + strconv.Itoa(pick(r, []int{0, 0, 1, 3})) + ")"
	case k < 74:
		if r.chance(1, 4) {
			return "(estCount " + s + " " + t + ")"
		}
		return "(count " + s + " " + t + " " + enc(g.filter()) + " " + strconv.Itoa(pick(r, []int{0, 0, 1, 3})) + " " + strconv.Itoa(pick(r, []int{0, 0, 1, 2})) + ")"
	case k < 77:
		return "(distinct " + s + " " + t + " " + hx(pick(r, []string{"a", "b", "c", "_id"})) + " " + enc(g.filter()) + ")"
	case k < 80:
		return "(listIndexes " + s + " " + t + ")"
	case k < 87:
		return "(createIndex " + s + " " + t + " " + g.indexSpec() + ")"
	case k < 90:
		if len(g.knownNames) > 0 && r.chance(2, 3) {
			return "(dropIndex " + s + " " + t + " " + hx(pick(r, g.knownNames)) + ")"
		}
		return "(dropIndex " + s + " " + t + " " + hx(pick(r, []string{"a_1", "b_1", "ix", "_id_", "a_-1", "c_1", "a_1_b_1"})) + ")"
	case k < 91:
		if r.chance(1, 2) {
			// drop by key specification: the _id key, keys of indexes that may exist, BSON-equal spellings, unknown keys
			key := pick(r, []bson.D{
				{{Key: "_id", Value: int32(1)}},
				{{Key: "a", Value: int32(1)}},
				{{Key: "b", Value: int32(1)}},
				{{Key: "a", Value: float64(1)}},
				{{Key: "b", Value: int32(-1)}},
				{{Key: "a", Value: int32(1)}, {Key: "b", Value: int32(1)}},
				{{Key: "c", Value: int32(1)}},
				{},
			})
			if g.uniqField != "" && r.chance(1, 3) {
				key = bson.D{{Key: g.uniqField, Value: int32(1)}}
			}
			return "(dropIndexKey " + s + " " + t + " " + enc(key) + ")"
		}
		return "(dropAllIndexes " + s + " " + t + ")"
	case k < 93:
		return "(dropColl " + s + " " + t + ")"
	case k < 94:
		return "(dropDb " + s + " " + hx(pick(r, apiDbs)) + ")"
	case k < 95:
		return "(trim " + strconv.Itoa(r.intn(4)) + ")"
	default:
		// session life cycle
		if g.openSess > 0 {
			sid := g.openSess
			switch r.intn(4) {
			case 0:
				g.openSess = 0
				return "(abort " + strconv.FormatInt(sid, 10) + ")"
			case 1:
				g.openSess = 0
				return "(end " + strconv.FormatInt(sid, 10) + ")"
			default:
				g.openSess = 0
				return "(commit " + strconv.FormatInt(sid, 10) + ")"
			}
		}
		if r.chance(1, 6) {
			// life-cycle errors: commit/abort without a transaction
			return "(" + pick(r, []string{"commit", "abort"}) + " " + strconv.FormatInt(g.nextSess+1, 10) + ")"
		}
		g.nextSess++
		g.openSess = g.nextSess
		return "(start " + strconv.FormatInt(g.nextSess, 10) + ")"
	}
}

// extCall draws one of the catalog-level calls (Model/DriverExt.v):
// CreateCollection, ListCollections(+Names), ListDatabases(+Names), CreateMany.
func (g *apiGen) extCall(s, t string, readOnly bool) string {
	r := g.r
	listFilter := func(dbs bool) bson.D {
		names := []interface{}{apiColls[0], apiColls[1], "made", "oplog", "nope"}
		if dbs {
			names = []interface{}{apiDbs[0], apiDbs[1], "local", "nope"}
		}
		switch r.intn(9) {
		case 0:
			return bson.D{{Key: "name", Value: pick(r, names)}}
		case 1:
			return bson.D{{Key: "name", Value: bson.D{{Key: "$in", Value: bson.A{pick(r, names), pick(r, names)}}}}}
		case 2:
			return bson.D{{Key: "name", Value: bson.D{{Key: pick(r, []string{"$gt", "$lte", "$ne"}), Value: pick(r, names)}}}}
		case 3:
			if dbs {
				return bson.D{{Key: "empty", Value: r.chance(1, 2)}}
			}
			return bson.D{{Key: pick(r, []string{"idIndex.v", "idIndex.key._id"}), Value: pick(r, []interface{}{int32(2), int64(1), float64(2), "2"})}}
		case 4:
			if dbs {
				return bson.D{{Key: "sizeOnDisk", Value: bson.D{{Key: pick(r, []string{"$gte", "$gt", "$type"}), Value: pick(r, []interface{}{int32(0), int64(0), "long", "int"})}}}}
			}
			return bson.D{{Key: pick(r, []string{"info.readOnly", "type", "idIndex.name", "options", "info.uuid"}), Value: pick(r, []interface{}{false, "collection", "_id_", bson.D{}, apiDbs[0] + "." + apiColls[0]})}}
		case 5:
			return bson.D{{Key: "$bogus", Value: int32(1)}} // the matcher fails on the first specification document
		default:
			return bson.D{}
		}
	}
	k := r.intn(10)
	if readOnly && k < 5 {
		k = 5 + r.intn(5)
	}
	switch {
	case k < 3:
		db := pick(r, []string{apiDbs[0], apiDbs[0], apiDbs[1], "local", "", "a.b"})
		co := pick(r, []string{apiColls[0], apiColls[1], "made", "made", ""})
		return "(createColl " + s + " " + hx(db) + " " + hx(co) + ")"
	case k < 5:
		n := 1 + r.intn(3)
		var specs []string
		for i := 0; i < n; i++ {
			specs = append(specs, "("+g.indexSpec()+")")
		}
		return "(createMany " + s + " " + t + " " + strings.Join(specs, " ") + ")"
	case k < 8:
		db := pick(r, []string{apiDbs[0], apiDbs[0], apiDbs[0], apiDbs[1], "local", "", "a.b", "nope"})
		return "(listColls " + s + " " + hx(db) + " " + enc(listFilter(false)) + ")"
	default:
		return "(listDbs " + s + " " + enc(listFilter(true)) + ")"
	}
}

func genAPI(r *rng) string { return genAPIMode(r, true) }

// genAPIFull uses the whole operator grammar (model-free oracles; the
// correspondence family switches to it once Match/Apply/Project are modelled)
func genAPIFull(r *rng) string { return genAPIMode(r, true) }

func genAPIMode(r *rng, full bool) string {
	g := &apiGen{r: r, full: full, fullF: true}
	n := 5 + r.intn(30)
	parts := []string{"api", "0"}
	// half of the histories start with a unique index on the (still empty)
	// main collection, so that duplicate-key failures of inserts, updates (also
	// at the k-th of n matched documents), replaces and upserts are frequent
	if r.chance(1, 2) {
		f := pick(r, []string{"a", "a", "b"})
		partial := "NIL"
		if r.chance(1, 4) {
			partial = enc(bson.D{{Key: "c", Value: g.scalar()}})
		}
		dir := int32(1)
		if r.chance(1, 4) {
			dir = -1 // a descending unique index: the btree order is reversed, uniqueness is not
		}
		parts = append(parts, "(createIndex 0 "+hx(apiDbs[0])+" "+hx(apiColls[0])+" x "+enc(bson.D{{Key: f, Value: dir}})+" T "+partial+" NIL)")
		g.knownNames = append(g.knownNames, fmt.Sprintf("%s_%d", f, dir))
		g.uniqField = f
	} else if r.chance(1, 3) {
		// a unique compound index on (a, b) or (b, a) in every combination of
		// directions (mixed ones included) over keys from a 3x3 grid
		f1, f2 := "a", "b"
		if r.chance(1, 3) {
			f1, f2 = "b", "a"
		}
		d1, d2 := pick(r, []int32{1, -1}), pick(r, []int32{1, -1})
		parts = append(parts, "(createIndex 0 "+hx(apiDbs[0])+" "+hx(apiColls[0])+" x "+enc(bson.D{{Key: f1, Value: d1}, {Key: f2, Value: d2}})+" T NIL NIL)")
		g.knownNames = append(g.knownNames, fmt.Sprintf("%s_%d_%s_%d", f1, d1, f2, d2))
		g.grid = true
	}
	for i := 0; i < n; i++ {
		parts = append(parts, g.call())
	}
	if r.chance(1, 12) {
		// a session transaction whose last statement is a find-one-and-modify with a
		// projection that fails on the returned document: the statement is
		// reverted, the earlier writes of the transaction are committed
		if g.openSess > 0 {
			parts = append(parts, "(abort "+strconv.FormatInt(g.openSess, 10)+")")
			g.openSess = 0
		}
		g.nextSess++
		sid := strconv.FormatInt(g.nextSess, 10)
		t := hx(apiDbs[0]) + " " + hx(apiColls[0])
		parts = append(parts, "(start "+sid+")")
		parts = append(parts, "(insertOne "+sid+" "+t+" "+enc(bson.D{{Key: "_id", Value: "tail"}, {Key: "a", Value: int32(100 + r.intn(5))}, {Key: "b", Value: int32(7)}})+")")
		if r.chance(1, 2) {
			parts = append(parts, "(update "+sid+" "+t+" one "+enc(bson.D{{Key: "_id", Value: "tail"}})+" "+enc(bson.D{{Key: "$set", Value: bson.D{{Key: "c", Value: int32(1)}}}})+" F ())")
		}
		bad := enc(bson.D{{Key: "a", Value: int32(1)}, {Key: "b", Value: int32(0)}})
		switch r.intn(3) {
		case 0:
			parts = append(parts, "(fau "+sid+" "+t+" "+enc(bson.D{{Key: "_id", Value: "tail"}})+" "+enc(bson.D{{Key: "$set", Value: bson.D{{Key: "b", Value: int32(8)}}}})+" NIL "+bad+" F "+tf(r.chance(1, 2))+" ())")
		case 1:
			parts = append(parts, "(far "+sid+" "+t+" "+enc(bson.D{{Key: "_id", Value: "tail"}})+" "+enc(bson.D{{Key: "b", Value: int32(9)}})+" NIL "+bad+" F "+tf(r.chance(1, 2))+")")
		default:
			parts = append(parts, "(fad "+sid+" "+t+" "+enc(bson.D{{Key: "_id", Value: "tail"}})+" NIL "+bad+")")
		}
		parts = append(parts, "(commit "+sid+")")
		parts = append(parts, "(find 0 "+t+" (D) NIL NIL 0 0)")
	}
	return "(" + strings.Join(parts, " ") + ")"
}

// family `specdiff`: the implementation model (Driver.step) against the
// reference model (SpecDb.s_step) on histories without sessions and
// maintenance calls — evaluated entirely on the Coq side; the expected
// observable is the constant "OK".  It tests the refinement statement of C01.
func genSpecdiff(r *rng) string {
	g := &apiGen{r: r}
	n := 5 + r.intn(30)
	parts := []string{"specdiff"}
	for len(parts) < n+1 {
		c := g.call()
		g.openSess = 0
		if strings.HasPrefix(c, "(trim") || strings.HasPrefix(c, "(start") ||
			strings.HasPrefix(c, "(commit") || strings.HasPrefix(c, "(abort") || strings.HasPrefix(c, "(end") ||
			strings.HasPrefix(c, "(listDbs") || strings.HasPrefix(c, "(listColls") && strings.Contains(c, " "+hx("local")+" ") {
			continue
		}
		parts = append(parts, c)
	}
	return "(" + strings.Join(parts, " ") + ")"
}

// family `ttl` (C19): TTL indexes, documents with dates on both sides of the
// cut-offs (as offsets from "now", at least 5 s away from any cut-off), other
// types, arrays, missing fields; Transaction.Expire; then reads.
func genTTL(r *rng) string {
	const sec = int64(1000)
	offsets := []int64{-3 * 3600 * sec, -7200*sec - 5*sec, -7200*sec + 5*sec, -3600*sec - 5*sec, -3600*sec + 5*sec, -60 * sec, -5 * sec, 5 * sec, 3600 * sec}
	date := func() interface{} { return primitive.DateTime(pick(r, offsets)) }
	val := func() interface{} {
		switch r.intn(8) {
		case 0:
			return nil
		case 1:
			return int64(pick(r, offsets)) // a number that looks like a date
		case 2:
			return "x"
		case 3:
			return bson.A{date(), int32(1)}
		case 4:
			return bson.A{}
		case 5:
			return primitive.Timestamp{T: 1, I: 1}
		default:
			return date()
		}
	}
	parts := []string{"apirel", "0"}
	colls := []string{hx("db") + " " + hx("c"), hx("db") + " " + hx("d")}
	nIdx := r.intn(3)
	for i := 0; i < nIdx; i++ {
		f := pick(r, []string{"a", "b"})
		exp := pick(r, []int{0, 3600, 7200})
		partial := "NIL"
		if r.chance(1, 5) {
			partial = enc(bson.D{{Key: "k", Value: int32(1)}})
		}
		parts = append(parts, "(createIndex 0 "+pick(r, colls)+" x "+enc(bson.D{{Key: f, Value: int32(1)}})+" "+tf(r.chance(1, 6))+" "+partial+" "+strconv.Itoa(exp)+")")
	}
	if r.chance(1, 3) {
		parts = append(parts, "(createIndex 0 "+colls[0]+" x "+enc(bson.D{{Key: "k", Value: int32(1)}})+" F NIL NIL)")
	}
	nDocs := 2 + r.intn(8)
	for i := 0; i < nDocs; i++ {
		d := bson.D{{Key: "_id", Value: int32(i)}}
		if r.chance(4, 5) {
			d = append(d, bson.E{Key: "a", Value: val()})
		}
		if r.chance(1, 2) {
			d = append(d, bson.E{Key: "b", Value: val()})
		}
		if r.chance(1, 2) {
			d = append(d, bson.E{Key: "k", Value: int32(r.intn(2))})
		}
		parts = append(parts, "(insertOne 0 "+pick(r, colls)+" "+enc(d)+")")
	}
	parts = append(parts, "(expire 0)")
	for _, c := range colls {
		parts = append(parts, "(find 0 "+c+" (D) NIL NIL 0 0)")
	}
	if r.chance(1, 2) {
		parts = append(parts, "(expire 0)")
	}
	return "(" + strings.Join(parts, " ") + ")"
}

func init() {
	register(&family{
		name: "ttl",
		gen:  genTTL,
		run:  runAPI,
		classify: func(c *sx, obs string) ([]string, bool) {
			n := strings.Count(obs, "x64656c657465") // "delete" events
			k := "expired:none"
			if n > 0 {
				k = "expired:some"
			}
			return []string{k}, true
		},
	})
	register(&family{
		name: "specdiff",
		gen:  genSpecdiff,
		run:  func(c *sx) string { return "OK" },
	})
	register(&family{
		name: "api",
		gen:  genAPI,
		run:  runAPI,
		classify: func(c *sx, obs string) ([]string, bool) {
			var labels []string
			replies := strings.Split(obs, " ;; ")
			for i, call := range c.list[2:] {
				op := call.list[0].atom
				kind := "ok"
				if i < len(replies) {
					switch {
					case strings.HasPrefix(replies[i], "ERR"):
						kind = "err"
					case strings.HasPrefix(replies[i], "DUP"):
						kind = "dup"
					case strings.HasPrefix(replies[i], "NODOC"):
						kind = "nodoc"
					}
				}
				labels = append(labels, "call:"+op+":"+kind)
			}
			return labels, len(c.list) > 4
		},
	})
}
