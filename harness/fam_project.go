package main

// fam_project.go — family `project`: mongokit.Project on generated documents
// × projections (directly and through the driver), and the model-free oracle
// of C14.
//
// Cases
//   (project <doc> <projection>)            observable (<result> <source re-dumped after the call>) | ERR | PANIC
//   (projectdb <op> (<doc>…) <projection>)  through the driver: observable (<results> <stored after> <results again>)
//
// Canonicalisation (identical tests in coq/Model/Project.v, run_project):
//   UNMODELLED       an $elemMatch query falls under the matcher's syntactic UNMODELLED rule (fam_match.go,
//                    unmodelledSyn: schema patterns, decimal multipleOf, huge $bits positions)
//   ORDER-DEPENDENT  two operator paths, one running through the other: mongokit.Project ranges over a Go map
//   more than one operator path: fields created by the merge step come in map order -> field names of the result sorted

import (
	"bytes"
	"context"
	"fmt"
	"math"
	"sort"
	"strconv"
	"strings"
	"sync"

	"go.mongodb.org/mongo-driver/bson"
	"go.mongodb.org/mongo-driver/bson/primitive"
	"go.mongodb.org/mongo-driver/mongo/options"

	"github.com/256dpi/lungo"
	"github.com/256dpi/lungo/bsonkit"
	"github.com/256dpi/lungo/mongokit"
)

// ---------------------------------------------------------------------
// syntactic tests on a projection (mirrors of the Coq definitions)

func isOperatorKey(k string) bool { return len(k) > 0 && k[0] == '$' }

func operatorEntry(e bson.E) bool {
	d, ok := e.Value.(bson.D)
	return ok && len(d) > 0 && isOperatorKey(d[0].Key)
}

func hasElemMatch(pr bson.D) bool {
	for _, e := range pr {
		if operatorEntry(e) {
			for _, o := range e.Value.(bson.D) {
				if o.Key == "$elemMatch" {
					return true
				}
			}
		}
	}
	return false
}

// elemMatchQueries: the arguments of the $elemMatch operators of a projection
func elemMatchQueries(pr bson.D) []interface{} {
	var qs []interface{}
	for _, e := range pr {
		if operatorEntry(e) {
			for _, o := range e.Value.(bson.D) {
				if o.Key == "$elemMatch" {
					qs = append(qs, o.Value)
				}
			}
		}
	}
	return qs
}

// projUnmodelled: the matcher's syntactic UNMODELLED rule on every $elemMatch
// query against every document of the case
func projUnmodelled(docs []bson.D, pr bson.D) bool {
	for _, q := range elemMatchQueries(pr) {
		for _, d := range docs {
			if unmodelledSyn(d, bson.D{{Key: "q", Value: q}}) {
				return true
			}
		}
	}
	return false
}

func allDigits(s string) bool {
	for i := 0; i < len(s); i++ {
		if s[i] < '0' || s[i] > '9' {
			return false
		}
	}
	return true
}

func normSeg(s string) string {
	if s == "" || !allDigits(s) {
		return s
	}
	for len(s) > 1 && s[0] == '0' {
		s = s[1:]
	}
	return s
}

func normPath(p string) []string {
	segs := strings.Split(p, ".")
	for i := range segs {
		segs[i] = normSeg(segs[i])
	}
	return segs
}

func isPrefix(p, q []string) bool {
	if len(p) > len(q) {
		return false
	}
	for i := range p {
		if p[i] != q[i] {
			return false
		}
	}
	return true
}

func properPrefix(p, q []string) bool { return len(p) < len(q) && isPrefix(p, q) }

func operatorKeys(pr bson.D) []string { // distinct, in order of first appearance
	var ks []string
	seen := map[string]bool{}
	for _, e := range pr {
		if operatorEntry(e) && !seen[e.Key] {
			seen[e.Key] = true
			ks = append(ks, e.Key)
		}
	}
	return ks
}

// two operator paths, different as strings, one running through the other
func orderDependent(pr bson.D) bool {
	ks := operatorKeys(pr)
	for i, a := range ks {
		for j, b := range ks {
			if i != j {
				pa, pb := normPath(a), normPath(b)
				if isPrefix(pa, pb) || isPrefix(pb, pa) {
					return true
				}
			}
		}
	}
	return false
}

func multiOperator(pr bson.D) bool { return len(operatorKeys(pr)) >= 2 }

func safeCompareEq(v interface{}, n int64) (eq bool) {
	defer func() {
		if recover() != nil {
			eq = false
		}
	}()
	return bsonkit.Compare(v, n) == 0
}

func isInclusionValue(v interface{}) bool {
	if b, ok := v.(bool); ok {
		return b
	}
	return safeCompareEq(v, 1)
}

func isExclusionValue(v interface{}) bool {
	if b, ok := v.(bool); ok {
		return !b
	}
	return !safeCompareEq(v, 1) && safeCompareEq(v, 0)
}

func includedKeys(pr bson.D) []string {
	var ks []string
	for _, e := range pr {
		if !operatorEntry(e) && isInclusionValue(e.Value) {
			ks = append(ks, e.Key)
		}
	}
	return ks
}

// the colliding-paths situation: an included path, or _id (always copied by
// an inclusion), is a proper prefix of a $slice/$elemMatch path
func collidingPaths(pr bson.D) bool {
	inc := includedKeys(pr)
	if len(inc) > 0 || hasElemMatch(pr) {
		inc = append([]string{"_id"}, inc...)
	}
	for _, p := range inc {
		for _, q := range operatorKeys(pr) {
			if properPrefix(strings.Split(p, "."), strings.Split(q, ".")) {
				return true
			}
		}
	}
	return false
}

func sortKeys(v interface{}) interface{} {
	switch x := v.(type) {
	case bson.D:
		out := make(bson.D, len(x))
		for i, e := range x {
			out[i] = bson.E{Key: e.Key, Value: sortKeys(e.Value)}
		}
		sort.SliceStable(out, func(i, j int) bool { return out[i].Key < out[j].Key })
		return out
	case bson.A:
		out := make(bson.A, len(x))
		for i, e := range x {
			out[i] = sortKeys(e)
		}
		return out
	}
	return v
}

// ---------------------------------------------------------------------
// generators

var projKeys = []string{"a", "b", "c", "x", "0", "1"}

func genProjValue(r *rng, depth int) interface{} {
	if depth <= 0 || r.chance(2, 5) {
		if r.chance(1, 2) {
			return int32(r.intn(9))
		}
		return genScalar(r)
	}
	if r.chance(1, 2) {
		n := r.intn(5)
		a := make(bson.A, 0, n)
		docs := r.chance(1, 2)
		for i := 0; i < n; i++ {
			if docs && r.chance(3, 4) {
				a = append(a, genProjFields(r, depth-1, bson.D{}))
			} else {
				a = append(a, genProjValue(r, depth-1))
			}
		}
		return a
	}
	return genProjFields(r, depth-1, bson.D{})
}

func genProjFields(r *rng, depth int, d bson.D) bson.D {
	n := 1 + r.intn(3)
	used := map[string]bool{}
	for _, e := range d {
		used[e.Key] = true
	}
	for i := 0; i < n; i++ {
		k := pick(r, projKeys)
		if used[k] {
			continue
		}
		used[k] = true
		d = append(d, bson.E{Key: k, Value: genProjValue(r, depth)})
	}
	return d
}

// genProjDoc: a document rich in arrays and embedded documents. `_id` is
// mostly a scalar, sometimes an embedded document, sometimes absent (only
// for the direct mode).
func genProjDoc(r *rng, needID bool, idn int) bson.D {
	d := bson.D{}
	switch {
	case needID:
		if r.chance(1, 8) {
			d = append(d, bson.E{Key: "_id", Value: bson.D{{Key: "n", Value: int32(idn)}, {Key: "x", Value: genProjValue(r, 2)}}})
		} else {
			d = append(d, bson.E{Key: "_id", Value: int32(idn)})
		}
	case r.chance(1, 12):
		// no _id
	case r.chance(1, 6):
		d = append(d, bson.E{Key: "_id", Value: genProjFields(r, 2, bson.D{})})
	default:
		d = append(d, bson.E{Key: "_id", Value: genScalar(r)})
	}
	d = genProjFields(r, 3, d)
	if !needID && r.chance(1, 10) && len(d) > 1 {
		// _id not in first position
		d[0], d[len(d)-1] = d[len(d)-1], d[0]
	}
	return d
}

// arrayPaths: every path (through keys and indexes) whose value is an array
func arrayPaths(v interface{}, prefix string, out *[]string) {
	join := func(s string) string {
		if prefix == "" {
			return s
		}
		return prefix + "." + s
	}
	switch x := v.(type) {
	case bson.D:
		for _, e := range x {
			if _, ok := e.Value.(bson.A); ok {
				*out = append(*out, join(e.Key))
			}
			arrayPaths(e.Value, join(e.Key), out)
		}
	case bson.A:
		for i, e := range x {
			if _, ok := e.(bson.A); ok {
				*out = append(*out, join(strconv.Itoa(i)))
			}
			arrayPaths(e, join(strconv.Itoa(i)), out)
		}
	}
}

var inclVals = []interface{}{int32(1), int32(1), int64(1), float64(1), true, true}
var exclVals = []interface{}{int32(0), int32(0), int64(0), float64(0), math.Copysign(0, -1), false, false}
var badCondVals = []interface{}{int32(2), int32(-1), "x", nil, 0.5, math.NaN(), bson.D{}, bson.D{{Key: "b", Value: int32(1)}}, bson.A{}, bson.A{int32(1)}, int64(1) << 40, primitive.DateTime(1)}

func genSliceInt(r *rng, small []int64) interface{} {
	if r.chance(1, 25) {
		return pick(r, []interface{}{int64(math.MaxInt64), int64(math.MinInt64), int64(math.MaxInt64 - 1), int64(math.MinInt64 + 1), int32(math.MaxInt32), int32(math.MinInt32), 1e18, -1e18, 9.2e18})
	}
	n := pick(r, small)
	switch r.intn(5) {
	case 0, 1:
		return int32(n)
	case 2:
		return n
	case 3:
		return float64(n)
	default:
		return float64(n) + pick(r, []float64{0.5, -0.5, 0.9, 0})
	}
}

func genSliceArg(r *rng) interface{} {
	switch {
	case r.chance(1, 10): // ill-typed
		return pick(r, []interface{}{"x", nil, true, bson.A{}, bson.A{int32(1)}, bson.A{int32(1), int32(2), int32(3)},
			bson.A{"x", int32(1)}, bson.A{int32(1), "x"}, bson.A{int32(1), int32(-1)}, bson.A{nil, int32(1)}, bson.D{{Key: "a", Value: int32(1)}},
			math.NaN(), math.Inf(1), 1e300, bson.A{math.NaN(), int32(1)}, bson.A{int32(0), math.Inf(-1)}, mustDec("1")})
	case r.chance(1, 2):
		return genSliceInt(r, []int64{-6, -4, -3, -2, -1, 0, 1, 2, 3, 4, 6, 100, -100})
	default:
		return bson.A{genSliceInt(r, []int64{-6, -4, -3, -2, -1, 0, 1, 2, 3, 4, 6, 100, -100}), genSliceInt(r, []int64{0, 0, 1, 1, 2, 3, 4, 100})}
	}
}

// genElemQuery: a query for the elements of arr.  Mostly produced by the
// matcher family's generator (fam_match.go) aimed at one element: field
// conditions for a document element, an operator document on the element
// itself otherwise; sometimes simple hand-made forms, the empty query or
// operators that do not exist at expression level.
func genElemQuery(r *rng, doc bson.D, arr bson.A) bson.D {
	g := &fgen{r: r, mal: r.chance(1, 10)}
	var q bson.D
	switch {
	case len(arr) > 0 && r.chance(3, 5):
		item := arr[r.intn(len(arr))]
		if d, ok := item.(bson.D); ok && len(d) > 0 {
			depth := 0
			if r.chance(1, 4) {
				depth = 1
			}
			q = g.filter(d, depth)
		} else {
			virtual := bson.D{{Key: "item", Value: item}}
			q = g.opDoc(virtual, "item", 1, 1+r.intn(2))
		}
	default:
		switch r.intn(8) {
		case 0:
			q = bson.D{{Key: pick(r, projKeys), Value: int32(r.intn(4))}}
		case 1:
			q = bson.D{{Key: "$gt", Value: int32(r.intn(4))}}
		case 2:
			q = bson.D{{Key: pick(r, projKeys), Value: bson.D{{Key: "$gte", Value: int32(r.intn(4))}}}}
		case 3:
			q = bson.D{{Key: "$gt", Value: int32(r.intn(3))}, {Key: "$lt", Value: int32(3 + r.intn(5))}}
		case 4:
			q = bson.D{{Key: pick(r, projKeys), Value: int32(r.intn(4))}, {Key: pick(r, projKeys), Value: bson.D{{Key: "$exists", Value: r.chance(1, 2)}}}}
		case 5:
			q = bson.D{{Key: "$in", Value: bson.A{int32(r.intn(4)), int32(r.intn(9)), pick(r, poolStr)}}}
		case 6:
			q = bson.D{{Key: pick(r, []string{"$and", "$or", "$foo", "$type"}), Value: bson.A{bson.D{{Key: "a", Value: int32(1)}}}}}
		default:
			q = bson.D{}
		}
	}
	// keep the query inside the matcher's modelled domain
	if unmodelledSyn(doc, q) {
		return bson.D{{Key: "$gte", Value: int32(r.intn(4))}}
	}
	return q
}

// elemQuery: the root-level query equivalent to the call made by
// projectElemMatch, Process(ctx, {item: element}, query, "item", false) (the
// transformation used by Model/Project.v, elem_query): an operator pair
// becomes {item: {op: v}}, a field pair becomes {"item.<key>": v}.
func elemQuery(q bson.D) bson.D {
	out := bson.D{}
	for _, e := range q {
		if isOperatorKey(e.Key) {
			out = append(out, bson.E{Key: "item", Value: bson.D{{Key: e.Key, Value: e.Value}}})
		} else {
			out = append(out, bson.E{Key: "item." + e.Key, Value: e.Value})
		}
	}
	return out
}

func genOperatorValue(r *rng, allowElem bool, doc bson.D, path string) bson.D {
	switch {
	case allowElem && r.chance(1, 2):
		if r.chance(1, 12) {
			return bson.D{{Key: "$elemMatch", Value: pick(r, []interface{}{int32(1), "x", nil, bson.A{}})}}
		}
		arr, _ := bsonkit.Get(&doc, path).(bson.A)
		em := bson.D{{Key: "$elemMatch", Value: genElemQuery(r, doc, arr)}}
		if r.chance(1, 15) {
			em = append(em, bson.E{Key: "$slice", Value: genSliceArg(r)})
		}
		return em
	case r.chance(1, 25):
		return bson.D{{Key: "$slice", Value: genSliceArg(r)}, {Key: "$slice", Value: genSliceArg(r)}}
	case r.chance(1, 40):
		return bson.D{{Key: pick(r, []string{"$foo", "$meta", "$", "$Slice"}), Value: int32(1)}}
	case r.chance(1, 40):
		return bson.D{{Key: "$slice", Value: genSliceArg(r)}, {Key: "x", Value: int32(1)}}
	}
	return bson.D{{Key: "$slice", Value: genSliceArg(r)}}
}

// derivePath: a prefix or an extension of an already chosen path
func derivePath(r *rng, doc bson.D, from string) string {
	segs := strings.Split(from, ".")
	if len(segs) > 1 && r.chance(1, 2) {
		return strings.Join(segs[:1+r.intn(len(segs)-1)], ".")
	}
	// extension: walk on from the value at `from`
	v := bsonkit.Get(&doc, from)
	switch x := v.(type) {
	case bson.D:
		if len(x) > 0 {
			return from + "." + genPath(r, x)
		}
	case bson.A:
		var aps []string
		arrayPaths(x, "", &aps)
		if len(aps) > 0 && r.chance(2, 3) {
			return from + "." + pick(r, aps)
		}
		if len(x) > 0 {
			return from + "." + strconv.Itoa(r.intn(len(x)))
		}
	}
	return from + "." + pick(r, projKeys)
}

// genProjection: kind 0 inclusion, 1 exclusion, 2 operators only, 3 operators
// with inclusions, 4 operators with exclusions, 5 deliberate mix, 6 noise.
func genProjection(r *rng, doc bson.D, allowElem bool) bson.D {
	var aps []string
	arrayPaths(doc, "", &aps)
	kind := pick(r, []int{0, 0, 0, 1, 1, 1, 2, 2, 3, 3, 3, 4, 4, 5, 6})
	n := 1 + r.intn(3)
	if r.chance(1, 10) {
		n += 2
	}
	pr := bson.D{}
	var chosen []string
	pathFor1 := func(op bool) string {
		if len(chosen) > 0 && r.chance(1, 5) { // overlapping / colliding paths
			return derivePath(r, doc, pick(r, chosen))
		}
		if op && len(aps) > 0 && r.chance(4, 5) {
			return pick(r, aps)
		}
		if r.chance(1, 30) {
			return pick(r, []string{"", ".", "a.", ".a", "a..b", "$a", "a.$b", "_id.n"})
		}
		return genPath(r, doc)
	}
	pathFor := func(op bool) string {
		p := pathFor1(op)
		for _, c := range chosen { // the same key twice: sometimes
			if c == p && r.chance(3, 4) {
				return pathFor1(op)
			}
		}
		return p
	}
	// colliding paths on purpose: an included proper prefix of an array path
	// that gets an operator (the recorded write-through needs exactly this)
	if (kind == 3 || kind == 0) && r.chance(1, 4) {
		var deep []string
		for _, ap := range aps {
			if strings.Contains(ap, ".") {
				deep = append(deep, ap)
			}
		}
		if len(deep) > 0 {
			ap := pick(r, deep)
			segs := strings.Split(ap, ".")
			pre := strings.Join(segs[:1+r.intn(len(segs)-1)], ".")
			pr = append(pr, bson.E{Key: pre, Value: pick(r, inclVals)}, bson.E{Key: ap, Value: genOperatorValue(r, allowElem, doc, ap)})
			chosen = append(chosen, pre, ap)
			if r.chance(1, 2) {
				pr[0], pr[1] = pr[1], pr[0]
			}
			kind = 3
		}
	}
	for i := 0; i < n; i++ {
		var e bson.E
		switch kind {
		case 0:
			e = bson.E{Key: pathFor(false), Value: pick(r, inclVals)}
		case 1:
			e = bson.E{Key: pathFor(false), Value: pick(r, exclVals)}
		case 2:
			k := pathFor(true)
			e = bson.E{Key: k, Value: genOperatorValue(r, allowElem && i <= 1, doc, k)}
		case 3:
			if i == 0 || r.chance(1, 3) {
				k := pathFor(true)
				e = bson.E{Key: k, Value: genOperatorValue(r, allowElem && i <= 1, doc, k)}
			} else {
				e = bson.E{Key: pathFor(false), Value: pick(r, inclVals)}
			}
		case 4:
			if i == 0 || r.chance(1, 3) {
				k := pathFor(true)
				e = bson.E{Key: k, Value: genOperatorValue(r, false, doc, k)}
			} else {
				e = bson.E{Key: pathFor(false), Value: pick(r, exclVals)}
			}
		case 5:
			if i%2 == 0 {
				e = bson.E{Key: pathFor(false), Value: pick(r, inclVals)}
			} else {
				e = bson.E{Key: pathFor(false), Value: pick(r, exclVals)}
			}
		default:
			switch r.intn(4) {
			case 0:
				e = bson.E{Key: pathFor(false), Value: pick(r, badCondVals)}
			case 1:
				e = bson.E{Key: pick(r, []string{"$slice", "$elemMatch", "$and"}), Value: int32(1)}
			case 2:
				k := pathFor(true)
				e = bson.E{Key: k, Value: genOperatorValue(r, allowElem, doc, k)}
			default:
				e = bson.E{Key: pathFor(false), Value: genNumber(r)}
			}
		}
		chosen = append(chosen, e.Key)
		pr = append(pr, e)
	}
	// ill-typed condition somewhere (about one case in ten over all kinds)
	if kind != 6 && r.chance(1, 16) {
		pr[r.intn(len(pr))].Value = pick(r, badCondVals)
	}
	// operator entries first, last, anywhere
	if r.chance(1, 3) {
		i, j := r.intn(len(pr)), r.intn(len(pr))
		pr[i], pr[j] = pr[j], pr[i]
	}
	// _id shown / hidden, at any position
	if r.chance(1, 3) {
		var v interface{}
		if r.chance(2, 3) {
			v = pick(r, exclVals)
		} else {
			v = pick(r, inclVals)
		}
		at := r.intn(len(pr) + 1)
		pr = append(pr[:at], append(bson.D{{Key: "_id", Value: v}}, pr[at:]...)...)
	}
	return pr
}

func cloneD(d bson.D) bson.D { return *bsonkit.Clone(&d) }

// runProjectReal: the real mongokit.Project on a private copy of doc.
func runProjectReal(doc, pr bson.D) (res bsonkit.Doc, after bson.D, err error) {
	d := cloneD(doc)
	p := cloneD(pr)
	res, err = mongokit.Project(&d, &p)
	return res, d, err
}

func genProjectCase(r *rng) string {
	if r.chance(1, 12) {
		return genProjectDBCase(r)
	}
	doc := genProjDoc(r, false, 0)
	pr := genProjection(r, doc, r.chance(3, 5))
	return "(project " + enc(doc) + " " + enc(pr) + ")"
}

func canonPrecheck(docs []bson.D, pr bson.D) string {
	switch {
	case projUnmodelled(docs, pr):
		return "UNMODELLED"
	case orderDependent(pr):
		return "ORDER-DEPENDENT"
	}
	return ""
}

func canonResult(pr bson.D, res bsonkit.Doc) string {
	if multiOperator(pr) {
		return enc(sortKeys(*res))
	}
	return enc(*res)
}

func runProjectCase(c *sx) string {
	if c.list[0].atom == "projectdb" {
		return runProjectDBCase(c)
	}
	doc := *decDoc(c.list[1])
	pr := *decDoc(c.list[2])
	if s := canonPrecheck([]bson.D{doc}, pr); s != "" {
		return s
	}
	res, after, err := runProjectReal(doc, pr)
	if err != nil {
		return "ERR"
	}
	return "(" + canonResult(pr, res) + " " + enc(after) + ")"
}

// ---------------------------------------------------------------------
// driver mode

var (
	projDBMu     sync.Mutex
	projDB       lungo.IDatabase
	projDBEngine *lungo.Engine
	projDBUses   int
	projDBSeq    int
)

// projDatabase: one in-memory engine shared by the driver-mode cases; it is
// replaced every 500 uses (the oplog of a long-lived engine grows with every
// insert and makes each call slower).
func projDatabase() lungo.IDatabase {
	projDBMu.Lock()
	defer projDBMu.Unlock()
	if projDB == nil || projDBUses >= 500 {
		if projDBEngine != nil {
			projDBEngine.Close()
		}
		client, engine, err := lungo.Open(nil, lungo.Options{Store: lungo.NewMemoryStore()})
		if err != nil {
			panic(err)
		}
		projDB, projDBEngine, projDBUses = client.Database("c14"), engine, 0
	}
	projDBUses++
	return projDB
}

var projDBOps = []string{"find", "findone", "fau"}

func genProjectDBCase(r *rng) string {
	n := 1 + r.intn(3)
	docs := make([]bson.D, n)
	for i := range docs {
		docs[i] = genProjDoc(r, true, i+1)
	}
	pr := genProjection(r, docs[r.intn(n)], r.chance(3, 5))
	var sb strings.Builder
	sb.WriteString("(projectdb " + pick(r, projDBOps) + " (")
	for i, d := range docs {
		if i > 0 {
			sb.WriteString(" ")
		}
		sb.WriteString(enc(d))
	}
	sb.WriteString(") " + enc(pr) + ")")
	return sb.String()
}

func encDocs(ds []bson.D, pr bson.D, canon bool) string {
	var sb strings.Builder
	sb.WriteString("(")
	for i, d := range ds {
		if i > 0 {
			sb.WriteString(" ")
		}
		if canon && multiOperator(pr) {
			sb.WriteString(enc(sortKeys(d)))
		} else {
			sb.WriteString(enc(d))
		}
	}
	sb.WriteString(")")
	return sb.String()
}

var fauUpdate = bson.D{{Key: "$set", Value: bson.D{{Key: "zz", Value: int32(1)}}}}

// projDriverOp runs one driver call with the projection; nil result list with
// err != nil when the driver reports an error.
func projDriverOp(coll lungo.ICollection, op string, pr bson.D) ([]bson.D, error) {
	ctx := context.Background()
	switch op {
	case "find":
		cur, err := coll.Find(ctx, bson.D{}, options.Find().SetProjection(pr))
		if err != nil {
			return nil, err
		}
		out := []bson.D{}
		if err := cur.All(ctx, &out); err != nil {
			return nil, err
		}
		return out, nil
	case "findone":
		var out bson.D
		if err := coll.FindOne(ctx, bson.D{}, options.FindOne().SetProjection(pr)).Decode(&out); err != nil {
			return nil, err
		}
		return []bson.D{out}, nil
	case "fau":
		var out bson.D
		err := coll.FindOneAndUpdate(ctx, bson.D{}, fauUpdate, options.FindOneAndUpdate().SetProjection(pr).SetReturnDocument(options.After)).Decode(&out)
		if err != nil {
			return nil, err
		}
		return []bson.D{out}, nil
	}
	panic("bad op " + op)
}

// projDriverOpSafe: panics of the library are reported, not propagated
func projDriverOpSafe(coll lungo.ICollection, op string, pr bson.D) (out []bson.D, err error, panicked bool) {
	defer func() {
		if recover() != nil {
			panicked = true
		}
	}()
	out, err = projDriverOp(coll, op, pr)
	return
}

func projStored(coll lungo.ICollection) []bson.D {
	ctx := context.Background()
	cur, err := coll.Find(ctx, bson.D{})
	if err != nil {
		panic(err)
	}
	out := []bson.D{}
	if err := cur.All(ctx, &out); err != nil {
		panic(err)
	}
	return out
}

func projFreshCollection(docs []bson.D) lungo.ICollection {
	projDBSeq++
	coll := projDatabase().Collection("c" + strconv.Itoa(projDBSeq))
	many := make([]interface{}, len(docs))
	for i, d := range docs {
		many[i] = d
	}
	if _, err := coll.InsertMany(context.Background(), many); err != nil {
		panic(err)
	}
	return coll
}

func runProjectDBCase(c *sx) string {
	op := c.list[1].atom
	var docs []bson.D
	for _, n := range c.list[2].list {
		docs = append(docs, *decDoc(n))
	}
	pr := *decDoc(c.list[3])
	if s := canonPrecheck(docs, pr); s != "" {
		return s
	}
	coll := projFreshCollection(docs)
	defer coll.Drop(context.Background())
	r1, err := projDriverOp(coll, op, pr)
	if err != nil {
		return "ERR"
	}
	stored := projStored(coll)
	// later results: the same projection over the whole collection
	r2, err := projDriverOp(coll, "find", pr)
	if err != nil {
		return "ERR2"
	}
	return "(" + encDocs(r1, pr, true) + " " + encDocs(stored, pr, false) + " " + encDocs(r2, pr, true) + ")"
}

// ---------------------------------------------------------------------

func classifyProject(c *sx, obs string) ([]string, bool) {
	tag := c.list[0].atom
	labels := []string{"tag:" + tag}
	var pr bson.D
	if tag == "projectdb" {
		pr = *decDoc(c.list[3])
		labels = append(labels, "dbop:"+c.list[1].atom)
	} else {
		pr = *decDoc(c.list[2])
	}
	out := "ok"
	switch obs {
	case "ERR", "ERR2", "PANIC", "HANG", "UNMODELLED", "ORDER-DEPENDENT":
		out = strings.ToLower(obs)
	}
	labels = append(labels, "outcome:"+out)
	nInc, nExc, nOp, nBad := 0, 0, 0, 0
	hide, showID := false, false
	for _, e := range pr {
		switch {
		case operatorEntry(e):
			nOp++
			for _, o := range e.Value.(bson.D) {
				labels = append(labels, "op:"+o.Key)
				if o.Key == "$elemMatch" && tag == "project" {
					src := *decDoc(c.list[1])
					if arr, ok := bsonkit.Get(&src, e.Key).(bson.A); ok && len(arr) > 0 {
						if _, isDoc := o.Value.(bson.D); isDoc {
							labels = append(labels, "elemMatch:matcher-called")
						}
					}
				}
				if o.Key == "$slice" {
					switch a := o.Value.(type) {
					case bson.A:
						labels = append(labels, "slice:skip-limit")
						if len(a) == 2 {
							if n, ok := sliceIntOf(a[0]); ok && n < 0 {
								labels = append(labels, "slice:negative-skip")
							}
						}
					case int32, int64, float64:
						if n, ok := sliceIntOf(a); ok {
							switch {
							case n < 0:
								labels = append(labels, "slice:negative-n")
							case n > 0:
								labels = append(labels, "slice:positive-n")
							default:
								labels = append(labels, "slice:zero")
							}
						}
					default:
						labels = append(labels, "slice:ill-typed")
					}
				}
			}
		case e.Key == "_id" && isExclusionValue(e.Value):
			hide = true
		case e.Key == "_id" && isInclusionValue(e.Value):
			showID = true
			nInc++
		case isInclusionValue(e.Value):
			nInc++
		case isExclusionValue(e.Value):
			nExc++
		default:
			nBad++
		}
		if strings.Contains(e.Key, ".") {
			labels = append(labels, "path:dotted")
		}
	}
	switch {
	case nBad > 0:
		labels = append(labels, "kind:ill-typed")
	case nInc > 0 && nExc > 0:
		labels = append(labels, "kind:mix")
	case nInc > 0 && nOp > 0:
		labels = append(labels, "kind:inclusion+operators")
	case nExc > 0 && nOp > 0:
		labels = append(labels, "kind:exclusion+operators")
	case nOp > 0:
		labels = append(labels, "kind:operators")
	case nInc > 0:
		labels = append(labels, "kind:inclusion")
	case nExc > 0:
		labels = append(labels, "kind:exclusion")
	default:
		labels = append(labels, "kind:id-only")
	}
	if hide {
		labels = append(labels, "_id:hidden")
	}
	if showID {
		labels = append(labels, "_id:shown")
	}
	if collidingPaths(pr) {
		labels = append(labels, "paths:colliding")
	}
	if hasElemMatch(pr) {
		labels = append(labels, "projection:has-elemMatch")
	}
	if overlappingKeys(pr) {
		labels = append(labels, "paths:overlapping")
	}
	if multiOperator(pr) {
		labels = append(labels, "paths:multi-operator")
	}
	// non-trivial: the projection changed something or failed for a reason
	nt := out != "unmodelled" && out != "order-dependent"
	if out == "ok" && tag != "projectdb" {
		// result differs from the source
		nt = !strings.HasPrefix(obs, "("+enc(*decDoc(c.list[1]))+" ")
	}
	return labels, nt
}

// two projection keys (any kind), one a prefix of the other or equal
func overlappingKeys(pr bson.D) bool {
	for i, a := range pr {
		for j, b := range pr {
			if i != j && isPrefix(strings.Split(a.Key, "."), strings.Split(b.Key, ".")) {
				return true
			}
		}
	}
	return false
}

// sliceIntOf: the integer a $slice argument stands for (int64 and double
// arguments are clamped to +-MaxInt32, NaN is not a number)
func sliceIntOf(v interface{}) (int64, bool) {
	const max = int64(math.MaxInt32)
	clamp := func(n int64) int64 {
		if n > max {
			return max
		}
		if n < -max {
			return -max
		}
		return n
	}
	switch n := v.(type) {
	case int32:
		return int64(n), true
	case int64:
		return clamp(n), true
	case float64:
		switch {
		case math.IsNaN(n):
			return 0, false
		case n >= 4e9:
			return max, true
		case n <= -4e9:
			return -max, true
		}
		return clamp(int64(n)), true
	}
	return 0, false
}

func init() {
	register(&family{
		name:     "project",
		gen:      genProjectCase,
		run:      runProjectCase,
		classify: classifyProject,
	})
	registerOracle(&oracle{prop: "C14", name: "projection", run: oracleC14, replay: oracleC14Replay})
}

// =====================================================================
// Oracle C14 (model-free)

const (
	sigColliding = "C14:colliding-paths-write-through"
	sigNestedOps = "C14:nested-operator-paths-write-through"
)

func marshalD(d bson.D) []byte {
	b, err := bson.Marshal(d)
	if err != nil {
		panic(fmt.Sprintf("marshal: %v", err))
	}
	return b
}

func sameValue(a, b interface{}) bool {
	return bytes.Equal(marshalD(bson.D{{Key: "v", Value: normMissing(a)}}), marshalD(bson.D{{Key: "v", Value: normMissing(b)}}))
}

func normMissing(v interface{}) interface{} {
	if _, ok := v.(bsonkit.MissingType); ok {
		return primitive.Symbol("<missing>")
	}
	return v
}

func isMissing(v interface{}) bool { _, ok := v.(bsonkit.MissingType); return ok }

// mutationSignature: which recorded defect (if any) explains a changed source
func mutationSignature(pr bson.D) string {
	switch {
	case collidingPaths(pr):
		return sigColliding
	case orderDependent(pr):
		return sigNestedOps
	}
	return "C14:source-mutated"
}

// expected $slice window, written independently of project.go: indexes of
// the kept elements
func expectedWindow(a bson.A, arg interface{}) (bson.A, bool) {
	n := int64(len(a))
	keep := func(from, count int64) bson.A {
		out := bson.A{}
		for i := from; i < n && int64(len(out)) < count; i++ {
			if i >= 0 {
				out = append(out, a[i])
			}
		}
		return out
	}
	switch x := arg.(type) {
	case bson.A:
		if len(x) != 2 {
			return nil, false
		}
		s, ok1 := sliceIntOf(x[0])
		l, ok2 := sliceIntOf(x[1])
		if !ok1 || !ok2 || l < 0 {
			return nil, false
		}
		if s < 0 {
			s = n + s
			if s < 0 {
				s = 0
			}
		}
		return keep(s, l), true
	default:
		k, ok := sliceIntOf(arg)
		if !ok {
			return nil, false
		}
		if k >= 0 {
			return keep(0, k), true
		}
		from := n + k
		if from < 0 {
			from = 0
		}
		return keep(from, n), true
	}
}

// leaves of a result document: paths through embedded documents only
func leafPaths(d bson.D, prefix string, out *[]string) {
	for _, e := range d {
		p := e.Key
		if prefix != "" {
			p = prefix + "." + e.Key
		}
		if sub, ok := e.Value.(bson.D); ok && len(sub) > 0 {
			leafPaths(sub, p, out)
		} else {
			*out = append(*out, p)
		}
	}
}

func plainKey(k string) bool { return k != "" && !strings.ContainsAny(k, ".\x00") }

func topKeys(d bson.D) []string {
	var ks []string
	for _, e := range d {
		ks = append(ks, e.Key)
	}
	return ks
}

func oracleC14(r *rng, n int, st *oracleStats) []oracleFailure {
	st.Rule = "documents rich in arrays/embedded documents × projections (inclusion, exclusion, _id hidden/shown, dotted paths, $slice in all forms, $elemMatch, overlapping and colliding paths, ill-typed arguments); checks on the real mongokit.Project: source bytes unchanged, repeated call gives the same bytes, every leaf of an operator-free result equals the stored value at its path, inclusion returns only _id + included roots and the stored value at every included path, exclusion removes exactly the excluded paths and keeps order, mixing is an error, $slice window recomputed; one case in eight goes through the driver (Find/FindOne/FindOneAndUpdate with SetProjection on an in-memory engine): stored documents byte-identical afterwards, results equal the direct projection, repeated query unchanged; non-trivial = projection accepted and result differs from the source"
	var fails []oracleFailure
	perSig := map[string]int{}
	fail := func(sig, what string, detail map[string]interface{}) {
		st.Dist["fail:"+sig]++
		if perSig[sig] >= 3 {
			return
		}
		perSig[sig]++
		fails = append(fails, oracleFailure{Property: "C14", Signature: sig, What: what, Family: "project", Detail: detail})
	}
	seen := map[string]bool{}
	for i := 0; i < n; i++ {
		st.Evaluations++
		if i%8 == 7 {
			oracleC14Driver(r, st, fail, seen)
			continue
		}
		doc := genProjDoc(r, false, 0)
		pr := genProjection(r, doc, r.chance(1, 2))
		oracleC14Direct(doc, pr, st, fail, seen)
	}
	return fails
}

// oracleC14Replay re-checks the case recorded in a failure (detail.case).
func oracleC14Replay(f oracleFailure) []oracleFailure {
	m, ok := f.Detail.(map[string]interface{})
	if !ok {
		return nil
	}
	text, _ := m["case"].(string)
	c, err := parseSx(text)
	if err != nil || !c.isL || len(c.list) < 3 {
		return nil
	}
	var fails []oracleFailure
	st := &oracleStats{Dist: map[string]int{}}
	fail := func(sig, what string, detail map[string]interface{}) {
		fails = append(fails, oracleFailure{Property: "C14", Signature: sig, What: what, Family: "project", Detail: detail})
	}
	// order-dependent defects need several attempts (Go map order)
	for try := 0; try < 64 && len(fails) == 0; try++ {
		switch c.list[0].atom {
		case "project":
			oracleC14Direct(*decDoc(c.list[1]), *decDoc(c.list[2]), st, fail, map[string]bool{})
		case "projectdb":
			var docs []bson.D
			for _, n := range c.list[2].list {
				docs = append(docs, *decDoc(n))
			}
			oracleC14DriverCase(c.list[1].atom, docs, *decDoc(c.list[3]), st, fail, map[string]bool{})
		}
	}
	return fails
}

func oracleC14Direct(doc, pr bson.D, st *oracleStats, fail func(string, string, map[string]interface{}), seen map[string]bool) {
	caseText := "(project " + enc(doc) + " " + enc(pr) + ")"
	detail := func(extra ...interface{}) map[string]interface{} {
		m := map[string]interface{}{"case": caseText}
		for i := 0; i+1 < len(extra); i += 2 {
			m[extra[i].(string)] = extra[i+1]
		}
		return m
	}
	if len(st.Samples) < 3 {
		st.Samples = append(st.Samples, caseText)
	}
	before := marshalD(doc)
	d := cloneD(doc)
	p := cloneD(pr)
	var res bsonkit.Doc
	var err error
	panicked := false
	func() {
		defer func() {
			if recover() != nil {
				panicked = true
			}
		}()
		res, err = mongokit.Project(&d, &p)
	}()
	if panicked {
		st.Dist["outcome:panic"]++
		fail("C14:project-panics", "mongokit.Project panics (no argument of a projection may: C14_project_never_panics)", detail())
	}
	if !bytes.Equal(before, marshalD(d)) {
		fail(mutationSignature(pr), "mongokit.Project changed its source document", detail("source_after", enc(d)))
		return
	}
	if !bytes.Equal(marshalD(pr), marshalD(p)) {
		fail("C14:projection-mutated", "mongokit.Project changed the projection document", detail())
	}
	if panicked {
		return
	}
	// classification of the entries
	nInc, nExc, nOp, nBad := 0, 0, 0, 0
	hide := false
	var incl, excl []string
	for _, e := range pr {
		switch {
		case isOperatorKey(e.Key):
			nBad++
		case operatorEntry(e):
			nOp++
		case isInclusionValue(e.Value):
			nInc++
			incl = append(incl, e.Key)
		case isExclusionValue(e.Value):
			if e.Key == "_id" {
				hide = true
			} else {
				nExc++
				excl = append(excl, e.Key)
			}
		default:
			nBad++
		}
	}
	kind := "ill-typed"
	switch {
	case nBad > 0:
	case nOp > 0:
		kind = "operators"
	case nInc > 0 && nExc > 0:
		kind = "mix"
	case nInc > 0:
		kind = "inclusion"
	default:
		kind = "exclusion"
	}
	st.Dist["kind:"+kind]++
	if err != nil {
		st.Dist["outcome:err"]++
		if (kind == "inclusion" && !isMissing(bsonkit.Get(&doc, "_id"))) || kind == "exclusion" {
			fail("C14:valid-projection-rejected", "a well-formed "+kind+" projection is rejected: "+err.Error(), detail())
		}
		return
	}
	st.Dist["outcome:ok"]++
	if kind == "mix" {
		fail("C14:mix-accepted", "a projection mixing inclusion and exclusion is accepted", detail("result", enc(*res)))
		return
	}
	key := caseText
	if !seen[key] {
		seen[key] = true
		if !bytes.Equal(before, marshalD(*res)) {
			st.Nontrivial++
		}
	}
	// later results: the same call again gives the same bytes (not for
	// order-dependent projections, where the Go map order decides)
	if !orderDependent(pr) && !multiOperator(pr) {
		d2, p2 := cloneD(doc), cloneD(pr)
		res2, err2 := mongokit.Project(&d2, &p2)
		if err2 != nil || !bytes.Equal(marshalD(*res), marshalD(*res2)) {
			fail("C14:unstable-result", "projecting the same document twice gives different results", detail("first", enc(*res)))
		}
	}
	if kind == "operators" {
		oracleC14Slice(doc, pr, res, nInc, fail, detail)
		oracleC14ElemMatch(doc, pr, res, st, fail, detail)
		return
	}
	// every leaf of the result holds the stored value at that path
	var leaves []string
	leafPaths(*res, "", &leaves)
	for _, lp := range leaves {
		// what an exclusion leaves of a partly excluded value is checked below
		related := false
		for _, p := range excl {
			if kind == "exclusion" && (isPrefix(normPath(p), normPath(lp)) || isPrefix(normPath(lp), normPath(p))) {
				related = true
			}
		}
		if related {
			continue
		}
		if !sameValue(bsonkit.Get(res, lp), bsonkit.Get(&doc, lp)) {
			fail("C14:leaf-not-stored", "a value in the result differs from the stored value at the same path", detail("path", lp, "result", enc(*res)))
			return
		}
	}
	if kind == "inclusion" {
		roots := map[string]bool{}
		if !hide {
			roots["_id"] = true
		}
		for _, p := range incl {
			roots[strings.Split(p, ".")[0]] = true
		}
		for _, k := range topKeys(*res) {
			if !roots[k] {
				fail("C14:inclusion-extra-key", "an inclusion returns a field that was not requested", detail("key", k, "result", enc(*res)))
				return
			}
		}
		// exactly the included paths: every leaf of the result lies at or
		// below an included path (or _id)
		for _, lp := range leaves {
			covered := false
			for _, p := range append([]string{"_id"}, incl...) {
				if isPrefix(strings.Split(p, "."), strings.Split(lp, ".")) {
					covered = true
				}
			}
			if !covered {
				fail("C14:inclusion-extra-leaf", "an inclusion returns a value outside every included path", detail("path", lp, "result", enc(*res)))
				return
			}
		}
		for _, p := range incl {
			if hide && strings.Split(p, ".")[0] == "_id" {
				continue
			}
			if !sameValue(bsonkit.Get(res, p), bsonkit.Get(&doc, p)) {
				fail("C14:included-path-differs", "the result does not hold the stored value at an included path", detail("path", p, "result", enc(*res)))
				return
			}
		}
		idWant := bsonkit.Get(&doc, "_id")
		if hide {
			idWant = bsonkit.Missing
		}
		if !sameValue(bsonkit.Get(res, "_id"), idWant) {
			fail("C14:id-handling", "_id is not returned as requested", detail("result", enc(*res)))
		}
		return
	}
	// exclusion
	for _, p := range excl {
		got := bsonkit.Get(res, p)
		if isMissing(got) {
			continue
		}
		// an excluded array element is nulled, not removed (bsonkit.Unset)
		segs := strings.Split(p, ".")
		parent := bsonkit.Get(&doc, strings.Join(segs[:len(segs)-1], "."))
		if _, isArr := parent.(bson.A); isArr && got == nil && len(segs) > 1 {
			continue
		}
		fail("C14:excluded-path-present", "an excluded path is still present in the result", detail("path", p, "result", enc(*res)))
		return
	}
	// order preserved, nothing else removed at the top level
	var want []string
	for _, k := range topKeys(doc) {
		drop := (hide && k == "_id")
		for _, p := range excl {
			if p == k {
				drop = true
			}
		}
		if !drop {
			want = append(want, k)
		}
	}
	if strings.Join(want, "\x00") != strings.Join(topKeys(*res), "\x00") {
		fail("C14:exclusion-order", "an exclusion does not return the remaining fields in their stored order", detail("result", enc(*res)))
		return
	}
	// paths disjoint from every excluded path are unchanged
	var dleaves []string
	leafPaths(doc, "", &dleaves)
	for _, lp := range dleaves {
		ls := strings.Split(lp, ".")
		related := hide && ls[0] == "_id"
		for _, p := range excl {
			ps := normPath(p)
			if isPrefix(ps, normPath(lp)) || isPrefix(normPath(lp), ps) {
				related = true
			}
		}
		if !related && !sameValue(bsonkit.Get(res, lp), bsonkit.Get(&doc, lp)) {
			fail("C14:exclusion-changed-other", "an exclusion changed a path that was not excluded", detail("path", lp, "result", enc(*res)))
			return
		}
	}
}

// oracleC14Slice: projections with exactly one operator path, a single
// $slice, not running through any other projection key
func oracleC14Slice(doc, pr bson.D, res bsonkit.Doc, nInc int, fail func(string, string, map[string]interface{}), detail func(...interface{}) map[string]interface{}) {
	ops := operatorKeys(pr)
	if len(ops) != 1 || hasElemMatch(pr) {
		return
	}
	path := ops[0]
	var arg interface{}
	cnt := 0
	for _, e := range pr {
		if e.Key == path {
			cnt++
			if od, ok := e.Value.(bson.D); ok && len(od) == 1 && od[0].Key == "$slice" {
				arg = od[0].Value
			} else {
				return
			}
		} else if isPrefix(normPath(e.Key), normPath(path)) || isPrefix(normPath(path), normPath(e.Key)) {
			return
		}
	}
	if cnt != 1 || strings.Split(path, ".")[0] == "_id" {
		return
	}
	arr, ok := bsonkit.Get(&doc, path).(bson.A)
	if !ok {
		return
	}
	want, ok := expectedWindow(arr, arg)
	if !ok {
		return
	}
	if !sameValue(bsonkit.Get(res, path), want) {
		fail("C14:slice-window", "$slice does not return the specified window of the stored array", detail("path", path, "want", enc(want), "result", enc(*res)))
		return
	}
	// with no inclusion every other field is returned unchanged
	if nInc == 0 {
		var dleaves []string
		leafPaths(doc, "", &dleaves)
		excluded := map[string]bool{}
		hide := false
		for _, e := range pr {
			if !operatorEntry(e) && isExclusionValue(e.Value) {
				if e.Key == "_id" {
					hide = true
				}
				excluded[e.Key] = true
			}
		}
		for _, lp := range dleaves {
			related := (hide && strings.Split(lp, ".")[0] == "_id") || isPrefix(normPath(path), normPath(lp)) || isPrefix(normPath(lp), normPath(path))
			for p := range excluded {
				if isPrefix(normPath(p), normPath(lp)) || isPrefix(normPath(lp), normPath(p)) {
					related = true
				}
			}
			if !related && !sameValue(bsonkit.Get(res, lp), bsonkit.Get(&doc, lp)) {
				fail("C14:slice-changed-other", "a $slice projection changed a field it does not name", detail("path", lp, "result", enc(*res)))
				return
			}
		}
	}
}

// oracleC14ElemMatch: projections whose only operator entry is a single
// $elemMatch on a path unrelated to every other key: the result holds the
// first element accepted by mongokit.Match on {item: element} with the
// root-level form of the query, and nothing when no element is accepted.
func oracleC14ElemMatch(doc, pr bson.D, res bsonkit.Doc, st *oracleStats, fail func(string, string, map[string]interface{}), detail func(...interface{}) map[string]interface{}) {
	ops := operatorKeys(pr)
	if len(ops) != 1 {
		return
	}
	path := ops[0]
	var query bson.D
	cnt := 0
	for _, e := range pr {
		if e.Key == path {
			cnt++
			od, ok := e.Value.(bson.D)
			if !ok || len(od) != 1 || od[0].Key != "$elemMatch" {
				return
			}
			q, ok := od[0].Value.(bson.D)
			if !ok {
				return
			}
			query = q
		} else if isPrefix(normPath(e.Key), normPath(path)) || isPrefix(normPath(path), normPath(e.Key)) {
			return
		}
	}
	if cnt != 1 || strings.Split(path, ".")[0] == "_id" {
		return
	}
	arr, ok := bsonkit.Get(&doc, path).(bson.A)
	if !ok {
		return
	}
	var want interface{} = bsonkit.Missing
	rq := elemQuery(query)
	for _, item := range arr {
		virtual := bson.D{{Key: "item", Value: item}}
		ok, err := mongokit.Match(&virtual, &rq)
		if err != nil {
			fail("C14:elem-match-first", "$elemMatch projection succeeded although the condition fails on an element it had to test", detail("path", path, "result", enc(*res)))
			return
		}
		if ok {
			want = bson.A{item}
			break
		}
	}
	st.Dist["elemMatch:checked"]++
	if !sameValue(bsonkit.Get(res, path), want) {
		fail("C14:elem-match-first", "$elemMatch does not return the first matching element (or returns one when none matches)", detail("path", path, "want", enc(want), "result", enc(*res)))
	}
}

func oracleC14Driver(r *rng, st *oracleStats, fail func(string, string, map[string]interface{}), seen map[string]bool) {
	n := 1 + r.intn(3)
	docs := make([]bson.D, n)
	for i := range docs {
		docs[i] = genProjDoc(r, true, i+1)
	}
	pr := genProjection(r, docs[r.intn(n)], r.chance(1, 4))
	op := pick(r, projDBOps)
	oracleC14DriverCase(op, docs, pr, st, fail, seen)
}

func oracleC14DriverCase(op string, docs []bson.D, pr bson.D, st *oracleStats, fail func(string, string, map[string]interface{}), seen map[string]bool) {
	var sb strings.Builder
	for _, d := range docs {
		sb.WriteString(enc(d) + " ")
	}
	caseText := "(projectdb " + op + " (" + strings.TrimSpace(sb.String()) + ") " + enc(pr) + ")"
	detail := func(extra ...interface{}) map[string]interface{} {
		m := map[string]interface{}{"case": caseText}
		for i := 0; i+1 < len(extra); i += 2 {
			m[extra[i].(string)] = extra[i+1]
		}
		return m
	}
	st.Dist["driver:"+op]++
	coll := projFreshCollection(docs)
	defer coll.Drop(context.Background())
	before := projStored(coll)
	got, err, panicked := projDriverOpSafe(coll, op, pr)
	after := projStored(coll)
	// stored documents: unchanged, except for the update the call asked for
	want := make([]bson.D, len(before))
	copy(want, before)
	if op == "fau" && err == nil && !panicked {
		want[0] = append(cloneD(before[0]), bson.E{Key: "zz", Value: int32(1)})
	}
	changed := len(after) != len(want)
	for i := 0; !changed && i < len(want); i++ {
		if !bytes.Equal(marshalD(after[i]), marshalD(want[i])) {
			// a failed or panicking fau may or may not have applied its update
			if op == "fau" && (err != nil || panicked) && i == 0 &&
				bytes.Equal(marshalD(after[0]), marshalD(append(cloneD(before[0]), bson.E{Key: "zz", Value: int32(1)}))) {
				continue
			}
			changed = true
		}
	}
	if changed {
		sig := mutationSignature(pr)
		if sig == "C14:source-mutated" {
			sig = "C14:driver-stored-changed"
		}
		fail(sig, "a driver call with a projection changed the stored documents", detail("stored_after", encDocs(after, pr, false)))
		return
	}
	if err != nil || panicked {
		st.Dist["driver-outcome:err"]++
		return
	}
	st.Dist["driver-outcome:ok"]++
	if !seen[caseText] {
		seen[caseText] = true
		st.Nontrivial++
	}
	if orderDependent(pr) || multiOperator(pr) {
		return
	}
	// results equal the direct projection of the stored documents
	src := after
	if op != "find" {
		src = after[:1]
	}
	if len(got) != len(src) {
		fail("C14:driver-result-differs", "driver call returns a different number of documents than stored", detail("got", encDocs(got, pr, false)))
		return
	}
	for i := range src {
		d, p := cloneD(src[i]), cloneD(pr)
		dr, derr := mongokit.Project(&d, &p)
		if derr != nil || !bytes.Equal(marshalD(*dr), marshalD(got[i])) {
			fail("C14:driver-result-differs", "driver result differs from the projection of the stored document", detail("got", encDocs(got, pr, false)))
			return
		}
	}
	// later results: the same query again
	again, err, panicked := projDriverOpSafe(coll, "find", pr)
	if err != nil || panicked {
		// the projection may legitimately fail on another document of the
		// collection; after a successful Find it cannot
		if op == "find" {
			fail("C14:later-result-differs", "the same projection fails on a later query", detail())
		}
		return
	}
	for i := range src {
		if i < len(again) && op != "fau" && !bytes.Equal(marshalD(again[i]), marshalD(got[i])) {
			fail("C14:later-result-differs", "a later query with the same projection returns a different result", detail("got", encDocs(got, pr, false), "again", encDocs(again, pr, false)))
			return
		}
	}
	final := projStored(coll)
	for i := range final {
		if i < len(after) && !bytes.Equal(marshalD(final[i]), marshalD(after[i])) {
			sig := mutationSignature(pr)
			if sig == "C14:source-mutated" {
				sig = "C14:driver-stored-changed"
			}
			fail(sig, "a later query with a projection changed the stored documents", detail())
			return
		}
	}
}
