package main

// fam_apply.go — families `num` (bsonkit.Add / Mul / Mod) and `apply`
// (mongokit.Apply, mongokit.Extract) and the model-free oracles of C11.

import (
	"math"
	"sort"
	"strconv"
	"strings"
	"time"

	"go.mongodb.org/mongo-driver/bson"
	"go.mongodb.org/mongo-driver/bson/primitive"

	"github.com/256dpi/lungo/bsonkit"
	"github.com/256dpi/lungo/mongokit"
)

// ---------------------------------------------------------------------
// family num

var numInt32 = []int32{0, 1, -1, 2, 3, 7, -7, 10, 100, math.MaxInt32, math.MinInt32, math.MaxInt32 - 1, math.MinInt32 + 1, 1 << 30, 1 << 16, 46341, -46341, 65536}
var numInt64 = []int64{0, 1, -1, 2, 3, -3, 10, 1 << 31, -(1 << 31) - 1, 1 << 32, 1 << 53, 1<<53 + 1, 1<<53 - 1, 9007199254740993, math.MaxInt64, math.MinInt64, math.MaxInt64 - 1, math.MinInt64 + 1,
	1 << 62, 1 << 60, 3037000500, -3037000500, 1<<63 - 1024, 1<<63 - 513, 1<<63 - 512, 4611686018427387904, 1000000007}
var numFloat = []float64{0, math.Copysign(0, -1), 1, -1, 2, 0.5, 1.5, -2.5, 0.1, 0.2, 0.30000000000000004, 3, 10, 1e15, 1e16, 1 << 53, 1<<53 + 2, 1 << 63, -(1 << 63), 1 << 62,
	9223372036854774784, 1e300, -1e300, 1e308, 1.7976931348623157e308, 5e-324, 1e-323, 2.2250738585072014e-308, 2.2250738585072009e-308, 1e22, 1e23, 2147483648, 4294967296.5,
	math.NaN(), math.Inf(1), math.Inf(-1), 7, -7, 1e-10, 123456789.125}
var numDec = []string{"0", "-0", "0.0", "0E+10", "0E-10", "1", "1.0", "1.00", "-1", "2", "3", "-3", "7", "10", "1E+1", "0.1", "0.2", "0.5", "1.5", "-2.5",
	"NaN", "Infinity", "-Infinity", "9223372036854775807", "9223372036854775808", "-9223372036854775808", "2147483647", "2147483648",
	"1234567890123456789012345678901234", "9999999999999999999999999999999999", "-9999999999999999999999999999999999", "1000000000000000000000000000000000",
	"9.999999999999999999999999999999999", "0.1000000000000000055511151231257827", "1E-300", "1E+300", "1E+34", "1E+33", "1E-34", "12345678901234567", "99999999999999999", "1E+17", "3.3333333333333333",
	"1E+40", "1E-40", "123E+50", "0E+60", "0E-60"}

// extreme exponents make the exact model slow (10^12000 when aligning): drawn rarely
var numDecExtreme = []string{"1E+6000", "1E-6000", "1E+6111", "9.999999999999999999999999999999999E+6144", "1E-6176", "1E-6143", "5E-6176", "1E+3000", "-1E-3000", "0E+6111", "0E-6176"}

// non-canonical encodings: coefficient above 10^34-1, and the "11" combination form
var numDecRaw = [][2]uint64{{0x3040FFFFFFFFFFFF, 0xFFFFFFFFFFFFFFFF}, {0x6C10000000000000, 5}, {0xEC10000000000000, 7}, {0x3041ED09BEAD87C0, 0x378D8E6400000000}, {0x7C00000000000001, 2}, {0xF800000000000000, 0}}
var numDecRawExtreme = [][2]uint64{{0x6000000000000000, 5}, {0xE000000000000000, 7}, {0, 0}}

func genNumOperand(r *rng, kind int) interface{} {
	switch kind {
	case 0:
		if r.chance(1, 3) {
			return int32(pick(r, smallNums))
		}
		return pick(r, numInt32)
	case 1:
		if r.chance(1, 4) {
			return pick(r, smallNums)
		}
		return pick(r, numInt64)
	case 2:
		return pick(r, numFloat)
	case 3:
		if r.chance(1, 12) {
			w := pick(r, numDecRaw)
			return primitive.NewDecimal128(w[0], w[1])
		}
		if r.chance(1, 150) {
			if r.chance(1, 4) {
				w := pick(r, numDecRawExtreme)
				return primitive.NewDecimal128(w[0], w[1])
			}
			return mustDec(pick(r, numDecExtreme))
		}
		return mustDec(pick(r, numDec))
	default:
		return genScalar(r) // mostly non-numbers: Missing result
	}
}

// needsNewFromFloat: a double x decimal pair whose double is finite and
// non-zero goes through decimal.NewFromFloat, which the model does not cover.
func needsNewFromFloat(a, b interface{}) bool {
	fa, aF := a.(float64)
	fb, bF := b.(float64)
	_, aD := a.(primitive.Decimal128)
	_, bD := b.(primitive.Decimal128)
	fin := func(f float64) bool { return !math.IsNaN(f) && !math.IsInf(f, 0) && f != 0 }
	return (aF && bD && fin(fa)) || (aD && bF && fin(fb))
}

// zeroDivisor: the guard at the top of bsonkit.Mod
func zeroDivisor(b interface{}) bool {
	switch d := b.(type) {
	case int32:
		return d == 0
	case int64:
		return d == 0
	case primitive.Decimal128:
		bi, _, err := d.BigInt()
		return err == nil && bi.Sign() == 0
	}
	return false
}

func nonFiniteDecimal(v interface{}) bool {
	d, ok := v.(primitive.Decimal128)
	return ok && (d.IsNaN() || d.IsInf() != 0)
}

func nonFiniteNumber(v interface{}) bool {
	if f, ok := v.(float64); ok {
		return math.IsNaN(f) || math.IsInf(f, 0)
	}
	return nonFiniteDecimal(v)
}

func numKind(v interface{}) string {
	switch v.(type) {
	case int32:
		return "i32"
	case int64:
		return "i64"
	case float64:
		return "f64"
	case primitive.Decimal128:
		return "d128"
	}
	return "other"
}

func init() {
	register(&family{
		name: "num",
		gen: func(r *rng) string {
			op := pick(r, []string{"add", "add", "mul", "mul", "mod"})
			var a, b interface{}
			if op != "mod" && r.chance(1, 6) {
				// a NaN / infinite operand next to a Decimal128: every special value of both
				// types against every numeric type (zeros of all types, signs, other specials)
				special := pick(r, []interface{}{mustDec("NaN"), mustDec("Infinity"), mustDec("-Infinity"),
					math.NaN(), math.Inf(1), math.Inf(-1), primitive.NewDecimal128(0xFC00000000000000, 1), primitive.NewDecimal128(0x7E00000000000000, 0)})
				var partner interface{}
				switch r.intn(6) {
				case 0:
					partner = pick(r, []interface{}{int32(0), int32(5), int32(-5), int64(0), int64(7), int64(-7), int64(math.MinInt64)})
				case 1:
					partner = pick(r, []interface{}{0.0, math.Copysign(0, -1), 2.5, -2.5, math.NaN(), math.Inf(1), math.Inf(-1), 5e-324})
				default:
					partner = mustDec(pick(r, []string{"0", "-0", "0E+10", "-0.00", "1", "-1", "2.5", "-2.5", "NaN", "Infinity", "-Infinity", "1E+6111", "-1E-6176"}))
				}
				_, sd := special.(primitive.Decimal128)
				_, pd := partner.(primitive.Decimal128)
				if !sd && !pd {
					partner = mustDec(pick(r, []string{"0", "-0", "3", "-3", "NaN", "Infinity", "-Infinity"}))
				}
				if r.chance(1, 2) {
					special, partner = partner, special
				}
				return "(" + op + " " + enc(special) + " " + enc(partner) + ")"
			}
			for {
				ka, kb := r.intn(4), r.intn(4)
				if r.chance(1, 25) {
					ka = 4
				}
				if r.chance(1, 25) {
					kb = 4
				}
				a, b = genNumOperand(r, ka), genNumOperand(r, kb)
				// keep the unmodelled double x decimal pairs rare
				if needsNewFromFloat(a, b) && !r.chance(1, 3) {
					continue
				}
				break
			}
			return "(" + op + " " + enc(a) + " " + enc(b) + ")"
		},
		run: func(c *sx) string {
			a, b := decValue(c.list[1]), decValue(c.list[2])
			var res interface{}
			switch c.list[0].atom {
			case "add":
				res = bsonkit.Add(a, b)
			case "mul":
				res = bsonkit.Mul(a, b)
			case "mod":
				res = bsonkit.Mod(a, b)
			default:
				return "BAD-CASE"
			}
			if needsNewFromFloat(a, b) && !(c.list[0].atom == "mod" && zeroDivisor(b)) &&
				!(c.list[0].atom != "mod" && (nonFiniteDecimal(a) || nonFiniteDecimal(b))) {
				// (the zero-divisor guard of Mod answers Missing before any conversion; in Add / Mul a
				// NaN / infinite Decimal128 partner decides the result before any conversion)
				return "UNMODELLED"
			}
			return enc(res)
		},
		classify: func(c *sx, obs string) ([]string, bool) {
			a, b := decValue(c.list[1]), decValue(c.list[2])
			op := c.list[0].atom
			kind := "value"
			switch {
			case obs == "M":
				kind = "missing"
			case obs == "UNMODELLED":
				kind = "unmodelled"
			case obs == "PANIC":
				kind = "panic"
			case obs == "(d 0 0)":
				kind = "dec-zero-value"
			case strings.HasPrefix(obs, "(f ") && isNaNBits(obs):
				kind = "nan"
			}
			return []string{"op:" + op, op + ":" + numKind(a) + "x" + numKind(b), op + ":" + kind}, true
		},
	})
}

func isNaNBits(obs string) bool {
	c, err := parseSx(obs)
	if err != nil || !c.isL || len(c.list) != 2 {
		return false
	}
	return math.IsNaN(math.Float64frombits(atou64(c.list[1].atom)))
}

// ---------------------------------------------------------------------
// family apply

// matcherModelled: false while coq/Model/Apply.v instantiates the matcher with
// a stub (the_matcher := stub_match, matcher_stubbed = true).  Set it to true
// together with those two definitions when Model/Match.v is plugged in.  Updates that can reach mongokit.Match
// ($pull with a document argument, non-empty arrayFilters) are then printed
// as UNMODELLED on both sides.
const matcherModelled = true

type pathInfo struct {
	path string
	val  interface{}
}

func collectPaths(v interface{}, prefix string, depth int, out *[]pathInfo) {
	join := func(k string) string {
		if prefix == "" {
			return k
		}
		return prefix + "." + k
	}
	if depth <= 0 {
		return
	}
	switch x := v.(type) {
	case bson.D:
		for _, e := range x {
			*out = append(*out, pathInfo{join(e.Key), e.Value})
			collectPaths(e.Value, join(e.Key), depth-1, out)
		}
	case bson.A:
		for i, e := range x {
			if i >= 3 {
				break
			}
			*out = append(*out, pathInfo{join(strconv.Itoa(i)), e})
			collectPaths(e, join(strconv.Itoa(i)), depth-1, out)
		}
	}
}

func isNum(v interface{}) bool {
	switch v.(type) {
	case int32, int64, float64, primitive.Decimal128:
		return true
	}
	return false
}

// genApplyValue: values of documents under update: numbers, arrays of small
// scalars (shared elements), arrays of sub-documents, nested documents.
func genApplyValue(r *rng, depth int) interface{} {
	switch r.intn(10) {
	case 0, 1, 2:
		return genNumber(r)
	case 3, 4:
		n := r.intn(5)
		a := bson.A{}
		for i := 0; i < n; i++ {
			if r.chance(4, 5) {
				a = append(a, genSmall(r))
			} else {
				a = append(a, genValue(r, 1))
			}
		}
		return a
	case 5:
		if depth > 0 {
			n := r.intn(4)
			a := bson.A{}
			for i := 0; i < n; i++ {
				if r.chance(5, 6) {
					a = append(a, genApplyDoc(r, depth-1, false))
				} else {
					a = append(a, genSmall(r))
				}
			}
			return a
		}
		return genScalar(r)
	case 6, 7:
		if depth > 0 {
			return genApplyDoc(r, depth-1, false)
		}
		return genScalar(r)
	default:
		return genValue(r, depth)
	}
}

// genSmall: the small numbers in all four types, short strings, null
func genSmall(r *rng) interface{} {
	switch r.intn(8) {
	case 0:
		return pick(r, poolStr)
	case 1:
		return nil
	default:
		n := pick(r, smallNums)
		switch r.intn(5) {
		case 0:
			return n
		case 1:
			return float64(n)
		case 2:
			return primitive.NewDecimal128(decBits(n))
		default:
			return int32(n)
		}
	}
}

func genApplyDoc(r *rng, depth int, withID bool) bson.D {
	n := 1 + r.intn(4)
	d := bson.D{}
	used := map[string]bool{}
	if withID {
		d = append(d, bson.E{Key: "_id", Value: genScalar(r)})
		used["_id"] = true
	}
	for i := 0; i < n; i++ {
		k := pick(r, poolKeys)
		if used[k] || k == "_id" {
			continue
		}
		used[k] = true
		d = append(d, bson.E{Key: k, Value: genApplyValue(r, depth)})
	}
	return d
}

var oddOperators = []string{"$", "$[", "$[x", "$x", "$[]]", "$[a.b]"}

// genUpdatePath: a path for an operator that prefers targets of kind `want`
// ("array", "number", ""), then possibly an extension to a missing field or
// an index at / beyond the end, then possibly a positional form.
func genUpdatePath(r *rng, d bson.D, want string, usesID *bool) string {
	var all []pathInfo
	collectPaths(d, "", 4, &all)
	var cands []pathInfo
	for _, p := range all {
		switch want {
		case "array":
			if _, ok := p.val.(bson.A); ok {
				cands = append(cands, p)
			}
		case "number":
			if isNum(p.val) {
				cands = append(cands, p)
			}
		case "noindex":
			if !bsonkit.IndexedPath(p.path) {
				cands = append(cands, p)
			}
		case "int":
			switch p.val.(type) {
			case int32, int64:
				cands = append(cands, p)
			}
		default:
			cands = append(cands, p)
		}
	}
	var path string
	var val interface{} = bsonkit.Missing
	newKey := func() {
		// a field that does not exist yet: top level, or below an embedded document
		var docs []pathInfo
		for _, p := range all {
			if _, ok := p.val.(bson.D); ok {
				docs = append(docs, p)
			}
		}
		base := ""
		if len(docs) > 0 && r.chance(1, 2) {
			base = docs[r.intn(len(docs))].path + "."
		}
		path = base + pick(r, []string{"n", "m", "k"})
		for try := 0; try < 4; try++ {
			k := pick(r, []string{"n", "m", "k", "a", "b", "c", "x"})
			if bsonkit.Get(&d, base+k) == bsonkit.Missing {
				path = base + k
				break
			}
		}
		if r.chance(1, 4) {
			path += "." + pick(r, poolKeys)
		}
		val = bsonkit.Get(&d, path)
	}
	switch c := r.intn(20); {
	case c < 14:
		if len(cands) > 0 {
			pi := cands[r.intn(len(cands))]
			path, val = pi.path, pi.val
		} else {
			newKey()
		}
	case c < 16:
		newKey()
	case c < 18 && len(all) > 0:
		pi := all[r.intn(len(all))]
		path, val = pi.path, pi.val
	default:
		path = genPath(r, d)
		val = bsonkit.Get(&d, path)
	}
	// extension below the chosen value
	if r.chance(1, 8) {
		switch x := val.(type) {
		case bson.A:
			path += "." + strconv.Itoa(len(x)+r.intn(3)-1+boolInt(len(x) == 0))
		case bson.D:
			path += "." + pick(r, poolKeys)
		default:
			if r.chance(1, 3) {
				path += "." + pick(r, poolKeys) // below a scalar / missing
			}
		}
		val = bsonkit.Missing
	}
	// positional forms
	if r.chance(1, 5) {
		segs := strings.Split(path, ".")
		var idx []int
		for i := 1; i < len(segs); i++ {
			if _, ok := bsonkit.Get(&d, strings.Join(segs[:i], ".")).(bson.A); ok {
				if _, isIdx := bsonkit.ParseIndex(segs[i]); isIdx {
					idx = append(idx, i)
				}
			}
		}
		op := "$[]"
		if r.chance(1, 7) {
			op = "$[" + pick(r, []string{"x", "y", "el"}) + "]"
			*usesID = true
		} else if r.chance(1, 15) {
			op = pick(r, oddOperators)
		}
		switch {
		case len(idx) > 0 && r.chance(3, 4):
			for _, i := range idx {
				if r.chance(2, 3) {
					segs[i] = op
				}
			}
			path = strings.Join(segs, ".")
		default:
			if _, ok := val.(bson.A); ok || r.chance(1, 12) {
				path += "." + op
				if r.chance(1, 3) {
					path += "." + pick(r, poolKeys)
				}
			} else if r.chance(1, 25) {
				path = op + "." + path
			}
		}
	}
	if r.chance(1, 60) {
		path = pick(r, []string{"", "a.", ".a", "a..b", "a$b.c", "ab$[].c", "a.$[].", "a.b$[]"})
	}
	return path
}

func boolInt(b bool) int {
	if b {
		return 1
	}
	return 0
}

var updateOperators = []string{"$set", "$setOnInsert", "$unset", "$rename", "$inc", "$mul", "$min", "$max", "$currentDate", "$push", "$pop", "$pull", "$pullAll", "$addToSet", "$bit"}

func opWants(op string) string {
	switch op {
	case "$inc", "$mul":
		return "number"
	case "$bit":
		return "int"
	case "$rename":
		return "noindex"
	case "$push", "$pop", "$pull", "$pullAll", "$addToSet":
		return "array"
	}
	return ""
}

func genSmallArray(r *rng, near interface{}) bson.A {
	a := bson.A{}
	if arr, ok := near.(bson.A); ok {
		for _, x := range arr {
			if r.chance(1, 2) {
				a = append(a, mutate(r, x))
			}
		}
	}
	for n := r.intn(3); n > 0; n-- {
		a = append(a, genSmall(r))
	}
	return a
}

func genIntLike(r *rng, vals []int64) interface{} {
	n := pick(r, vals)
	switch r.intn(4) {
	case 0:
		return n
	case 1:
		return float64(n)
	default:
		return int32(n)
	}
}

// genOpArg: the argument of one operator invocation; `cur` is the value at the
// (non-positional reading of the) path.  About 15% are ill-typed.
func genOpArg(r *rng, op string, cur interface{}, d bson.D) interface{} {
	ill := r.chance(2, 25)
	if cur == bsonkit.Missing || cur == nil && r.chance(1, 2) {
		cur = genSmall(r)
	}
	switch op {
	case "$set", "$setOnInsert":
		if r.chance(1, 4) {
			return mutate(r, cur)
		}
		return genApplyValue(r, 2)
	case "$unset":
		return pick(r, []interface{}{"", int32(1), true, nil})
	case "$rename":
		if ill {
			return pick(r, []interface{}{int32(1), nil, bson.D{}, bson.A{}})
		}
		switch r.intn(6) {
		case 0:
			return genPath(r, d)
		case 1:
			return pick(r, poolKeys) + "." + pick(r, poolKeys)
		case 2:
			return pick(r, []string{"a", "b", "c", "x", "a.b", "b.c", "x.y", "a.0", "a.b.c", "", "c."})
		default:
			return pick(r, []string{"y", "z", "w", "y.z", "n.m", "a.y", "b.z", "x.w"})
		}
	case "$inc", "$mul":
		if ill {
			return pick(r, []interface{}{"1", nil, true, bson.A{int32(1)}, bson.D{}})
		}
		if r.chance(1, 3) {
			return genNumOperand(r, r.intn(4))
		}
		return genNumber(r)
	case "$min", "$max":
		switch r.intn(3) {
		case 0:
			return mutate(r, cur)
		case 1:
			return genSmall(r)
		default:
			return genApplyValue(r, 1)
		}
	case "$currentDate":
		if ill {
			return pick(r, []interface{}{int32(1), "date", bson.D{{Key: "$type", Value: "x"}}, bson.D{{Key: "$type", Value: int32(1)}}, bson.D{}, bson.D{{Key: "$type", Value: "date"}, {Key: "x", Value: int32(1)}}, bson.D{{Key: "type", Value: "date"}}, nil})
		}
		return pick(r, []interface{}{true, true, false, bson.D{{Key: "$type", Value: "date"}}, bson.D{{Key: "$type", Value: "timestamp"}}})
	case "$push":
		if r.chance(2, 5) {
			switch r.intn(4) {
			case 0:
				return genSmall(r)
			case 1:
				return mutate(r, cur)
			case 2:
				return genApplyDoc(r, 1, false) // a document without $each is one value
			default:
				return genValue(r, 1)
			}
		}
		spec := bson.D{}
		var each interface{} = genSmallArray(r, cur)
		if r.chance(1, 4) {
			n := r.intn(3)
			a := bson.A{}
			for i := 0; i < n; i++ {
				a = append(a, genApplyDoc(r, 1, false))
			}
			each = a
		}
		if ill && r.chance(1, 3) {
			each = pick(r, []interface{}{int32(1), nil, bson.D{}})
		}
		spec = append(spec, bson.E{Key: "$each", Value: each})
		if r.chance(1, 2) {
			var p interface{} = genIntLike(r, []int64{0, 1, 2, -1, -2, 100, -100, 3})
			if ill && r.chance(1, 3) {
				p = pick(r, []interface{}{"1", 1.5, math.NaN(), math.Inf(1), 1e300, nil, mustDec("1"), float64(1 << 63), -float64(1 << 63), int64(math.MinInt64)})
			}
			spec = append(spec, bson.E{Key: "$position", Value: p})
		}
		if r.chance(1, 2) {
			var s interface{} = genIntLike(r, []int64{1, -1})
			if r.chance(1, 3) {
				sd := bson.D{}
				for n := 1 + r.intn(2); n > 0; n-- {
					sd = append(sd, bson.E{Key: pick(r, []string{"a", "b", "c", "x", "a.b", "0"}), Value: genIntLike(r, []int64{1, -1})})
				}
				if ill && r.chance(1, 2) {
					sd = append(sd, bson.E{Key: "b", Value: pick(r, []interface{}{int32(2), "1", int32(0), 0.5})})
				}
				if r.chance(1, 20) {
					sd = bson.D{}
				}
				s = sd
			}
			if ill && r.chance(1, 3) {
				s = pick(r, []interface{}{int32(0), int32(2), "1", 1.5, nil, bson.A{}, true, math.NaN()})
			}
			spec = append(spec, bson.E{Key: "$sort", Value: s})
		}
		if r.chance(1, 2) {
			var s interface{} = genIntLike(r, []int64{0, 1, 2, 3, -1, -2, -3, 10, -10})
			if ill && r.chance(1, 3) {
				s = pick(r, []interface{}{"1", 1.5, nil, true, math.Inf(-1), int64(math.MaxInt64), int64(math.MinInt64 + 1)})
			}
			if r.chance(1, 150) {
				s = int64(math.MinInt64) // Go: slice bounds out of range (panic)
			}
			spec = append(spec, bson.E{Key: "$slice", Value: s})
		}
		if ill && r.chance(1, 3) {
			spec = append(spec, bson.E{Key: pick(r, []string{"$bad", "x", "$Each"}), Value: int32(1)})
		}
		if r.chance(1, 5) {
			r2 := r.intn(len(spec))
			spec[0], spec[r2] = spec[r2], spec[0]
		}
		return spec
	case "$pop":
		if ill {
			return pick(r, []interface{}{int32(0), int32(2), "1", nil, true, 1.5, bson.D{}})
		}
		return pick(r, []interface{}{int32(1), int32(-1), int64(1), int64(-1), 1.0, -1.0, primitive.NewDecimal128(decBits(1)), mustDec("-1.0")})
	case "$pull":
		if r.chance(1, 14) {
			// condition documents reach the matcher
			return pick(r, []interface{}{bson.D{{Key: "$gt", Value: int32(1)}}, bson.D{{Key: "a", Value: int32(1)}}, bson.D{}, bson.D{{Key: "$in", Value: bson.A{int32(1), int32(2)}}}})
		}
		if arr, ok := cur.(bson.A); ok && len(arr) > 0 && r.chance(3, 5) {
			x := arr[r.intn(len(arr))]
			if _, isDoc := x.(bson.D); !isDoc {
				return mutate(r, x)
			}
		}
		if r.chance(1, 5) {
			return genSmallArray(r, nil)
		}
		return genSmall(r)
	case "$pullAll":
		if ill {
			return pick(r, []interface{}{int32(1), nil, "a", bson.D{}})
		}
		return genSmallArray(r, cur)
	case "$addToSet":
		if r.chance(1, 2) {
			if arr, ok := cur.(bson.A); ok && len(arr) > 0 && r.chance(1, 2) {
				return mutate(r, arr[r.intn(len(arr))])
			}
			if r.chance(1, 4) {
				return genApplyValue(r, 1)
			}
			return genSmall(r)
		}
		spec := bson.D{{Key: "$each", Value: genSmallArray(r, cur)}}
		if ill {
			switch r.intn(3) {
			case 0:
				spec[0].Value = pick(r, []interface{}{int32(1), nil, bson.D{}})
			case 1:
				spec = append(spec, bson.E{Key: "$position", Value: int32(0)})
			default:
				spec = append(bson.D{{Key: "x", Value: int32(1)}}, spec...)
			}
		}
		return spec
	case "$bit":
		if ill {
			return pick(r, []interface{}{int32(5), nil, bson.D{}, bson.D{{Key: "and", Value: 1.5}}, bson.D{{Key: "nand", Value: int32(1)}}, bson.D{{Key: "and", Value: int32(1)}, {Key: "or", Value: int32(2)}}, bson.D{{Key: "or", Value: "1"}}, bson.D{{Key: "$and", Value: int32(1)}}})
		}
		var operand interface{}
		if r.chance(1, 2) {
			operand = pick(r, []int32{0, 1, 3, 5, 255, -1, math.MaxInt32, math.MinInt32, 0x0f0f0f0f})
		} else {
			operand = pick(r, []int64{0, 1, 6, 1 << 40, -1, math.MaxInt64, math.MinInt64, 0x0f0f0f0f0f0f0f0f, 1 << 31})
		}
		return bson.D{{Key: pick(r, []string{"and", "or", "xor"}), Value: operand}}
	}
	return nil
}

func genUpdate(r *rng, d bson.D) (bson.D, bsonkit.List) {
	nops := pick(r, []int{1, 1, 1, 1, 2, 2, 2, 3, 3})
	if r.chance(1, 100) {
		nops = 0
	}
	u := bson.D{}
	usesID := false
	var used []string
	conflicts := func(p string) bool {
		for _, q := range used {
			if p == q || strings.HasPrefix(p, q+".") || strings.HasPrefix(q, p+".") {
				return true
			}
		}
		return false
	}
	for i := 0; i < nops; i++ {
		op := pick(r, updateOperators)
		npaths := 1
		if r.chance(1, 3) {
			npaths = 2
		}
		if r.chance(1, 30) {
			npaths = 0
		}
		pairs := bson.D{}
		for j := 0; j < npaths; j++ {
			p := genUpdatePath(r, d, opWants(op), &usesID)
			for try := 0; try < 6 && conflicts(p) && !r.chance(1, 12); try++ {
				p = genUpdatePath(r, d, opWants(op), &usesID)
			}
			used = append(used, p)
			plain := strings.ReplaceAll(strings.ReplaceAll(p, "$[]", "0"), "$[x]", "0")
			cur := bsonkit.Get(&d, plain)
			pairs = append(pairs, bson.E{Key: p, Value: genOpArg(r, op, cur, d)})
		}
		var arg interface{} = pairs
		if r.chance(1, 50) {
			arg = pick(r, []interface{}{int32(1), nil, bson.A{}, "a"})
		}
		if r.chance(1, 60) {
			op = pick(r, []string{"$foo", "a", "", "$", "set"})
		}
		u = append(u, bson.E{Key: op, Value: arg})
	}
	if r.chance(1, 7) {
		u = injectRelatedPath(r, d, u)
	}
	var filters bsonkit.List
	if usesID && r.chance(1, 2) || r.chance(1, 50) {
		n := 1 + r.intn(2)
		for i := 0; i < n; i++ {
			f := bson.D{{Key: pick(r, []string{"x", "y", "el", "x.a", "z"}), Value: pick(r, []interface{}{int32(1), bson.D{{Key: "$gt", Value: int32(0)}}, "a"})}}
			filters = append(filters, &f)
		}
	}
	return u, filters
}

// relatedPath: a path in conflict (or nearly in conflict) with p: equal, a
// prefix, an extension, a positional operator where p has a fixed segment or
// the other way round, a different array filter, an aliasing index, a sibling.
func relatedPath(r *rng, p string) string {
	segs := strings.Split(p, ".")
	switch r.intn(10) {
	case 0:
		return p
	case 1:
		if len(segs) > 1 {
			return strings.Join(segs[:1+r.intn(len(segs)-1)], ".")
		}
		return p
	case 2:
		return p + "." + pick(r, []string{"a", "b", "x", "0", "1", "$[]"})
	case 3, 4:
		// swap fixed <-> positional at one position
		i := r.intn(len(segs))
		c := append([]string{}, segs...)
		if strings.HasPrefix(c[i], "$") {
			c[i] = pick(r, []string{"0", "1", "b"})
		} else if i > 0 {
			c[i] = pick(r, []string{"$[]", "$[]", "$[x]"})
		}
		if r.chance(1, 2) {
			c = append(c, pick(r, poolKeys))
		} else if len(c) > i+1 && r.chance(1, 2) {
			c[len(c)-1] = pick(r, []string{"y", "z"})
		}
		return strings.Join(c, ".")
	case 5:
		// different positional operator at the same position
		c := append([]string{}, segs...)
		for i := range c {
			if strings.HasPrefix(c[i], "$") {
				c[i] = pick(r, []string{"$[]", "$[x]", "$[y]"})
			}
		}
		return strings.Join(c, ".")
	case 6:
		// aliasing index segment
		c := append([]string{}, segs...)
		for i := range c {
			if n, err := strconv.Atoi(c[i]); err == nil {
				c[i] = pick(r, []string{"0" + strconv.Itoa(n), "+" + strconv.Itoa(n), strconv.Itoa(n + 1)})
			}
		}
		return strings.Join(c, ".")
	case 8:
		// the array element itself through ANOTHER positional operator: a prefix that
		// ends in a different operator at the same position ("a.$[x].v" and "a.$[y]"):
		// invisible to the static check, caught only when the changes are recorded
		for i := range segs {
			if strings.HasPrefix(segs[i], "$[") && i+1 < len(segs) {
				c := append([]string{}, segs[:i+1]...)
				c[i] = pick(r, []string{"$[]", "$[x]", "$[y]", "$[el]"})
				return strings.Join(c, ".")
			}
		}
		return p
	case 7:
		// sibling: same parent, other last segment
		c := append([]string{}, segs...)
		c[len(c)-1] = pick(r, []string{"a", "b", "y", "0", "2"})
		return strings.Join(c, ".")
	default:
		if len(segs) > 1 {
			return strings.Join(segs[:len(segs)-1], ".")
		}
		return p + ".k"
	}
}

// injectRelatedPath adds one more operator invocation whose path is related
// to a path the update already names: in the same operator document (also as
// a duplicate key), in another operator (often $setOnInsert, which is inert
// without upsert, or a no-op), or as the TARGET of a $rename.
func injectRelatedPath(r *rng, d bson.D, u bson.D) bson.D {
	var named []string
	for _, e := range u {
		if pairs, ok := e.Value.(bson.D); ok {
			for _, p := range pairs {
				named = append(named, p.Key)
				if t, ok := p.Value.(string); ok && e.Key == "$rename" {
					named = append(named, t)
				}
			}
		}
	}
	if len(named) == 0 {
		return u
	}
	q := relatedPath(r, pick(r, named))
	cur := bsonkit.Get(&d, strings.ReplaceAll(strings.ReplaceAll(q, "$[]", "0"), "$[x]", "0"))
	switch r.intn(5) {
	case 0:
		// inside an existing operator document
		i := r.intn(len(u))
		if pairs, ok := u[i].Value.(bson.D); ok {
			u[i].Value = append(append(bson.D{}, pairs...), bson.E{Key: q, Value: genOpArg(r, u[i].Key, cur, d)})
			return u
		}
		fallthrough
	case 1:
		// as the target of a $rename of some other (possibly missing) field
		src := pick(r, []string{"k", "n", "c", "x", "b"})
		return append(u, bson.E{Key: "$rename", Value: bson.D{{Key: src, Value: q}}})
	case 2:
		return append(u, bson.E{Key: "$setOnInsert", Value: bson.D{{Key: q, Value: genSmall(r)}}})
	case 3:
		// a likely no-op: $max with a very small value, $pull of an absent value, $unset of a missing field
		op := pick(r, []string{"$max", "$pull", "$unset", "$min"})
		var arg interface{} = primitive.MinKey{}
		switch op {
		case "$max":
			arg = nil
		case "$min":
			arg = primitive.Regex{Pattern: "zz"}
		case "$pull":
			arg = "no-such-element"
		default:
			arg = ""
		}
		return append(bson.D{{Key: op, Value: bson.D{{Key: q, Value: arg}}}}, u...)
	default:
		op := pick(r, updateOperators)
		return append(u, bson.E{Key: op, Value: bson.D{{Key: q, Value: genOpArg(r, op, cur, d)}}})
	}
}

// needsMatcher: the syntactic class that can reach mongokit.Match
func needsMatcher(u bson.D, filters bsonkit.List) bool {
	if len(filters) > 0 {
		return true
	}
	for _, e := range u {
		if e.Key != "$pull" {
			continue
		}
		if pairs, ok := e.Value.(bson.D); ok {
			for _, p := range pairs {
				if _, isDoc := p.Value.(bson.D); isDoc {
					return true
				}
			}
		}
	}
	return false
}

func hasKind(v interface{}, k func(interface{}) bool) bool {
	switch x := v.(type) {
	case bson.D:
		for _, e := range x {
			if hasKind(e.Value, k) {
				return true
			}
		}
		return false
	case bson.A:
		for _, e := range x {
			if hasKind(e, k) {
				return true
			}
		}
		return false
	}
	return k(v)
}

func isDouble(v interface{}) bool  { _, ok := v.(float64); return ok }
func isDecimal(v interface{}) bool { _, ok := v.(primitive.Decimal128); return ok }

// mixedArith: $inc / $mul may combine a double with a Decimal128
// (decimal.NewFromFloat is not modelled): same conservative syntactic class
// as mixed_arith in coq/Model/RunApply.v.
func mixedArith(d, u bson.D) bool {
	dbl := hasKind(d, isDouble) || hasKind(u, isDouble)
	dcm := hasKind(d, isDecimal) || hasKind(u, isDecimal)
	for _, e := range u {
		if e.Key != "$inc" && e.Key != "$mul" {
			continue
		}
		if pairs, ok := e.Value.(bson.D); ok {
			for _, p := range pairs {
				if nonFiniteNumber(p.Value) {
					continue // a NaN / infinite argument never reaches decimal.NewFromFloat
				}
				if isDecimal(p.Value) && dbl || isDouble(p.Value) && dcm {
					return true
				}
			}
		}
	}
	return false
}

// canonDates replaces the products of $currentDate (dates / timestamps inside
// the measured window) by the case's `now` token.
func canonDates(v interface{}, t0, t1, now int64) interface{} {
	switch x := v.(type) {
	case primitive.DateTime:
		if int64(x) >= t0 && int64(x) <= t1 {
			return primitive.DateTime(now)
		}
	case primitive.Timestamp:
		if int64(x.T) >= t0/1000 && int64(x.T) <= t1/1000+1 {
			return primitive.Timestamp{T: uint32(now / 1000), I: 1}
		}
	case bson.D:
		out := make(bson.D, len(x))
		for i, e := range x {
			out[i] = bson.E{Key: e.Key, Value: canonDates(e.Value, t0, t1, now)}
		}
		return out
	case bson.A:
		out := make(bson.A, len(x))
		for i, e := range x {
			out[i] = canonDates(e, t0, t1, now)
		}
		return out
	}
	return v
}

func encChanges(ch map[string]interface{}, t0, t1, now int64) string {
	keys := make([]string, 0, len(ch))
	for k := range ch {
		keys = append(keys, k)
	}
	sort.Strings(keys)
	var sb strings.Builder
	sb.WriteString("(")
	for i, k := range keys {
		if i > 0 {
			sb.WriteString(" ")
		}
		sb.WriteString("(" + hx(k) + " " + enc(canonDates(ch[k], t0, t1, now)) + ")")
	}
	sb.WriteString(")")
	return sb.String()
}

type applyCase struct {
	doc, query, update bsonkit.Doc
	upsert             bool
	filters            bsonkit.List
	now                int64
}

func decApplyCase(c *sx) applyCase {
	ac := applyCase{doc: decDoc(c.list[1]), query: decDoc(c.list[2]), update: decDoc(c.list[3]), upsert: c.list[4].atom == "T", now: atoi64(c.list[6].atom)}
	for _, f := range c.list[5].list {
		ac.filters = append(ac.filters, decDoc(f))
	}
	return ac
}

func encApplyCase(d, q, u bson.D, upsert bool, filters bsonkit.List, now int64) string {
	return "(apply " + enc(d) + " " + enc(q) + " " + enc(u) + " " + tf(upsert) + " " + encList(filters) + " " + strconv.FormatInt(now, 10) + ")"
}

func runApply(ac applyCase) string {
	unmodelled := !matcherModelled && needsMatcher(*ac.update, ac.filters) || mixedArith(*ac.doc, *ac.update)
	t0 := time.Now().UnixMilli()
	var ch *mongokit.Changes
	var err error
	panicked := false
	func() {
		defer func() {
			if p := recover(); p != nil {
				panicked = true
			}
		}()
		ch, err = mongokit.Apply(ac.doc, ac.query, ac.update, ac.upsert, ac.filters)
	}()
	t1 := time.Now().UnixMilli()
	if unmodelled {
		return "UNMODELLED"
	}
	if panicked {
		return "PANIC"
	}
	if err != nil {
		return "ERR"
	}
	return "(" + enc(canonDates(*ac.doc, t0, t1, ac.now)) + " " + encChanges(ch.Changed, t0, t1, ac.now) + ")"
}

// genOverlapCase: two paths through one array with two DIFFERENT positional
// identifiers ("a.$[x].v" next to "a.$[y]"): the static conflict check cannot
// see an overlap, it shows only when both filters select a common element and
// both invocations record a change. Order (deeper first or not), operators and
// the overlap itself vary.
func genOverlapCase(r *rng) string {
	elems := bson.A{}
	n := 2 + r.intn(2)
	for i := 0; i < n; i++ {
		elems = append(elems, bson.D{{Key: "k", Value: int32(i + 1)}, {Key: "v", Value: int32(0)}})
	}
	d := bson.D{{Key: "_id", Value: int32(1)}, {Key: "a", Value: elems}, {Key: "z", Value: "tail"}}
	deep := bson.E{Key: "a.$[x].v", Value: int32(9)}
	var whole bson.E
	var opWhole string
	switch r.intn(3) {
	case 0:
		opWhole, whole = "$set", bson.E{Key: "a.$[y]", Value: bson.D{{Key: "k", Value: int32(1)}, {Key: "w", Value: int32(9)}}}
	case 1:
		opWhole, whole = "$unset", bson.E{Key: "a.$[y]", Value: ""}
	default:
		opWhole, whole = "$set", bson.E{Key: "a.$[y].w", Value: int32(5)} // a sibling below the element: no conflict
	}
	opDeep := pick(r, []string{"$set", "$inc", "$max"})
	var u bson.D
	if opDeep == opWhole {
		pairs := bson.D{deep, whole}
		if r.chance(1, 2) {
			pairs = bson.D{whole, deep}
		}
		u = bson.D{{Key: opDeep, Value: pairs}}
	} else if r.chance(1, 2) {
		u = bson.D{{Key: opDeep, Value: bson.D{deep}}, {Key: opWhole, Value: bson.D{whole}}}
	} else {
		u = bson.D{{Key: opWhole, Value: bson.D{whole}}, {Key: opDeep, Value: bson.D{deep}}}
	}
	fx := bson.D{{Key: "x.k", Value: int32(1 + r.intn(2))}}
	fy := bson.D{{Key: "y.k", Value: pick(r, []interface{}{int32(1), int32(2), bson.D{{Key: "$gte", Value: int32(1)}}, int32(7)})}}
	return encApplyCase(d, bson.D{}, u, false, bsonkit.List{&fx, &fy}, 1800000000000)
}

func genApplyCase(r *rng) string {
	if r.chance(1, 60) {
		return genOverlapCase(r)
	}
	d := genApplyDoc(r, 2, r.chance(1, 3))
	u, filters := genUpdate(r, d)
	for try := 0; try < 4 && mixedArith(d, u) && !r.chance(1, 8); try++ {
		u, filters = genUpdate(r, d)
	}
	q := bson.D{}
	if r.chance(1, 4) {
		q = genDocD(r, 1, false)
	}
	return encApplyCase(d, q, u, r.chance(1, 3), filters, 1800000000000+int64(r.intn(100000)))
}

func init() {
	register(&family{
		name: "apply",
		gen: func(r *rng) string {
			if r.chance(1, 25) {
				return "(extract " + enc(genExtractQuery(r, 2)) + ")"
			}
			return genApplyCase(r)
		},
		run: func(c *sx) string {
			if c.list[0].atom == "extract" {
				d, err := mongokit.Extract(decDoc(c.list[1]))
				if err != nil {
					return "ERR"
				}
				return enc(*d)
			}
			return runApply(decApplyCase(c))
		},
		classify: func(c *sx, obs string) ([]string, bool) {
			if c.list[0].atom == "extract" {
				if obs == "ERR" {
					return []string{"extract:err"}, true
				}
				return []string{"extract:ok"}, obs != "(D)"
			}
			ac := decApplyCase(c)
			outcome := "ok"
			switch obs {
			case "ERR":
				outcome = "err"
			case "UNMODELLED":
				outcome = "unmodelled"
			case "PANIC":
				outcome = "panic"
			case "HANG":
				outcome = "hang"
			}
			labels := []string{"outcome:" + outcome, "ops:" + strconv.Itoa(len(*ac.update))}
			positional, paths := false, 0
			for _, e := range *ac.update {
				labels = append(labels, e.Key+":"+outcome)
				if pairs, ok := e.Value.(bson.D); ok {
					for _, p := range pairs {
						paths++
						if strings.Contains(p.Key, "$") {
							positional = true
						}
					}
				}
			}
			if positional {
				labels = append(labels, "positional:"+outcome)
			}
			if _, _, c := staticConflict(*ac.update); c {
				labels = append(labels, "static-conflict:"+outcome)
			}
			if ac.upsert {
				labels = append(labels, "upsert")
			}
			nontrivial := outcome == "err"
			if outcome == "ok" {
				if strings.HasSuffix(obs, " ())") {
					labels = append(labels, "ok:no-change")
				} else {
					labels = append(labels, "ok:changed")
					nontrivial = true
				}
			}
			return labels, nontrivial
		},
	})
}

// genExtractQuery: queries for mongokit.Extract: equality fields, $eq / $in,
// $and / $or nests, other operators (skipped), dotted paths.
func genExtractQuery(r *rng, depth int) bson.D {
	q := bson.D{}
	n := 1 + r.intn(3)
	for i := 0; i < n; i++ {
		switch r.intn(8) {
		case 0, 1:
			q = append(q, bson.E{Key: pick(r, []string{"a", "b", "a.b", "c.0", "_id", "a.b.c", "", "a."}), Value: genValue(r, 1)})
		case 2:
			q = append(q, bson.E{Key: pick(r, poolKeys), Value: bson.D{{Key: "$eq", Value: genSmall(r)}}})
		case 3:
			q = append(q, bson.E{Key: pick(r, poolKeys), Value: bson.D{{Key: "$in", Value: pick(r, []interface{}{bson.A{genSmall(r)}, bson.A{}, bson.A{int32(1), int32(2)}, int32(1)})}}})
		case 4:
			q = append(q, bson.E{Key: pick(r, poolKeys), Value: bson.D{{Key: pick(r, []string{"$gt", "$eq", "$in", "$ne"}), Value: genSmall(r)}, {Key: pick(r, []string{"$lt", "x", "$eq", "$in"}), Value: pick(r, []interface{}{genSmall(r), bson.A{genSmall(r)}})}}})
		case 5, 6:
			if depth > 0 {
				var items interface{}
				k := r.intn(4)
				a := bson.A{}
				for j := 0; j < k; j++ {
					if r.chance(1, 10) {
						a = append(a, genSmall(r))
					} else {
						a = append(a, genExtractQuery(r, depth-1))
					}
				}
				items = a
				if r.chance(1, 12) {
					items = int32(1)
				}
				q = append(q, bson.E{Key: pick(r, []string{"$and", "$or", "$and", "$or", "$nor", "$eq", "$in"}), Value: items})
			}
		default:
			q = append(q, bson.E{Key: pick(r, poolKeys), Value: genSmall(r)})
		}
	}
	return q
}
