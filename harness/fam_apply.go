package main

// fam_apply.go — families `num` (bsonkit.Add / Mul / Mod) and `apply`
// (mongokit.Apply, mongokit.Extract) and the model-free oracles of C11.

import (
	"math"
	"strings"

	"go.mongodb.org/mongo-driver/bson/primitive"

	"github.com/256dpi/lungo/bsonkit"
)

// ---------------------------------------------------------------------
// family num

var numInt32 = []int32{0, 1, -1, 2, 3, 7, -7, 10, 100, math.MaxInt32, math.MinInt32, math.MaxInt32 - 1, math.MinInt32 + 1, 1 << 30, 1 << 16, 46341, -46341, 65536}
var numInt64 = []int64{0, 1, -1, 2, 3, -3, 10, 1 << 31, -(1 << 31) - 1, 1 << 32, 1 << 53, 1<<53 + 1, 1<<53 - 1, 9007199254740993, math.MaxInt64, math.MinInt64, math.MaxInt64 - 1, math.MinInt64 + 1,
	1 << 62, 1 << 60, 3037000500, -3037000500, 1<<63 - 1024, 1<<63 - 513, 1<<63 - 512, 4611686018427387904, 1000000007}
var numFloat = []float64{0, math.Copysign(0, -1), 1, -1, 2, 0.5, 1.5, -2.5, 0.1, 0.2, 0.30000000000000004, 3, 10, 1e15, 1e16, 1 << 53, 1<<53 + 2, 1 << 63, -(1 << 63), 1 << 62,
	9223372036854774784, 1e300, -1e300, 1e308, 1.7976931348623157e308, 5e-324, 1e-323, 2.2250738585072014e-308, 2.2250738585072009e-308, 1e22, 1e23, 2147483648, 4294967296.5,
	math.NaN(), math.Inf(1), math.Inf(-1), 7, -7, 1e-10, 123456789.125}
var numDec = []string{"0", "-0", "0.0", "0E+10", "0E-10", "1", "1.0", "1.00", "-1", "2", "3", "-3", "7", "10", "1E+1", "0.1", "0.2", "0.5", "1.5", "-2.5",
	"NaN", "Infinity", "-Infinity", "9223372036854775807", "9223372036854775808", "-9223372036854775808", "2147483647", "2147483648",
	"1234567890123456789012345678901234", "9999999999999999999999999999999999", "-9999999999999999999999999999999999", "1000000000000000000000000000000000",
	"9.999999999999999999999999999999999", "0.1000000000000000055511151231257827", "1E-300", "1E+300", "1E+34", "1E+33", "1E-34", "12345678901234567", "99999999999999999", "1E+17", "3.3333333333333333",
	"1E+40", "1E-40", "123E+50", "0E+60", "0E-60"}

// extreme exponents make the exact model slow (10^12000 when aligning): drawn rarely
var numDecExtreme = []string{"1E+6000", "1E-6000", "1E+6111", "9.999999999999999999999999999999999E+6144", "1E-6176", "1E-6143", "5E-6176", "1E+3000", "-1E-3000", "0E+6111", "0E-6176"}

// non-canonical encodings: coefficient above 10^34-1, and the "11" combination form
var numDecRaw = [][2]uint64{{0x3040FFFFFFFFFFFF, 0xFFFFFFFFFFFFFFFF}, {0x6C10000000000000, 5}, {0xEC10000000000000, 7}, {0x3041ED09BEAD87C0, 0x378D8E6400000000}, {0x7C00000000000001, 2}, {0xF800000000000000, 0}}
var numDecRawExtreme = [][2]uint64{{0x6000000000000000, 5}, {0xE000000000000000, 7}, {0, 0}}

func genNumOperand(r *rng, kind int) interface{} {
	switch kind {
	case 0:
		if r.chance(1, 3) {
			return int32(pick(r, smallNums))
		}
		return pick(r, numInt32)
	case 1:
		if r.chance(1, 4) {
			return pick(r, smallNums)
		}
		return pick(r, numInt64)
	case 2:
		return pick(r, numFloat)
	case 3:
		if r.chance(1, 12) {
			w := pick(r, numDecRaw)
			return primitive.NewDecimal128(w[0], w[1])
		}
		if r.chance(1, 150) {
			if r.chance(1, 4) {
				w := pick(r, numDecRawExtreme)
				return primitive.NewDecimal128(w[0], w[1])
			}
			return mustDec(pick(r, numDecExtreme))
		}
		return mustDec(pick(r, numDec))
	default:
		return genScalar(r) // mostly non-numbers: Missing result
	}
}

// needsNewFromFloat: a double x decimal pair whose double is finite and
// non-zero goes through decimal.NewFromFloat, which the model does not cover.
func needsNewFromFloat(a, b interface{}) bool {
	fa, aF := a.(float64)
	fb, bF := b.(float64)
	_, aD := a.(primitive.Decimal128)
	_, bD := b.(primitive.Decimal128)
	fin := func(f float64) bool { return !math.IsNaN(f) && !math.IsInf(f, 0) && f != 0 }
	return (aF && bD && fin(fa)) || (aD && bF && fin(fb))
}

func numKind(v interface{}) string {
	switch v.(type) {
	case int32:
		return "i32"
	case int64:
		return "i64"
	case float64:
		return "f64"
	case primitive.Decimal128:
		return "d128"
	}
	return "other"
}

func init() {
	register(&family{
		name: "num",
		gen: func(r *rng) string {
			op := pick(r, []string{"add", "add", "mul", "mul", "mod"})
			var a, b interface{}
			for {
				ka, kb := r.intn(4), r.intn(4)
				if r.chance(1, 25) {
					ka = 4
				}
				if r.chance(1, 25) {
					kb = 4
				}
				a, b = genNumOperand(r, ka), genNumOperand(r, kb)
				// keep the unmodelled double x decimal pairs rare
				if needsNewFromFloat(a, b) && !r.chance(1, 3) {
					continue
				}
				break
			}
			return "(" + op + " " + enc(a) + " " + enc(b) + ")"
		},
		run: func(c *sx) string {
			a, b := decValue(c.list[1]), decValue(c.list[2])
			var res interface{}
			switch c.list[0].atom {
			case "add":
				res = bsonkit.Add(a, b)
			case "mul":
				res = bsonkit.Mul(a, b)
			case "mod":
				res = bsonkit.Mod(a, b)
			default:
				return "BAD-CASE"
			}
			if needsNewFromFloat(a, b) && res != bsonkit.Missing {
				return "UNMODELLED" // (a Missing result comes from the zero-divisor guard before any conversion)
			}
			return enc(res)
		},
		classify: func(c *sx, obs string) ([]string, bool) {
			a, b := decValue(c.list[1]), decValue(c.list[2])
			op := c.list[0].atom
			kind := "value"
			switch {
			case obs == "M":
				kind = "missing"
			case obs == "UNMODELLED":
				kind = "unmodelled"
			case obs == "PANIC":
				kind = "panic"
			case obs == "(d 0 0)":
				kind = "dec-zero-value"
			case strings.HasPrefix(obs, "(f ") && isNaNBits(obs):
				kind = "nan"
			}
			return []string{"op:" + op, op + ":" + numKind(a) + "x" + numKind(b), op + ":" + kind}, true
		},
	})
}

func isNaNBits(obs string) bool {
	c, err := parseSx(obs)
	if err != nil || !c.isL || len(c.list) != 2 {
		return false
	}
	return math.IsNaN(math.Float64frombits(atou64(c.list[1].atom)))
}
