package main

// fam_oplog.go — family `oplog`: Transaction.Clean (retention) on synthetic
// change logs.  A case gives event ages (seconds before "now") and counters;
// the runner materialises timestamps relative to the real clock, retrying when
// the wall-clock second changes during the call, and the model evaluates the
// same log with now = (10^9, 2^30).

import (
	"fmt"
	"strconv"
	"strings"
	"time"

	"go.mongodb.org/mongo-driver/bson"
	"go.mongodb.org/mongo-driver/bson/primitive"

	"github.com/256dpi/lungo"
	"github.com/256dpi/lungo/bsonkit"
)

const oplogNowT = 1000000000
const oplogNowI = 1 << 30

func genOplog(r *rng) string {
	n := r.intn(14)
	// ages mostly non-increasing (chronological log), sometimes shuffled
	ages := make([]int, n)
	cur := r.intn(120) + n*pick(r, []int{0, 1, 5, 30})
	for i := 0; i < n; i++ {
		ages[i] = cur
		switch r.intn(4) {
		case 0:
		default:
			cur -= r.intn(20)
		}
		if cur < 0 {
			cur = 0
		}
	}
	if r.chance(1, 8) && n > 1 {
		i, j := r.intn(n), r.intn(n)
		ages[i], ages[j] = ages[j], ages[i]
	}
	ageChoices := []int64{0, 1, 999999999, 1000000000, 5000000000, 10000000000, 30000000000, 60000000000, 120000000000, 3600000000000}
	minAge, maxAge := pick(r, ageChoices), pick(r, ageChoices)
	if r.chance(1, 3) && n > 0 {
		// cut-offs exactly at an event's age
		minAge = int64(ages[r.intn(n)]) * 1000000000
	}
	if r.chance(1, 3) && n > 0 {
		maxAge = int64(ages[r.intn(n)]) * 1000000000
	}
	minSize, maxSize := r.intn(n+3), r.intn(n+3)
	parts := []string{"clean", strconv.Itoa(oplogNowT), strconv.Itoa(oplogNowI), strconv.Itoa(minSize), strconv.Itoa(maxSize),
		strconv.FormatInt(minAge, 10), strconv.FormatInt(maxAge, 10)}
	for i := 0; i < n; i++ {
		// counters: 0 (below any real counter) or 2^31 (above), and increasing within one second
		ctr := pick(r, []int64{0, 0, 1 << 31})
		parts = append(parts, fmt.Sprintf("(%d %d)", oplogNowT-ages[i], ctr+int64(i)*0))
	}
	return "(" + strings.Join(parts, " ") + ")"
}

func runOplog(c *sx) string {
	minSize, _ := strconv.Atoi(c.list[3].atom)
	maxSize, _ := strconv.Atoi(c.list[4].atom)
	minAge := time.Duration(atoi64(c.list[5].atom))
	maxAge := time.Duration(atoi64(c.list[6].atom))
	for attempt := 0; attempt < 20; attempt++ {
		before := time.Now().Unix()
		cat := lungo.NewCatalog()
		oplog := cat.Namespaces[lungo.Oplog]
		for _, e := range c.list[7:] {
			age := oplogNowT - atoi64(e.list[0].atom)
			ctr := atoi64(e.list[1].atom)
			ts := primitive.Timestamp{T: uint32(before - age), I: uint32(ctr)}
			d := bson.D{{Key: "_id", Value: bson.D{{Key: "ts", Value: ts}}}, {Key: "clusterTime", Value: ts}}
			if _, err := oplog.Insert(&d); err != nil {
				return "ERR"
			}
		}
		txn := lungo.NewTransaction(cat)
		n0 := len(txn.Catalog().Namespaces[lungo.Oplog].Documents.List)
		txn.Clean(minSize, maxSize, minAge, maxAge)
		after := time.Now().Unix()
		if after != before {
			continue // the second changed while the call ran: its "now" is ambiguous
		}
		left := txn.Catalog().Namespaces[lungo.Oplog].Documents.List
		// the survivors must be the suffix
		for i, d := range left {
			want := c.list[7+n0-len(left)+i]
			age := oplogNowT - atoi64(want.list[0].atom)
			ts := bsonkit.Get(d, "_id.ts").(primitive.Timestamp)
			if ts.T != uint32(before-age) || ts.I != uint32(atoi64(want.list[1].atom)) {
				return "NOT-A-PREFIX"
			}
		}
		return strconv.Itoa(n0 - len(left))
	}
	return "CLOCK-RACE"
}

func init() {
	register(&family{
		name: "oplog",
		gen:  genOplog,
		run:  runOplog,
		classify: func(c *sx, obs string) ([]string, bool) {
			n := len(c.list) - 7
			k := "dropped:some"
			if obs == "0" {
				k = "dropped:none"
			} else if obs == strconv.Itoa(n) {
				k = "dropped:all"
			}
			return []string{k, "minAge0:" + tf(c.list[5].atom == "0"), "maxAge0:" + tf(c.list[6].atom == "0")}, n > 0
		},
	})
}
