package main

// enc.go — the neutral S-expression rendering of BSON values shared with
// coq/Model/Bson.v (value_to_sexp / value_of_sexp).  Doubles and decimals
// travel as raw bits; strings and keys as hex.

import (
	"encoding/hex"
	"fmt"
	"math"
	"strconv"
	"strings"

	"go.mongodb.org/mongo-driver/bson"
	"go.mongodb.org/mongo-driver/bson/primitive"

	"github.com/256dpi/lungo/bsonkit"
)

func hx(s string) string { return "x" + hex.EncodeToString([]byte(s)) }

func encValue(sb *strings.Builder, v interface{}) {
	switch x := v.(type) {
	case nil, primitive.Null:
		sb.WriteString("N")
	case bsonkit.MissingType:
		sb.WriteString("M")
	case int32:
		fmt.Fprintf(sb, "(i %d)", x)
	case int64:
		fmt.Fprintf(sb, "(l %d)", x)
	case float64:
		fmt.Fprintf(sb, "(f %d)", math.Float64bits(x))
	case primitive.Decimal128:
		h, l := x.GetBytes()
		fmt.Fprintf(sb, "(d %d %d)", h, l)
	case string:
		sb.WriteString("(s " + hx(x) + ")")
	case bson.D:
		sb.WriteString("(D")
		for _, e := range x {
			sb.WriteString(" (" + hx(e.Key) + " ")
			encValue(sb, e.Value)
			sb.WriteString(")")
		}
		sb.WriteString(")")
	case *bson.D:
		if x == nil {
			sb.WriteString("NIL")
		} else {
			encValue(sb, *x)
		}
	case bson.A:
		sb.WriteString("(A")
		for _, e := range x {
			sb.WriteString(" ")
			encValue(sb, e)
		}
		sb.WriteString(")")
	case primitive.Binary:
		fmt.Fprintf(sb, "(b %d %s)", x.Subtype, hx(string(x.Data)))
	case primitive.ObjectID:
		sb.WriteString("(o " + hx(string(x[:])) + ")")
	case bool:
		if x {
			sb.WriteString("T")
		} else {
			sb.WriteString("F")
		}
	case primitive.DateTime:
		fmt.Fprintf(sb, "(t %d)", int64(x))
	case primitive.Timestamp:
		fmt.Fprintf(sb, "(ts %d %d)", x.T, x.I)
	case primitive.Regex:
		sb.WriteString("(r " + hx(x.Pattern) + " " + hx(x.Options) + ")")
	default:
		panic(fmt.Sprintf("encValue: unsupported %T", v))
	}
}

func enc(v interface{}) string {
	var sb strings.Builder
	encValue(&sb, v)
	return sb.String()
}

func encList(l bsonkit.List) string {
	var sb strings.Builder
	sb.WriteString("(")
	for i, d := range l {
		if i > 0 {
			sb.WriteString(" ")
		}
		encValue(&sb, *d)
	}
	sb.WriteString(")")
	return sb.String()
}

// ---- minimal S-expression reader (for replay of stored cases) ----

type sx struct {
	atom string
	list []*sx
	isL  bool
}

func parseSx(s string) (*sx, error) {
	pos := 0
	var rec func() (*sx, error)
	skip := func() {
		for pos < len(s) && (s[pos] == ' ' || s[pos] == '\t' || s[pos] == '\n') {
			pos++
		}
	}
	rec = func() (*sx, error) {
		skip()
		if pos >= len(s) {
			return nil, fmt.Errorf("eof")
		}
		if s[pos] == '(' {
			pos++
			n := &sx{isL: true}
			for {
				skip()
				if pos >= len(s) {
					return nil, fmt.Errorf("unbalanced")
				}
				if s[pos] == ')' {
					pos++
					return n, nil
				}
				c, err := rec()
				if err != nil {
					return nil, err
				}
				n.list = append(n.list, c)
			}
		}
		st := pos
		for pos < len(s) && s[pos] != ' ' && s[pos] != '(' && s[pos] != ')' && s[pos] != '\t' && s[pos] != '\n' {
			pos++
		}
		return &sx{atom: s[st:pos]}, nil
	}
	n, err := rec()
	if err != nil {
		return nil, err
	}
	skip()
	if pos != len(s) {
		return nil, fmt.Errorf("trailing input")
	}
	return n, nil
}

func unhx(a string) string {
	if len(a) == 0 || a[0] != 'x' {
		panic("bad hex atom " + a)
	}
	b, err := hex.DecodeString(a[1:])
	if err != nil {
		panic(err)
	}
	return string(b)
}

func atoi64(a string) int64 {
	n, err := strconv.ParseInt(a, 10, 64)
	if err != nil {
		panic(err)
	}
	return n
}

func atou64(a string) uint64 {
	n, err := strconv.ParseUint(a, 10, 64)
	if err != nil {
		panic(err)
	}
	return n
}

func decValue(n *sx) interface{} {
	if !n.isL {
		switch n.atom {
		case "N":
			return nil
		case "M":
			return bsonkit.Missing
		case "T":
			return true
		case "F":
			return false
		}
		panic("decValue: bad atom " + n.atom)
	}
	tag := n.list[0].atom
	a := n.list[1:]
	switch tag {
	case "i":
		return int32(atoi64(a[0].atom))
	case "l":
		return atoi64(a[0].atom)
	case "f":
		return math.Float64frombits(atou64(a[0].atom))
	case "d":
		return primitive.NewDecimal128(atou64(a[0].atom), atou64(a[1].atom))
	case "s":
		return unhx(a[0].atom)
	case "D":
		d := bson.D{}
		for _, e := range a {
			d = append(d, bson.E{Key: unhx(e.list[0].atom), Value: decValue(e.list[1])})
		}
		return d
	case "A":
		r := bson.A{}
		for _, e := range a {
			r = append(r, decValue(e))
		}
		return r
	case "b":
		return primitive.Binary{Subtype: byte(atoi64(a[0].atom)), Data: []byte(unhx(a[1].atom))}
	case "o":
		var o primitive.ObjectID
		copy(o[:], unhx(a[0].atom))
		return o
	case "t":
		return primitive.DateTime(atoi64(a[0].atom))
	case "ts":
		return primitive.Timestamp{T: uint32(atou64(a[0].atom)), I: uint32(atou64(a[1].atom))}
	case "r":
		return primitive.Regex{Pattern: unhx(a[0].atom), Options: unhx(a[1].atom)}
	}
	panic("decValue: bad tag " + tag)
}

func decDoc(n *sx) bsonkit.Doc {
	d := decValue(n).(bson.D)
	return &d
}
