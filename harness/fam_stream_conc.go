package main

// fam_stream_conc.go — C09 oracle 2: free-running concurrent runs on the real
// engine.  Writers in goroutines, consumers blocked in Next; measured
// time-to-wake (reported as a distribution in the evidence), wake-up by
// Close / context cancellation / Engine.Close, and slow consumers under
// concurrent retention (gap-free prefix, then ErrLostOplogPosition or
// completeness).  These runs search for failing schedules; the wake-up
// property itself is the theorem no_lost_wakeup / waiting_consumer_enabled
// about the concurrent model.  Actual latency depends on the Go runtime.

import (
	"context"
	"errors"
	"fmt"
	"sync"
	"sync/atomic"
	"time"

	"github.com/256dpi/lungo"
	"go.mongodb.org/mongo-driver/bson"
	"go.mongodb.org/mongo-driver/bson/primitive"
)

const wakeBound = 2 * time.Second

func latBucket(d time.Duration) string {
	switch {
	case d < 100*time.Microsecond:
		return "wake:<100us"
	case d < time.Millisecond:
		return "wake:<1ms"
	case d < 10*time.Millisecond:
		return "wake:<10ms"
	case d < 100*time.Millisecond:
		return "wake:<100ms"
	case d < wakeBound:
		return "wake:<2s"
	default:
		return "wake:>=2s"
	}
}

type cFail struct{ sig, what string }

type cRecv struct {
	ev histEv
	id int64 // documentKey._id when it is an int64
	at time.Time
}

func openBig() (lungo.IClient, *lungo.Engine) {
	c, e, err := lungo.Open(nil, lungo.Options{Store: lungo.NewMemoryStore(), MinOplogSize: sBig, MaxOplogSize: sBig, MinOplogAge: 1, MaxOplogAge: time.Hour})
	if err != nil {
		panic(err)
	}
	return c, e
}

func watchScope(c lungo.IClient, scope []string) lungo.IChangeStream {
	var s lungo.IChangeStream
	var err error
	ctx := context.Background()
	switch scope[0] {
	case "client":
		s, err = c.Watch(ctx, bson.A{})
	case "db":
		s, err = c.Database(scope[1]).Watch(ctx, bson.A{})
	default:
		s, err = c.Database(scope[1]).Collection(scope[2]).Watch(ctx, bson.A{})
	}
	if err != nil {
		panic(err)
	}
	return s
}

// consume runs Next in a loop until it returns false or an invalidate event.
func consume(ctx context.Context, s lungo.IChangeStream, slow time.Duration, out *[]cRecv, mu *sync.Mutex, inval *bool) {
	for s.Next(ctx) {
		now := time.Now()
		var d bson.D
		if err := s.Decode(&d); err != nil {
			return
		}
		ev := evOfDoc(d)
		if ev.op == "invalidate" {
			*inval = true
			return
		}
		id, _ := dlookup(d, "documentKey", "_id").(int64)
		mu.Lock()
		*out = append(*out, cRecv{ev: ev, id: id, at: now})
		mu.Unlock()
		if slow > 0 {
			time.Sleep(slow)
		}
	}
}

// kind A: writers + blocked consumers; exactly-once / in-order / complete and time-to-wake
func concWriters(r *rng, dist map[string]int) []cFail {
	var fails []cFail
	client, engine := openBig()
	defer engine.Close()
	ctx := context.Background()
	pre := r.intn(3)
	for i := 0; i < pre; i++ {
		_, _ = client.Database("d").Collection("c").InsertOne(ctx, bson.D{{Key: "_id", Value: int64(-1 - i)}})
	}
	start := len(realOplog(engine))
	ns := 1 + r.intn(3)
	type cons struct {
		scope []string
		s     lungo.IChangeStream
		recv  []cRecv
		mu    sync.Mutex
		inval bool
		done  chan struct{}
	}
	conss := make([]*cons, ns)
	cctx, cancel := context.WithCancel(ctx)
	defer cancel()
	for i := range conss {
		c := &cons{scope: genScope(r), done: make(chan struct{})}
		c.s = watchScope(client, c.scope)
		conss[i] = c
		go func() {
			consume(cctx, c.s, 0, &c.recv, &c.mu, &c.inval)
			close(c.done)
		}()
	}
	// writers
	var seq int64
	var before sync.Map // doc id -> time the insert was started
	nw := 1 + r.intn(4)
	var wg sync.WaitGroup
	for w := 0; w < nw; w++ {
		wr := newRng(r.u64())
		wg.Add(1)
		go func() {
			defer wg.Done()
			for k, n := 0, 5+wr.intn(30); k < n; k++ {
				coll := client.Database(pick(wr, sDBs)).Collection(pick(wr, sColls))
				switch x := wr.intn(10); {
				case x < 6:
					id := atomic.AddInt64(&seq, 1)
					before.Store(id, time.Now())
					_, _ = coll.InsertOne(ctx, bson.D{{Key: "_id", Value: id}, {Key: "v", Value: int64(0)}})
				case x < 8:
					_, _ = coll.UpdateMany(ctx, bson.D{}, bson.D{{Key: "$inc", Value: bson.D{{Key: "v", Value: int64(1)}}}})
				case x < 9:
					_, _ = coll.DeleteOne(ctx, bson.D{})
				default:
					docs := []interface{}{bson.D{{Key: "_id", Value: atomic.AddInt64(&seq, 1)}}, bson.D{{Key: "_id", Value: atomic.AddInt64(&seq, 1)}}}
					_, _ = coll.InsertMany(ctx, docs)
				}
				if wr.chance(1, 2) {
					time.Sleep(time.Duration(wr.intn(400)) * time.Microsecond) // lets consumers park
				}
			}
		}()
	}
	wg.Wait()
	// the databases are dropped at the end: db / collection streams must be woken by it and end with invalidate
	dropT := time.Now()
	_ = client.Database("d").Drop(ctx)
	_ = client.Database("e").Drop(ctx)
	all := realOplog(engine)[start:]
	for i, c := range conss {
		var want []histEv
		wantInval := false
		for _, e := range all {
			if oScope(c.scope, e) {
				want = append(want, e)
				if oInvalidates(c.scope, e) {
					wantInval = true
					break
				}
			}
		}
		deadline := time.After(wakeBound)
		stalled := false
		if wantInval {
			select {
			case <-c.done:
				dist[latBucket(time.Since(dropT))+"(drop->invalidate)"]++
			case <-deadline:
				stalled = true
			}
		} else {
			// wait until everything wanted has arrived, then wake the consumer by Close
			for {
				c.mu.Lock()
				n := len(c.recv)
				c.mu.Unlock()
				if n >= len(want) {
					break
				}
				select {
				case <-deadline:
					stalled = true
				default:
					time.Sleep(200 * time.Microsecond)
					continue
				}
				break
			}
			t0 := time.Now()
			_ = c.s.Close(ctx)
			select {
			case <-c.done:
				dist[latBucket(time.Since(t0))+"(close)"]++
			case <-time.After(wakeBound):
				fails = append(fails, cFail{"C09:close-does-not-wake", fmt.Sprintf("consumer %d (%v) blocked in Next was not woken by Close within %v", i, c.scope, wakeBound)})
			}
		}
		c.mu.Lock()
		got := append([]cRecv(nil), c.recv...)
		c.mu.Unlock()
		if stalled {
			fails = append(fails, cFail{"C09:stall", fmt.Sprintf("consumer %d (%v) blocked in Next received %d of %d committed matching events within %v of the last commit", i, c.scope, len(got), len(want), wakeBound)})
			continue
		}
		if wantInval != c.inval {
			fails = append(fails, cFail{"C09:invalidate-concurrent", fmt.Sprintf("consumer %d (%v): invalidate expected %v, seen %v", i, c.scope, wantInval, c.inval)})
		}
		ok := len(got) == len(want)
		for j := 0; ok && j < len(got); j++ {
			ok = got[j].ev.ts == want[j].ts
		}
		if !ok {
			fails = append(fails, cFail{"C09:concurrent-delivery-mismatch", fmt.Sprintf("consumer %d (%v) received %d events, local.oplog holds %d matching events after its start; sequences differ (once / in order / complete)", i, c.scope, len(got), len(want))})
		}
		for _, g := range got {
			if t, ok := before.Load(g.id); ok && g.ev.op == "insert" {
				d := g.at.Sub(t.(time.Time))
				dist[latBucket(d)]++
				if d >= wakeBound {
					fails = append(fails, cFail{"C09:slow-wake", fmt.Sprintf("event delivered %v after the insert was started", d)})
				}
			}
		}
	}
	return fails
}

// kinds B, C, D: a consumer blocked in Next on an idle stream is woken by
// Close, by context cancellation, by Engine.Close
func concWake(r *rng, dist map[string]int) []cFail {
	var fails []cFail
	client, engine := openBig()
	defer engine.Close()
	ctx := context.Background()
	if r.chance(1, 2) {
		_, _ = client.Database("d").Collection("c").InsertOne(ctx, bson.D{{Key: "_id", Value: int64(1)}})
	}
	s := watchScope(client, genScope(r))
	cctx, cancel := context.WithCancel(ctx)
	defer cancel()
	ret := make(chan bool, 1)
	go func() { ret <- s.Next(cctx) }()
	if r.chance(3, 4) {
		time.Sleep(time.Duration(r.intn(2000)) * time.Microsecond) // usually parked by now
	}
	kind := []string{"close", "cancel", "engine-close"}[r.intn(3)]
	t0 := time.Now()
	switch kind {
	case "close":
		_ = s.Close(ctx)
	case "cancel":
		cancel()
	default:
		engine.Close()
	}
	select {
	case ok := <-ret:
		dist[latBucket(time.Since(t0))+"("+kind+")"]++
		if ok {
			fails = append(fails, cFail{"C09:wake-returned-event", "Next returned true on an idle stream after " + kind})
		}
		err := s.Err()
		if kind == "cancel" && !errors.Is(err, context.Canceled) {
			fails = append(fails, cFail{"C09:cancel-error", fmt.Sprintf("Err() = %v after context cancellation", err)})
		}
		if kind != "cancel" && err != nil {
			fails = append(fails, cFail{"C09:close-error", fmt.Sprintf("Err() = %v after %s", err, kind)})
		}
		if s.TryNext(ctx) {
			fails = append(fails, cFail{"C09:delivery-after-end", "TryNext delivered after " + kind})
		}
	case <-time.After(wakeBound):
		fails = append(fails, cFail{"C09:" + kind + "-does-not-wake", fmt.Sprintf("consumer blocked in Next was not woken by %s within %v", kind, wakeBound)})
	}
	return fails
}

// kind E: slow consumers while writers commit and retention discards:
// whatever a consumer received must be a gap-free prefix of the matching
// history after its start, ended by ErrLostOplogPosition or complete
func concRetention(r *rng, dist map[string]int) []cFail {
	var fails []cFail
	client, engine := openBig()
	defer engine.Close()
	ctx := context.Background()
	_, _ = client.Database("d").Collection("c").InsertOne(ctx, bson.D{{Key: "_id", Value: int64(-1)}}) // streams get a reference event
	var hist []histEv
	seen := map[primitive.Timestamp]bool{}
	var hmu sync.Mutex
	record := func(trimFrac int) { // recorder = the only retention: sees every event before it is discarded
		txn, err := engine.Begin(ctx, true)
		if err != nil {
			return
		}
		list := txn.Catalog().Namespaces[lungo.Oplog].Documents.List
		hmu.Lock()
		for _, d := range list {
			e := evOfDoc(*d)
			if !seen[e.ts] {
				seen[e.ts] = true
				hist = append(hist, e)
			}
		}
		hmu.Unlock()
		n := len(list)
		k := 0
		if trimFrac > 0 {
			k = n * trimFrac / 4
		}
		if k > 0 {
			txn.Clean(n-k, n-k, 0, 0)
			_ = engine.Commit(txn)
		} else {
			engine.Abort(txn)
		}
	}
	record(0)
	start := len(hist)
	type cons struct {
		scope []string
		s     lungo.IChangeStream
		recv  []cRecv
		mu    sync.Mutex
		inval bool
		done  chan struct{}
	}
	cctx, cancel := context.WithCancel(ctx)
	defer cancel()
	conss := make([]*cons, 1+r.intn(2))
	for i := range conss {
		c := &cons{scope: genScope(r), done: make(chan struct{})}
		c.s = watchScope(client, c.scope)
		slow := time.Duration(r.intn(300)) * time.Microsecond
		conss[i] = c
		go func() {
			consume(cctx, c.s, slow, &c.recv, &c.mu, &c.inval)
			close(c.done)
		}()
	}
	stop := make(chan struct{})
	var rwg sync.WaitGroup
	rwg.Add(1)
	rr := newRng(r.u64())
	go func() {
		defer rwg.Done()
		for {
			select {
			case <-stop:
				return
			default:
			}
			record(rr.intn(4))
			time.Sleep(time.Duration(100+rr.intn(400)) * time.Microsecond)
		}
	}()
	var seq int64
	var wg sync.WaitGroup
	for w, nw := 0, 1+r.intn(3); w < nw; w++ {
		wr := newRng(r.u64())
		wg.Add(1)
		go func() {
			defer wg.Done()
			for k, n := 0, 10+wr.intn(40); k < n; k++ {
				coll := client.Database(pick(wr, sDBs)).Collection(pick(wr, sColls))
				_, _ = coll.InsertOne(ctx, bson.D{{Key: "_id", Value: atomic.AddInt64(&seq, 1)}})
				if wr.chance(1, 3) {
					time.Sleep(time.Duration(wr.intn(200)) * time.Microsecond)
				}
			}
		}()
	}
	wg.Wait()
	close(stop)
	rwg.Wait()
	record(0)
	rank := map[primitive.Timestamp]int{}
	for i, e := range hist {
		rank[e.ts] = i
	}
	for i, c := range conss {
		var want []int
		for j := start; j < len(hist); j++ {
			if oScope(c.scope, hist[j]) {
				want = append(want, j)
			}
		}
		// wait: the consumer either fails (Lost) or receives everything
		deadline := time.Now().Add(wakeBound)
		lost := false
		for {
			select {
			case <-c.done:
				lost = true
			default:
			}
			c.mu.Lock()
			n := len(c.recv)
			c.mu.Unlock()
			if lost || n >= len(want) || time.Now().After(deadline) {
				break
			}
			time.Sleep(200 * time.Microsecond)
		}
		if !lost {
			_ = c.s.Close(ctx)
			select {
			case <-c.done:
			case <-time.After(wakeBound):
				fails = append(fails, cFail{"C09:close-does-not-wake", fmt.Sprintf("consumer %d (%v) blocked in Next was not woken by Close within %v", i, c.scope, wakeBound)})
				cancel()
				<-c.done
			}
		}
		c.mu.Lock()
		got := append([]cRecv(nil), c.recv...)
		c.mu.Unlock()
		err := c.s.Err()
		if lost && !errors.Is(err, lungo.ErrLostOplogPosition) {
			fails = append(fails, cFail{"C09:ended-without-error", fmt.Sprintf("consumer %d (%v): Next returned false without Close; Err() = %v", i, c.scope, err)})
		}
		if lost {
			dist["retention-run:lost"]++
		} else {
			dist["retention-run:complete"]++
		}
		if len(got) > len(want) {
			fails = append(fails, cFail{"C09:concurrent-delivery-mismatch", fmt.Sprintf("consumer %d received more events than were committed in its scope", i)})
			continue
		}
		for j, g := range got {
			if rk, ok := rank[g.ev.ts]; !ok || rk != want[j] {
				fails = append(fails, cFail{"C09:gap-concurrent", fmt.Sprintf("consumer %d (%v): %d-th received event is history index %d, expected %d (skipped or reordered under concurrent retention)", i, c.scope, j, rk, want[j])})
				break
			}
		}
		if !lost && len(got) != len(want) {
			fails = append(fails, cFail{"C09:stall", fmt.Sprintf("consumer %d (%v) received %d of %d matching events and no error within %v", i, c.scope, len(got), len(want), wakeBound)})
		}
	}
	return fails
}

func oracleC09Concurrent(r *rng, n int, st *oracleStats) []oracleFailure {
	st.Rule = "free-running concurrent runs on the real engine (n/40 runs): 1-4 writer goroutines x 5-35 driver calls against 1-3 consumers blocked in Next at random scopes, databases dropped at the end (invalidate wake-up), Close wake-up; idle consumer woken by Close / context cancel / Engine.Close; slow consumers under concurrent retention (gap-free prefix then ErrLostOplogPosition, or complete); bound for every wake-up: 2 s; the wake:* labels are the measured time-to-wake distribution (insert started -> Next returned)"
	var fails []oracleFailure
	runs := n / 40
	if runs < 6 {
		runs = 6
	}
	seen := map[string]int{}
	type res struct {
		kind  string
		fails []cFail
		dist  map[string]int
	}
	out := make([]res, runs)
	seeds := make([]uint64, runs)
	for i := range seeds {
		seeds[i] = r.u64()
	}
	var wg sync.WaitGroup
	sem := make(chan struct{}, 4) // few at a time: latencies are measured
	for i := 0; i < runs; i++ {
		wg.Add(1)
		go func(i int) {
			defer wg.Done()
			sem <- struct{}{}
			defer func() { <-sem }()
			rr := newRng(seeds[i])
			d := map[string]int{}
			var f []cFail
			var kind string
			switch i % 4 {
			case 0, 1:
				kind, f = "writers", concWriters(rr, d)
			case 2:
				kind, f = "wake", concWake(rr, d)
			default:
				kind, f = "retention", concRetention(rr, d)
			}
			out[i] = res{kind, f, d}
		}(i)
	}
	wg.Wait()
	st.Samples = []string{}
	for i, o := range out {
		if len(st.Samples) < 2 {
			st.Samples = append(st.Samples, fmt.Sprintf("concurrent run kind=%s seed=%d", o.kind, seeds[i]))
		}
		st.Evaluations++
		st.Nontrivial++
		st.Dist["run:"+o.kind]++
		for k, v := range o.dist {
			st.Dist[k] += v
		}
		for _, f := range o.fails {
			st.Dist["failure:"+f.sig]++
			seen[f.sig]++
			if seen[f.sig] > 3 {
				continue
			}
			fails = append(fails, oracleFailure{Property: "C09", Signature: f.sig, What: f.what,
				Detail: map[string]interface{}{"kind": o.kind, "seed": seeds[i], "note": "free-running schedule: replay re-runs the same generator seed; the interleaving is not reproducible"}})
		}
	}
	return fails
}
