package main

// fam_cmp.go — family `cmp`: bsonkit.Compare on pairs; oracle C12: the order
// laws checked directly on the real Compare over triples.

import (
	"fmt"
	"math"
	"math/big"

	"go.mongodb.org/mongo-driver/bson"
	"go.mongodb.org/mongo-driver/bson/primitive"

	"github.com/256dpi/lungo/bsonkit"
)

func bigInt(i int64) *big.Int { return big.NewInt(i) }

func genCmpPair(r *rng) (interface{}, interface{}) {
	a := genValue(r, 3)
	var b interface{}
	switch r.intn(4) {
	case 0:
		b = genValue(r, 3)
	case 1:
		// numbers against numbers
		a, b = genNumber(r), genNumber(r)
	default:
		b = mutate(r, a)
	}
	return a, b
}

func kindOf(v interface{}) string {
	switch x := v.(type) {
	case nil:
		return "null"
	case int32:
		return "int32"
	case int64:
		return "int64"
	case float64:
		if math.IsNaN(x) || math.IsInf(x, 0) {
			return "double-nonfinite"
		}
		return "double"
	case primitive.Decimal128:
		if x.IsNaN() || x.IsInf() != 0 {
			return "decimal-nonfinite"
		}
		return "decimal"
	case string:
		return "string"
	case bson.D:
		return "document"
	case bson.A:
		return "array"
	case primitive.Binary:
		return "binary"
	case primitive.ObjectID:
		return "objectid"
	case bool:
		return "bool"
	case primitive.DateTime:
		return "date"
	case primitive.Timestamp:
		return "timestamp"
	case primitive.Regex:
		return "regex"
	case bsonkit.MissingType:
		return "missing"
	}
	return "other"
}

func init() {
	register(&family{
		name: "cmp",
		gen: func(r *rng) string {
			a, b := genCmpPair(r)
			return "(cmp " + enc(a) + " " + enc(b) + ")"
		},
		run: func(c *sx) string {
			a := decValue(c.list[1])
			b := decValue(c.list[2])
			return fmt.Sprint(bsonkit.Compare(a, b))
		},
		classify: func(c *sx, obs string) ([]string, bool) {
			a := decValue(c.list[1])
			b := decValue(c.list[2])
			ka, kb := kindOf(a), kindOf(b)
			if ka > kb {
				ka, kb = kb, ka
			}
			return []string{"pair:" + ka + "/" + kb, "sign:" + obs}, enc(a) != enc(b)
		},
	})

	registerOracle(&oracle{prop: "C12", name: "order-laws", run: oracleC12})
}

// ---- independent exact numeric value (for the oracle only) ----

type xval struct {
	kind int // 0 NaN, 1 -Inf, 2 finite, 3 +Inf
	q    *big.Rat
}

func exactNum(v interface{}) (xval, bool) {
	switch x := v.(type) {
	case int32:
		return xval{2, new(big.Rat).SetInt64(int64(x))}, true
	case int64:
		return xval{2, new(big.Rat).SetInt64(x)}, true
	case float64:
		if math.IsNaN(x) {
			return xval{kind: 0}, true
		}
		if math.IsInf(x, 1) {
			return xval{kind: 3}, true
		}
		if math.IsInf(x, -1) {
			return xval{kind: 1}, true
		}
		return xval{2, new(big.Rat).SetFloat64(x)}, true
	case primitive.Decimal128:
		if x.IsNaN() {
			return xval{kind: 0}, true
		}
		if x.IsInf() > 0 {
			return xval{kind: 3}, true
		}
		if x.IsInf() < 0 {
			return xval{kind: 1}, true
		}
		bi, exp, err := x.BigInt()
		if err != nil {
			return xval{}, false
		}
		q := new(big.Rat).SetInt(bi)
		p := new(big.Int).Exp(big.NewInt(10), big.NewInt(int64(abs(exp))), nil)
		if exp >= 0 {
			q.Mul(q, new(big.Rat).SetInt(p))
		} else {
			q.Quo(q, new(big.Rat).SetInt(p))
		}
		return xval{2, q}, true
	}
	return xval{}, false
}

func abs(i int) int {
	if i < 0 {
		return -i
	}
	return i
}

func xcmp(a, b xval) int {
	if a.kind == 2 && b.kind == 2 {
		return a.q.Cmp(b.q)
	}
	switch {
	case a.kind < b.kind:
		return -1
	case a.kind > b.kind:
		return 1
	}
	return 0
}

var classRank = map[string]int{"null": 0, "missing": 0, "int32": 1, "int64": 1, "double": 1, "double-nonfinite": 1, "decimal": 1, "decimal-nonfinite": 1,
	"string": 2, "document": 3, "array": 4, "binary": 5, "objectid": 6, "bool": 7, "date": 8, "timestamp": 9, "regex": 10}

func sgn(i int) int {
	switch {
	case i < 0:
		return -1
	case i > 0:
		return 1
	}
	return 0
}

func safeCompare(a, b interface{}) (res int, panicked bool) {
	defer func() {
		if p := recover(); p != nil {
			panicked = true
		}
	}()
	return bsonkit.Compare(a, b), false
}

func oracleC12(r *rng, n int, st *oracleStats) []oracleFailure {
	st.Rule = "triples (a, b, c) from the collision-rich value pool (b and c frequently near-copies of a, numbers in all four types); laws: reflexive, antisymmetric, transitive, equal-interchangeable, class order, exact numeric order; a triple is non-trivial when its three renderings are pairwise distinct"
	var fails []oracleFailure
	seen := map[string]bool{}
	fail := func(what string, vs ...interface{}) {
		if len(fails) >= 20 {
			return
		}
		var ss []string
		for _, v := range vs {
			ss = append(ss, enc(v))
		}
		fails = append(fails, oracleFailure{Property: "C12", What: what, Detail: ss})
	}
	for i := 0; i < n; i++ {
		a, b := genCmpPair(r)
		var c interface{}
		switch r.intn(3) {
		case 0:
			c = mutate(r, b)
		case 1:
			c = mutate(r, a)
		default:
			c = genValue(r, 3)
		}
		st.Evaluations++
		ea, eb, ec := enc(a), enc(b), enc(c)
		key := ea + "|" + eb + "|" + ec
		if !seen[key] {
			seen[key] = true
			if ea != eb && eb != ec && ea != ec {
				st.Nontrivial++
			}
		}
		if len(st.Samples) < 3 {
			st.Samples = append(st.Samples, key)
		}
		ab, p1 := safeCompare(a, b)
		ba, p2 := safeCompare(b, a)
		bc, p3 := safeCompare(b, c)
		ac, p4 := safeCompare(a, c)
		aa, p5 := safeCompare(a, a)
		if p1 || p2 || p3 || p4 || p5 {
			fail("Compare panics", a, b, c)
			continue
		}
		ab, ba, bc, ac = sgn(ab), sgn(ba), sgn(bc), sgn(ac)
		st.Dist[fmt.Sprintf("ab=%d,bc=%d", ab, bc)]++
		if aa != 0 {
			fail("not reflexive: Compare(a,a) != 0", a)
		}
		if ab != -ba {
			fail("not antisymmetric: Compare(a,b) != -Compare(b,a)", a, b)
		}
		if ab <= 0 && bc <= 0 && !(ac <= 0) {
			fail("not transitive: a<=b, b<=c but a>c", a, b, c)
		}
		if ab < 0 && bc <= 0 && !(ac < 0) || ab <= 0 && bc < 0 && !(ac < 0) {
			fail("not transitive: a<b<=c or a<=b<c but not a<c", a, b, c)
		}
		if ab == 0 && ac != bc {
			fail("equal values not interchangeable: a==b but Compare(a,c) != Compare(b,c)", a, b, c)
		}
		ka, kb := kindOf(a), kindOf(b)
		if classRank[ka] != classRank[kb] {
			if ab != sgn(classRank[ka]-classRank[kb]) {
				fail("class order violated", a, b)
			}
		} else if classRank[ka] == 1 {
			xa, ok1 := exactNum(a)
			xb, ok2 := exactNum(b)
			if ok1 && ok2 && ab != xcmp(xa, xb) {
				fail("numbers not ordered by exact mathematical value (NaN lowest)", a, b)
			}
		}
	}
	return fails
}
