package main

// fam_engine.go — family `engine` (C16, C04): 2-4 actors run scripts over
// begin / write / commit / abort / session calls / WithTransaction /
// useTransaction / watch / close stream / engine close against the REAL
// engine.  A controller schedules them at the verif hook points of /repo
// (one decision at a time, waiting until every goroutine is parked at a
// hook, blocked or finished), injects single faults (context cancel, failing
// or panicking Store, failing or panicking callback) and records after every
// decision a snapshot (e.txn != nil, token in use, alive, #streams) and where
// every actor is.  The recorded trace is replayed against the step function
// of coq/Model/Engine.v by Model/EngineRun.v.  After the scenario a probe
// write must complete quickly; after Close every call must return
// ErrEngineClosed promptly and the goroutine count must be back at the
// baseline.

import (
	"bufio"
	"bytes"
	"context"
	"errors"
	"fmt"
	"io"
	"os"
	"os/exec"
	"runtime"
	"strconv"
	"strings"
	"sync"
	"sync/atomic"
	"time"

	"go.mongodb.org/mongo-driver/bson"

	"github.com/256dpi/lungo"
	"github.com/256dpi/lungo/bsonkit"
)

// ---- scenario ----

type eop struct {
	kind string // begin write commit abort sstart scommit sabort send swrite wtx use watch unwatch close
	lock bool
	cs   int // session in the context, -1 = none
	s    int
	w    int
	cb   string // ok err panic
}

func (o eop) String() string {
	cs := "-"
	if o.cs >= 0 {
		cs = strconv.Itoa(o.cs)
	}
	switch o.kind {
	case "begin":
		l := "0"
		if o.lock {
			l = "1"
		}
		return "(begin " + l + " " + cs + ")"
	case "write":
		return fmt.Sprintf("(write %d)", o.w)
	case "sstart", "scommit", "sabort", "send":
		return fmt.Sprintf("(%s %d)", o.kind, o.s)
	case "swrite":
		return fmt.Sprintf("(swrite %d %d)", o.s, o.w)
	case "wtx":
		return fmt.Sprintf("(wtx %d %d %s)", o.s, o.w, o.cb)
	case "use":
		return fmt.Sprintf("(use %s %d %s)", cs, o.w, o.cb)
	}
	return o.kind
}

func parseEop(n *sx) eop {
	if !n.isL {
		return eop{kind: n.atom, cs: -1}
	}
	at := func(i int) string { return n.list[i].atom }
	num := func(i int) int { v, _ := strconv.Atoi(at(i)); return v }
	osid := func(i int) int {
		if at(i) == "-" {
			return -1
		}
		return num(i)
	}
	o := eop{kind: at(0), cs: -1}
	switch o.kind {
	case "begin":
		o.lock, o.cs = at(1) == "1", osid(2)
	case "write":
		o.w = num(1)
	case "sstart", "scommit", "sabort", "send":
		o.s = num(1)
	case "swrite":
		o.s, o.w = num(1), num(2)
	case "wtx":
		o.s, o.w, o.cb = num(1), num(2), at(3)
	case "use":
		o.cs, o.w, o.cb = osid(1), num(2), at(3)
	}
	return o
}

type escenario struct {
	nsess  int
	actors [][]eop
	// recorded decisions (kind r/c/f/p, actor), used to re-run a stored case
	decisions []edecision
	seed      uint64
}

type edecision struct {
	kind  string
	actor int
}

func (sc *escenario) header() string {
	var sb strings.Builder
	fmt.Fprintf(&sb, "(sessions %d) (actors", sc.nsess)
	for _, a := range sc.actors {
		sb.WriteString(" (")
		for i, o := range a {
			if i > 0 {
				sb.WriteString(" ")
			}
			sb.WriteString(o.String())
		}
		sb.WriteString(")")
	}
	sb.WriteString(")")
	return sb.String()
}

// case text: (engine (sessions N) (actors ...) (trace ...) (res ...)); a
// freshly generated case has (trace) (res) empty plus a trailing (seed S).
func parseScenario(c *sx) *escenario {
	sc := &escenario{}
	for _, part := range c.list[1:] {
		if !part.isL || len(part.list) == 0 {
			continue
		}
		switch part.list[0].atom {
		case "sessions":
			sc.nsess, _ = strconv.Atoi(part.list[1].atom)
		case "actors":
			for _, a := range part.list[1:] {
				var ops []eop
				for _, o := range a.list {
					ops = append(ops, parseEop(o))
				}
				sc.actors = append(sc.actors, ops)
			}
		case "trace":
			for _, st := range part.list[1:] {
				d := edecision{kind: st.list[0].atom, actor: -1}
				if d.kind == "r" || d.kind == "c" {
					d.actor, _ = strconv.Atoi(st.list[1].atom)
				}
				sc.decisions = append(sc.decisions, d)
			}
		case "seed":
			sc.seed, _ = strconv.ParseUint(part.list[1].atom, 10, 64)
		}
	}
	return sc
}

// ---- store with injectable faults ----

type faultStore struct {
	inner     *lungo.MemoryStore
	failNext  atomic.Bool
	panicNext atomic.Bool
	stores    atomic.Int64
}

var errStoreFault = errors.New("injected store failure")

func (f *faultStore) Load() (*lungo.Catalog, error) { return f.inner.Load() }
func (f *faultStore) Store(c *lungo.Catalog) error {
	f.stores.Add(1)
	if f.panicNext.CompareAndSwap(true, false) {
		panic("injected store panic")
	}
	if f.failNext.CompareAndSwap(true, false) {
		return errStoreFault
	}
	return f.inner.Store(c)
}

// ---- goroutine states ----

// goroutineStates parses runtime.Stack(all): id -> status ("running",
// "runnable", "select", "sync.Mutex.Lock", "chan receive", ...).
func goroutineStates() map[uint64]string {
	buf := make([]byte, 1<<16)
	for {
		n := runtime.Stack(buf, true)
		if n < len(buf) {
			buf = buf[:n]
			break
		}
		buf = make([]byte, 2*len(buf))
	}
	out := map[uint64]string{}
	for _, blk := range bytes.Split(buf, []byte("\n\n")) {
		if !bytes.HasPrefix(blk, []byte("goroutine ")) {
			continue
		}
		line := blk
		if i := bytes.IndexByte(blk, '\n'); i >= 0 {
			line = blk[:i]
		}
		rest := line[len("goroutine "):]
		sp := bytes.IndexByte(rest, ' ')
		if sp < 0 {
			continue
		}
		id, _ := strconv.ParseUint(string(rest[:sp]), 10, 64)
		lb, rb := bytes.IndexByte(rest, '['), bytes.IndexByte(rest, ']')
		if lb < 0 || rb < lb {
			continue
		}
		st := string(rest[lb+1 : rb])
		if i := strings.IndexByte(st, ','); i >= 0 {
			st = st[:i]
		}
		out[id] = st
	}
	return out
}

func goroutineActive(st string) bool {
	switch st {
	case "running", "runnable", "syscall", "preempted", "copystack", "dead", "idle",
		"semacquire", // runtime-internal semaphores (worldsema while the controller itself stops the world, GC start)
		"stopping the world", "flushing proc caches", "wait for GC cycle", "sleep":
		return true
	}
	return strings.HasPrefix(st, "GC ") || strings.HasPrefix(st, "force gc") // GC assist etc.
}

// ---- controller ----

type eactor struct {
	id       int
	ops      []eop
	gid      uint64
	ctx      context.Context
	cancel   context.CancelFunc
	cur      *lungo.Transaction
	streams  []*lungo.Stream
	results  []string
	loc      string // hook point name, "idle", "done"; meaningful while parked
	parked   bool
	finished bool
	release  chan struct{}
}

type econtroller struct {
	mu      sync.Mutex
	engine  *lungo.Engine
	client  lungo.IClient
	store   *faultStore
	sess    []*lungo.Session
	actors  []*eactor
	byGid   map[uint64]*eactor
	self    uint64
	trace   []string
	hung    bool
	lastCat *lungo.Catalog  // published catalog at the previous observation
	pubs    int             // number of publications observed
	ignored map[uint64]bool // goroutines that existed before the scenario (leaked by earlier ones)
}

func (ct *econtroller) park(a *eactor, loc string) {
	ct.mu.Lock()
	a.loc, a.parked = loc, true
	ct.mu.Unlock()
	<-a.release
}

func (ct *econtroller) hook(name string, info lungo.VerifInfo) {
	ct.mu.Lock()
	a := ct.byGid[info.Goroutine]
	ct.mu.Unlock()
	if a == nil || info.Engine != nil && info.Engine != ct.engine {
		return
	}
	ct.park(a, name)
}

// quiesce waits until no goroutine other than the controller's can run.
func (ct *econtroller) quiesce() bool {
	deadline := time.Now().Add(10 * time.Second)
	quiet := 0
	for spins := 0; ; spins++ {
		busy := false
		for id, st := range goroutineStates() {
			if id == ct.self || ct.ignored[id] {
				continue
			}
			if goroutineActive(st) {
				busy = true
				break
			}
		}
		if !busy {
			quiet++
			if quiet >= 2 {
				return true
			}
			runtime.Gosched()
			continue
		}
		quiet = 0
		if time.Now().After(deadline) {
			return false
		}
		if spins < 50 {
			runtime.Gosched()
		} else {
			time.Sleep(50 * time.Microsecond)
		}
	}
}

func b01(b bool) string {
	if b {
		return "1"
	}
	return "0"
}

// observe: the snapshot and the location of every actor (call only when quiescent).
func (ct *econtroller) observe() string {
	s := lungo.VerifSnapshot(ct.engine)
	if s.Catalog != ct.lastCat {
		ct.lastCat = s.Catalog
		ct.pubs++
	}
	var sb strings.Builder
	fmt.Fprintf(&sb, "(%s %s %s %d %d) (", b01(s.HasTxn), b01(s.TokenInUse), b01(s.Alive), lungo.VerifStreams(ct.engine), ct.pubs)
	ct.mu.Lock()
	for i, a := range ct.actors {
		if i > 0 {
			sb.WriteString(" ")
		}
		switch {
		case a.finished:
			sb.WriteString("done")
		case a.parked:
			sb.WriteString(a.loc)
		default:
			sb.WriteString("blk")
			if os.Getenv("VERIF_DEBUG") != "" {
				fmt.Fprintf(os.Stderr, "blk actor %d gid %d state %q\n", a.id, a.gid, goroutineStates()[a.gid])
			}
		}
	}
	ct.mu.Unlock()
	sb.WriteString(")")
	return sb.String()
}

// ---- actor operations (mirrored by Model/Engine.v dispatch) ----

var errCallback = errors.New("callback error")

func classifyErr(err error) string {
	switch {
	case err == nil:
		return "ok"
	case errors.Is(err, lungo.ErrEngineClosed):
		return "closed"
	case errors.Is(err, lungo.ErrSessionEnded):
		return "ended"
	case errors.Is(err, context.Canceled), errors.Is(err, context.DeadlineExceeded):
		return "ctx"
	case errors.Is(err, errStoreFault):
		return "storeerr"
	case errors.Is(err, errCallback):
		return "cberr"
	}
	switch err.Error() {
	case "token acquisition timeout":
		return "timeout"
	case "detected nested transaction":
		return "nested"
	case "existing transaction":
		return "existing"
	case "no active transaction":
		return "noactive"
	case "transaction mismatch":
		return "mismatch"
	case "missing transaction":
		return "missing"
	}
	return "err:" + strings.ReplaceAll(err.Error(), " ", "_")
}

var engineHandle = lungo.Handle{"db", "c"}

var engineDocID atomic.Int64

func (ct *econtroller) insert(txn *lungo.Transaction, w int) {
	doc := bsonkit.MustConvert(bson.M{"_id": engineDocID.Add(1), "w": int64(w)})
	_, _ = txn.Insert(engineHandle, bsonkit.List{doc}, true)
}

func (ct *econtroller) exec(a *eactor, o eop) (res string) {
	defer func() {
		if p := recover(); p != nil {
			res = "panic"
			if s, ok := p.(string); !ok || (s != "injected store panic" && s != "injected callback panic") {
				res = strings.ReplaceAll(fmt.Sprintf("panic:%v", p), " ", "_")
			}
		}
	}()
	ctx := a.ctx
	if o.cs >= 0 {
		if o.cs >= len(ct.sess) {
			return "skip"
		}
		ctx = lungo.VerifSessionContext(a.ctx, ct.sess[o.cs])
	}
	needSess := map[string]bool{"sstart": true, "scommit": true, "sabort": true, "send": true, "swrite": true, "wtx": true}
	if needSess[o.kind] && o.s >= len(ct.sess) {
		return "skip"
	}
	cbOutcome := func() (interface{}, error) {
		switch o.cb {
		case "err":
			return nil, errCallback
		case "panic":
			panic("injected callback panic")
		}
		return nil, nil
	}
	switch o.kind {
	case "begin":
		txn, err := ct.engine.Begin(ctx, o.lock)
		if err == nil {
			a.cur = txn
		}
		return classifyErr(err)
	case "write":
		if a.cur == nil {
			return "skip"
		}
		ct.insert(a.cur, o.w)
		return "ok"
	case "commit":
		if a.cur == nil {
			return "skip"
		}
		txn := a.cur
		a.cur = nil
		return classifyErr(ct.engine.Commit(txn))
	case "abort":
		if a.cur == nil {
			return "skip"
		}
		txn := a.cur
		a.cur = nil
		ct.engine.Abort(txn)
		return "ok"
	case "sstart":
		return classifyErr(ct.sess[o.s].StartTransaction())
	case "scommit":
		return classifyErr(ct.sess[o.s].CommitTransaction(a.ctx))
	case "sabort":
		return classifyErr(ct.sess[o.s].AbortTransaction(a.ctx))
	case "send":
		ct.sess[o.s].EndSession(a.ctx)
		return "ok"
	case "swrite":
		txn := ct.sess[o.s].Transaction()
		if txn == nil {
			return "skip"
		}
		ct.insert(txn, o.w)
		return "ok"
	case "wtx":
		s := ct.sess[o.s]
		_, err := s.WithTransaction(a.ctx, func(lungo.ISessionContext) (interface{}, error) {
			if txn := s.Transaction(); txn != nil {
				ct.insert(txn, o.w)
			}
			return cbOutcome()
		})
		return classifyErr(err)
	case "use":
		_, err := lungo.VerifUseTransaction(ctx, ct.engine, true, func(txn *lungo.Transaction) (interface{}, error) {
			ct.insert(txn, o.w)
			return cbOutcome()
		})
		return classifyErr(err)
	case "watch":
		st, err := ct.engine.Watch(lungo.Handle{}, nil, nil, nil, nil)
		if err == nil {
			a.streams = append(a.streams, st)
		}
		return classifyErr(err)
	case "unwatch":
		if len(a.streams) == 0 {
			return "skip"
		}
		st := a.streams[len(a.streams)-1]
		a.streams = a.streams[:len(a.streams)-1]
		return classifyErr(st.Close(a.ctx))
	case "close":
		ct.engine.Close()
		return "ok"
	}
	return "skip"
}

func (ct *econtroller) runActor(a *eactor, started chan struct{}) {
	ct.mu.Lock()
	a.gid = lungo.VerifGoroutineID()
	ct.byGid[a.gid] = a
	ct.mu.Unlock()
	started <- struct{}{}
	for _, o := range a.ops {
		ct.park(a, "idle")
		ct.mu.Lock()
		a.parked = false
		ct.mu.Unlock()
		r := ct.exec(a, o)
		ct.mu.Lock()
		a.results = append(a.results, r)
		ct.mu.Unlock()
	}
	ct.mu.Lock()
	a.finished, a.parked = true, false
	delete(ct.byGid, a.gid)
	ct.mu.Unlock()
}

// ---- one scenario ----

type eoutcome struct {
	trace   []string
	results string
	verdict string
	probeUs int64
}

var engineScenarioMu sync.Mutex

func runEngineScenario(sc *escenario, r *rng) eoutcome {
	engineScenarioMu.Lock()
	defer engineScenarioMu.Unlock()
	base := runtime.NumGoroutine()
	store := &faultStore{inner: lungo.NewMemoryStore()}
	client, engine, err := lungo.Open(nil, lungo.Options{Store: store, ExpireInterval: time.Hour})
	if err != nil {
		return eoutcome{verdict: "OPEN-ERROR"}
	}
	ct := &econtroller{engine: engine, client: client, store: store, byGid: map[uint64]*eactor{}, self: lungo.VerifGoroutineID()}
	ct.lastCat = lungo.VerifSnapshot(engine).Catalog
	for i := 0; i < sc.nsess; i++ {
		s, _ := client.StartSession()
		ct.sess = append(ct.sess, s.(*lungo.Session))
	}
	lungo.SetVerifHook(ct.hook)
	defer lungo.SetVerifHook(nil)
	started := make(chan struct{}, len(sc.actors))
	for i, ops := range sc.actors {
		ctx, cancel := context.WithCancel(context.Background())
		a := &eactor{id: i, ops: ops, ctx: ctx, cancel: cancel, release: make(chan struct{})}
		if len(ops) == 0 {
			a.finished = true
		}
		ct.actors = append(ct.actors, a)
	}
	for _, a := range ct.actors {
		if !a.finished {
			go ct.runActor(a, started)
			<-started
		}
	}
	out := eoutcome{}
	if !ct.quiesce() {
		out.verdict = "NO-QUIESCENCE"
		return out
	}
	// decisions: recorded ones first (replay of a stored case), then sampled
	faultDone := false
	cancelled := map[int]bool{}
	next := 0
	for step := 0; step < 400; step++ {
		var cand []int
		ct.mu.Lock()
		allDone := true
		for _, a := range ct.actors {
			if !a.finished {
				allDone = false
			}
			if a.parked && !a.finished {
				cand = append(cand, a.id)
			}
		}
		ct.mu.Unlock()
		if allDone || len(cand) == 0 {
			break
		}
		d := edecision{kind: "r", actor: -1}
		if next < len(sc.decisions) {
			d = sc.decisions[next]
			next++
			ok := false
			for _, c := range cand {
				if c == d.actor {
					ok = true
				}
			}
			if d.kind == "r" && !ok {
				d = edecision{kind: "r", actor: cand[r.intn(len(cand))]}
			}
			if d.kind == "c" && (d.actor < 0 || d.actor >= len(ct.actors) || cancelled[d.actor]) {
				d = edecision{kind: "r", actor: cand[r.intn(len(cand))]}
			}
		} else {
			d.actor = cand[r.intn(len(cand))]
			if !faultDone && r.chance(1, 12) {
				faultDone = true
				switch r.intn(4) {
				case 0, 1:
					d = edecision{kind: "c", actor: r.intn(len(ct.actors))}
				case 2:
					d = edecision{kind: "f", actor: -1}
				default:
					d = edecision{kind: "p", actor: -1}
				}
			}
		}
		var head string
		switch d.kind {
		case "r":
			a := ct.actors[d.actor]
			ct.mu.Lock()
			a.parked = false
			ct.mu.Unlock()
			a.release <- struct{}{}
			head = fmt.Sprintf("(r %d ", d.actor)
		case "c":
			cancelled[d.actor] = true
			ct.actors[d.actor].cancel()
			head = fmt.Sprintf("(c %d ", d.actor)
		case "f":
			store.failNext.Store(true)
			head = "(f "
		case "p":
			store.panicNext.Store(true)
			head = "(p "
		}
		if !ct.quiesce() {
			out.verdict = "NO-QUIESCENCE"
			break
		}
		out.trace = append(out.trace, head+ct.observe()+")")
	}
	// results
	var rs []string
	allDone := true
	ct.mu.Lock()
	for _, a := range ct.actors {
		rs = append(rs, "("+strings.Join(a.results, " ")+")")
		if !a.finished {
			allDone = false
		}
	}
	ct.mu.Unlock()
	out.results = strings.Join(rs, " ")
	lungo.SetVerifHook(nil)
	if out.verdict != "" {
		return out
	}
	if !allDone {
		// some actor can never run again: a deadlock (or a write left open by a script, which generated scripts never do)
		out.verdict = "HANG " + ct.observe()
		if os.Getenv("VERIF_DEBUG") != "" {
			buf := make([]byte, 1<<20)
			fmt.Fprintf(os.Stderr, "%s\n", buf[:runtime.Stack(buf, true)])
		}
		return out
	}
	out.verdict, out.probeUs = engineEpilogue(engine, base)
	return out
}

// timed runs fn and reports whether it returned within d.
func timed(d time.Duration, fn func()) (time.Duration, bool) {
	done := make(chan struct{})
	t0 := time.Now()
	go func() {
		defer close(done)
		defer func() {
			if p := recover(); p != nil {
				timedPanic.Store(strings.ReplaceAll(fmt.Sprint(p), " ", "_"))
			}
		}()
		fn()
	}()
	select {
	case <-done:
		return time.Since(t0), true
	case <-time.After(d):
		return d, false
	}
}

// timedPanic holds the value of a panic that escaped a call made by timed
// ("no call panics" is part of C16).
var timedPanic atomic.Value

func takeTimedPanic() string {
	if v, ok := timedPanic.Swap("").(string); ok {
		return v
	}
	return ""
}

// engineEpilogue: the model-free part of C16 on a finished scenario — a
// probe write proceeds immediately, Close returns, every later call returns
// ErrEngineClosed promptly, background work has stopped.
func engineEpilogue(engine *lungo.Engine, base int) (string, int64) {
	return engineEpilogueOpt(engine, base, true)
}

// strictSnap: no background writer can be active (the expiry goroutine never
// ticks), so e.txn and the token must already be free before the probe.
func engineEpilogueOpt(engine *lungo.Engine, base int, strictSnap bool) (string, int64) {
	takeTimedPanic()
	var probe time.Duration
	snap := lungo.VerifSnapshot(engine)
	if snap.Alive {
		if strictSnap && (snap.HasTxn || snap.TokenInUse) {
			return fmt.Sprintf("WEDGED-STATE txn=%v token=%v", snap.HasTxn, snap.TokenInUse), 0
		}
		var perr error
		d, ok := timed(2*time.Second, func() {
			txn, err := engine.Begin(nil, true)
			perr = err
			if err == nil {
				engine.Abort(txn)
			}
		})
		probe = d
		if p := takeTimedPanic(); p != "" {
			return "PANIC in the probe write: " + p, d.Microseconds()
		}
		if !ok {
			return "WEDGED probe write did not proceed", d.Microseconds()
		}
		if perr != nil {
			return "WEDGED probe: " + perr.Error(), d.Microseconds()
		}
	}
	if _, ok := timed(3*time.Second, func() { engine.Close() }); !ok {
		return "CLOSE-HANG", probe.Microseconds()
	}
	if p := takeTimedPanic(); p != "" {
		return "PANIC in Close: " + p, probe.Microseconds()
	}
	var bad []string
	_, ok := timed(2*time.Second, func() {
		if _, err := engine.Begin(nil, true); !errors.Is(err, lungo.ErrEngineClosed) {
			bad = append(bad, fmt.Sprintf("Begin(true)=%v", err))
		}
		if _, err := engine.Begin(nil, false); !errors.Is(err, lungo.ErrEngineClosed) {
			bad = append(bad, fmt.Sprintf("Begin(false)=%v", err))
		}
		if err := engine.Commit(lungo.NewTransaction(lungo.NewCatalog())); !errors.Is(err, lungo.ErrEngineClosed) {
			bad = append(bad, fmt.Sprintf("Commit=%v", err))
		}
		if _, err := engine.Watch(lungo.Handle{}, nil, nil, nil, nil); !errors.Is(err, lungo.ErrEngineClosed) {
			bad = append(bad, fmt.Sprintf("Watch=%v", err))
		}
		engine.Abort(lungo.NewTransaction(lungo.NewCatalog()))
		engine.Close()
	})
	if p := takeTimedPanic(); p != "" {
		return "PANIC in a call after Close: " + p, probe.Microseconds()
	}
	if !ok {
		return "NOTCLOSED a call after Close did not return", probe.Microseconds()
	}
	if len(bad) > 0 {
		return "NOTCLOSED " + strings.Join(bad, "; "), probe.Microseconds()
	}
	// background work stopped: goroutine count back at the baseline
	deadline := time.Now().Add(2 * time.Second)
	for runtime.NumGoroutine() > base {
		if time.Now().After(deadline) {
			return fmt.Sprintf("LEAK goroutines=%d baseline=%d", runtime.NumGoroutine(), base), probe.Microseconds()
		}
		time.Sleep(200 * time.Microsecond)
	}
	return "ok", probe.Microseconds()
}

// ---- generator ----

func genEngineScenario(r *rng) *escenario {
	sc := &escenario{nsess: 1 + r.intn(2)}
	if r.chance(1, 8) {
		sc.nsess = 0
	}
	na := 2 + r.intn(3)
	if r.chance(1, 2) {
		na = 2
	}
	closer := -1
	if r.chance(1, 4) {
		closer = r.intn(na)
	}
	cbs := []string{"ok", "ok", "err", "panic"}
	sid := func() int {
		if sc.nsess == 0 {
			return 0 // invalid on purpose: every session operation is skipped
		}
		return r.intn(sc.nsess)
	}
	ocs := func() int {
		if sc.nsess == 0 || r.chance(1, 2) {
			return -1
		}
		return r.intn(sc.nsess)
	}
	w := func() int { return 1 + r.intn(9) }
	filler := func(own int) eop {
		// operations that never acquire the token
		switch r.intn(7) {
		case 0:
			return eop{kind: "watch", cs: -1}
		case 1:
			return eop{kind: "unwatch", cs: -1}
		case 2:
			return eop{kind: "swrite", s: sid(), w: w(), cs: -1}
		case 3:
			return eop{kind: "scommit", s: sid(), cs: -1}
		case 4:
			return eop{kind: "sabort", s: sid(), cs: -1}
		case 5:
			if own >= 0 {
				return eop{kind: "use", cs: own, w: w(), cb: pick(r, cbs)}
			}
			return eop{kind: "swrite", s: sid(), w: w(), cs: -1}
		}
		if own >= 0 {
			return eop{kind: "swrite", s: own, w: w(), cs: -1}
		}
		return eop{kind: "watch", cs: -1}
	}
	for a := 0; a < na; a++ {
		var ops []eop
		nb := 1 + r.intn(3)
		for b := 0; b < nb; b++ {
			switch r.intn(9) {
			case 0, 1: // direct write transaction
				ops = append(ops, eop{kind: "begin", lock: true, cs: ocs()})
				for i := r.intn(3); i > 0; i-- {
					ops = append(ops, eop{kind: "write", w: w(), cs: -1})
				}
				if r.chance(1, 3) {
					ops = append(ops, filler(-1))
				}
				if r.chance(2, 3) {
					ops = append(ops, eop{kind: "commit", cs: -1})
				} else {
					ops = append(ops, eop{kind: "abort", cs: -1})
				}
			case 2, 3: // session transaction
				s := sid()
				ops = append(ops, eop{kind: "sstart", s: s, cs: -1})
				for i := r.intn(3); i > 0; i-- {
					ops = append(ops, filler(s))
				}
				switch r.intn(4) {
				case 0, 1:
					ops = append(ops, eop{kind: "scommit", s: s, cs: -1})
				case 2:
					ops = append(ops, eop{kind: "sabort", s: s, cs: -1})
				default:
					ops = append(ops, eop{kind: "send", s: s, cs: -1})
				}
			case 4:
				ops = append(ops, eop{kind: "wtx", s: sid(), w: w(), cb: pick(r, cbs), cs: -1})
			case 5:
				ops = append(ops, eop{kind: "use", cs: ocs(), w: w(), cb: pick(r, cbs)})
			case 6: // snapshot, possibly misused
				ops = append(ops, eop{kind: "begin", lock: false, cs: ocs()})
				switch r.intn(3) {
				case 0:
					ops = append(ops, eop{kind: "commit", cs: -1})
				case 1:
					ops = append(ops, eop{kind: "write", w: w(), cs: -1}, eop{kind: "abort", cs: -1})
				}
			default:
				ops = append(ops, filler(-1))
			}
			if a == closer && b == nb/2 {
				ops = append(ops, eop{kind: "close", cs: -1})
			}
		}
		ops = append(ops, eop{kind: "abort", cs: -1})
		sc.actors = append(sc.actors, ops)
	}
	return sc
}

// ---- worker process ----
//
// A scenario that hangs leaves its goroutines behind (they cannot be killed),
// and every later quiescence check pays for them in runtime.Stack.  Scenarios
// therefore run in a worker process (`harness engine-worker`, one case per
// line on stdin, one packed result per line on stdout) that is replaced after
// every verdict other than ok.

func showSx(n *sx) string {
	if !n.isL {
		return n.atom
	}
	parts := make([]string, len(n.list))
	for i, c := range n.list {
		parts[i] = showSx(c)
	}
	return "(" + strings.Join(parts, " ") + ")"
}

func enginePacked(c *sx) string {
	sc := parseScenario(c)
	out := runEngineScenario(sc, newRng(sc.seed))
	text := fmt.Sprintf("(engine %s (trace %s) (res %s))", sc.header(), strings.Join(out.trace, " "), strings.ReplaceAll(out.results, ":", "_"))
	return text + enginePackSep + out.verdict
}

func engineWorkerMain() {
	in := bufio.NewScanner(os.Stdin)
	in.Buffer(make([]byte, 1<<20), 1<<26)
	w := bufio.NewWriter(os.Stdout)
	for in.Scan() {
		c, err := parseSx(in.Text())
		if err != nil {
			fmt.Fprintln(w, "BAD-CASE")
		} else if c.isL && len(c.list) == 4 && c.list[0].atom == "stress" {
			seed, _ := strconv.ParseUint(c.list[1].atom, 10, 64)
			g, _ := strconv.Atoi(c.list[2].atom)
			n, _ := strconv.Atoi(c.list[3].atom)
			fmt.Fprintln(w, in.Text()+enginePackSep+engineStress(seed, g, n))
		} else if c.isL && len(c.list) > 0 && c.list[0].atom == "serial" {
			fmt.Fprintln(w, serialPacked(c))
		} else {
			fmt.Fprintln(w, enginePacked(c))
		}
		w.Flush()
	}
}

type engineWorkerProc struct {
	cmd   *exec.Cmd
	stdin io.WriteCloser
	lines chan string
}

var (
	engineWorkerMu sync.Mutex
	engineWorkerP  *engineWorkerProc
)

func engineViaWorker(caseText string) string {
	if os.Getenv("VERIF_ENGINE_INPROC") != "" {
		c, _ := parseSx(caseText)
		if c.isL && len(c.list) > 0 && c.list[0].atom == "serial" {
			return serialPacked(c)
		}
		return enginePacked(c)
	}
	engineWorkerMu.Lock()
	defer engineWorkerMu.Unlock()
	for attempt := 0; attempt < 2; attempt++ {
		if engineWorkerP == nil {
			cmd := exec.Command(os.Args[0], "engine-worker")
			cmd.Env = append(os.Environ(), "VERIF_ENGINE_INPROC=1")
			cmd.Stderr = os.Stderr
			stdin, err1 := cmd.StdinPipe()
			stdout, err2 := cmd.StdoutPipe()
			if err1 != nil || err2 != nil || cmd.Start() != nil {
				c, _ := parseSx(caseText)
				return enginePacked(c) // cannot start a worker: run in process
			}
			p := &engineWorkerProc{cmd: cmd, stdin: stdin, lines: make(chan string, 1)}
			go func() {
				sc := bufio.NewScanner(stdout)
				sc.Buffer(make([]byte, 1<<20), 1<<26)
				for sc.Scan() {
					p.lines <- sc.Text()
				}
				close(p.lines)
			}()
			engineWorkerP = p
		}
		p := engineWorkerP
		kill := func() {
			_ = p.stdin.Close()
			_ = p.cmd.Process.Kill()
			go func() { _ = p.cmd.Wait() }()
			engineWorkerP = nil
		}
		if _, err := io.WriteString(p.stdin, caseText+"\n"); err != nil {
			kill()
			continue
		}
		select {
		case line, ok := <-p.lines:
			if !ok {
				kill()
				continue // the worker died (a fatal runtime error is a finding only if it repeats)
			}
			if !strings.HasSuffix(line, enginePackSep+"ok") {
				kill() // leaked goroutines stay in the old process
			}
			return line
		case <-time.After(45 * time.Second):
			kill()
			return "HANG worker did not answer"
		}
	}
	return "CRASH the worker process died twice on this case (fatal runtime error in the engine?)"
}

// ---- family ----

const enginePackSep = " ==> "

func init() {
	register(&family{
		name: "engine",
		gen: func(r *rng) string {
			sc := genEngineScenario(r)
			return fmt.Sprintf("(engine %s (trace) (res) (seed %d))", sc.header(), r.u64()%1000000007)
		},
		run: func(c *sx) string { return engineViaWorker(showSx(c)) },
		rewrite: func(c *sx, packed string) (string, string) {
			i := strings.Index(packed, enginePackSep)
			if i < 0 {
				return "", packed // HANG / PANIC of the harness itself
			}
			return packed[:i], packed[i+len(enginePackSep):]
		},
		classify: func(c *sx, obs string) ([]string, bool) {
			sc := parseScenario(c)
			labels := []string{"verdict:" + strings.SplitN(obs, " ", 2)[0], fmt.Sprintf("actors:%d", len(sc.actors))}
			seen := map[string]bool{}
			for _, a := range sc.actors {
				for _, o := range a {
					k := "op:" + o.kind
					if o.kind == "wtx" || o.kind == "use" {
						k += ":" + o.cb
					}
					if !seen[k] {
						seen[k] = true
						labels = append(labels, k)
					}
				}
			}
			blk := false
			for _, d := range c.list {
				if d.isL && len(d.list) > 0 && d.list[0].atom == "trace" {
					for _, st := range d.list[1:] {
						k := st.list[0].atom
						if k != "r" && !seen["fault:"+k] {
							seen["fault:"+k] = true
							labels = append(labels, "fault:"+k)
						}
						locs := st.list[len(st.list)-1]
						for _, l := range locs.list {
							if l.atom == "blk" {
								blk = true
							}
						}
					}
					labels = append(labels, fmt.Sprintf("steps:%d", 10*(len(d.list)/10)))
				}
			}
			if blk {
				labels = append(labels, "contention")
			}
			return labels, len(sc.actors) >= 2
		},
	})
}
