package main

// oracle_alias.go — C17: caller-owned values and database state never alias.
// For every call: (1) the arguments are byte-identical after the call;
// (2) scribbling over every nested container of the arguments afterwards
// changes nothing in the database; (3) scribbling over every value handed
// back (ids, distinct values, decoded documents, index specifications)
// changes nothing in the database, in earlier snapshots or in later results.

import (
	"context"
	"fmt"
	"strings"
	"time"

	"go.mongodb.org/mongo-driver/bson"
	"go.mongodb.org/mongo-driver/bson/primitive"
	"go.mongodb.org/mongo-driver/mongo"
	"go.mongodb.org/mongo-driver/mongo/options"

	"github.com/256dpi/lungo"
	"github.com/256dpi/lungo/bsonkit"
)

// scribble overwrites, in place, everything reachable from v that shares
// memory with it: elements of documents and arrays, bytes of binaries.
// scribbleBinaries is switched off while the containers of engine-level
// arguments are overwritten (their binaries have been dealt with before).
var scribbleBinaries = true

func scribble(v interface{}) {
	switch x := v.(type) {
	case bson.D:
		for i := range x {
			scribble(x[i].Value)
			x[i].Value = "SCRIBBLED"
			x[i].Key = "zz" + x[i].Key
		}
	case *bson.D:
		if x != nil {
			scribble(*x)
		}
	case bson.A:
		for i := range x {
			scribble(x[i])
			x[i] = "SCRIBBLED"
		}
	case []interface{}:
		for i := range x {
			scribble(x[i])
			x[i] = "SCRIBBLED"
		}
	case bson.M:
		for k, e := range x {
			scribble(e)
			x[k] = "SCRIBBLED"
		}
	case primitive.Binary:
		if scribbleBinaries {
			for i := range x.Data {
				x.Data[i] ^= 0xff
			}
		}
	case []bson.D:
		for i := range x {
			scribble(x[i])
		}
	}
}

// flipBinaries flips the bytes of every binary reachable from v and leaves the
// containers as they are; it returns whether it found a non-empty binary.
func flipBinaries(v interface{}) bool {
	found := false
	switch x := v.(type) {
	case bson.D:
		for i := range x {
			found = flipBinaries(x[i].Value) || found
		}
	case *bson.D:
		if x != nil {
			found = flipBinaries(*x)
		}
	case bson.A:
		for i := range x {
			found = flipBinaries(x[i]) || found
		}
	case primitive.Binary:
		for i := range x.Data {
			x.Data[i] ^= 0xff
			found = true
		}
	}
	return found
}

func marshalAny(v interface{}) string {
	b, err := bson.Marshal(bson.D{{Key: "v", Value: v}})
	if err != nil {
		return "ERR:" + err.Error()
	}
	return string(b)
}

type aliasGen struct{ r *rng }

func (g *aliasGen) containerID() interface{} {
	r := g.r
	switch r.intn(6) {
	case 0:
		return bson.D{{Key: "x", Value: int32(r.intn(3))}, {Key: "y", Value: bson.A{int32(1), "s"}}}
	case 1:
		return primitive.Binary{Subtype: 0, Data: []byte{byte(r.intn(3)), 2, 3}}
	case 2:
		return bson.D{{Key: "k", Value: primitive.Binary{Subtype: 4, Data: []byte{byte(r.intn(3)), 9}}}}
	default:
		return int32(r.intn(6))
	}
}

func (g *aliasGen) value(depth int) interface{} {
	r := g.r
	switch r.intn(7) {
	case 0:
		return bson.A{int32(r.intn(3)), bson.D{{Key: "p", Value: int32(r.intn(3))}}, bson.A{int32(7)}}
	case 1:
		return bson.D{{Key: "q", Value: bson.A{int32(r.intn(3)), "t"}}}
	case 2:
		return primitive.Binary{Subtype: 0, Data: []byte{1, byte(r.intn(3))}}
	case 3:
		return "str"
	default:
		return int32(r.intn(4))
	}
}

// flatDoc: scalar id and scalar fields only (the shape a copy-avoiding fast
// path would treat specially)
func (g *aliasGen) flatDoc(withID bool) bson.D {
	d := bson.D{}
	if withID {
		d = append(d, bson.E{Key: "_id", Value: int32(100 + g.r.intn(1000))})
	}
	for _, k := range []string{"a", "b", "c"} {
		if g.r.chance(2, 3) {
			d = append(d, bson.E{Key: k, Value: pick(g.r, []interface{}{int32(1), int64(2), "s", true, nil, float64(1.5)})})
		}
	}
	return d
}

func (g *aliasGen) doc(withID bool) bson.D {
	if g.r.chance(1, 4) {
		return g.flatDoc(withID)
	}
	d := bson.D{}
	if withID {
		d = append(d, bson.E{Key: "_id", Value: g.containerID()})
	}
	for _, k := range []string{"a", "b", "c"} {
		if g.r.chance(2, 3) {
			d = append(d, bson.E{Key: k, Value: g.value(2)})
		}
	}
	return d
}

func oracleAlias(r *rng, n int, st *oracleStats) []oracleFailure {
	st.Rule = "histories of 6-20 driver calls with document-, array- and binary-valued ids and fields; after each call the arguments are compared with their bytes before the call, then every nested container of the arguments and of every returned value is overwritten in place and the whole database (documents, index entries, change log, earlier snapshots) is re-dumped; non-trivial = at least one returned value or argument contained a nested container"
	var fails []oracleFailure
	add := func(sig, what string, detail interface{}) {
		for _, f := range fails {
			if f.Signature == sig {
				return
			}
		}
		if len(fails) < 12 {
			fails = append(fails, oracleFailure{Property: "C17", Signature: sig, What: what, Detail: detail})
		}
	}
	for i := 0; i < n; i++ {
		st.Evaluations++
		if len(st.Samples) < 1 {
			st.Samples = append(st.Samples, "history of InsertOne/InsertMany/UpdateOne(upsert)/ReplaceOne/Distinct/Find/FindOneAndUpdate/BulkWrite calls with ids such as {x: 1, y: [1, \"s\"]} and Binary{0, [k 2 3]}; after each call every argument and every returned value is scribbled over and the catalog re-dumped")
		}
		if runAliasHistory(r, st, add) {
			st.Nontrivial++
		}
	}
	return fails
}

func runAliasHistory(r *rng, st *oracleStats, add func(sig, what string, detail interface{})) bool {
	client, engine, err := lungo.Open(nil, lungo.Options{Store: lungo.NewMemoryStore(), ExpireInterval: time.Hour})
	if err != nil {
		return false
	}
	defer engine.Close()
	g := &aliasGen{r: r}
	coll := client.Database("db").Collection("c")
	ctx := context.Background()
	nontrivial := false
	var snaps []*lungo.Catalog
	var snapDumps []string
	dumpAll := func() string {
		var sb strings.Builder
		sb.WriteString(byteDump(engine.Catalog()))
		for i, s := range snaps {
			if d := byteDump(s); d != snapDumps[i] {
				sb.WriteString(fmt.Sprintf("SNAPSHOT %d CHANGED\n", i))
			}
		}
		return sb.String()
	}
	// check runs after the call: args unchanged, then scribble args and results
	check := func(op string, args []interface{}, before []string, results map[string]interface{}) {
		for k, a := range args {
			if marshalAny(a) != before[k] {
				add("C17:call-modified-argument:"+op, "the call modified one of its arguments", op)
			}
		}
		d0 := dumpAll()
		for _, a := range args {
			scribble(a)
		}
		if d1 := dumpAll(); d1 != d0 {
			add("C17:argument-aliases-state:"+op, "modifying an argument after the call changed the database", op)
			d0 = d1
		}
		for what, v := range results {
			if v == nil {
				continue
			}
			switch v.(type) {
			case bson.D, bson.A, primitive.Binary, []interface{}, []bson.D:
				nontrivial = true
			}
			scribble(v)
			if d1 := dumpAll(); d1 != d0 {
				add("C17:result-aliases-state:"+op+":"+what, "modifying a value returned by "+op+" ("+what+") changed the database", op)
				d0 = d1
			}
		}
		if len(snaps) < 4 {
			c := engine.Catalog()
			snaps = append(snaps, c)
			snapDumps = append(snapDumps, byteDump(c))
		}
	}
	// engine-level writes (Engine.Begin -> Transaction.Insert / Replace / Bulk ->
	// Engine.Commit): the documents are handed over as *bson.D and must be
	// cloned by the transaction (transaction.go, mongokit/collection.go)
	handle := lungo.Handle{"db", "c"}
	engineWrite := func(op string, args []interface{}, fn func(txn *lungo.Transaction) error) {
		var before []string
		for _, a := range args {
			before = append(before, marshalAny(a))
		}
		txn, err := engine.Begin(ctx, true)
		if err != nil {
			return
		}
		if err := fn(txn); err != nil {
			engine.Abort(txn)
		} else if err := engine.Commit(txn); err != nil {
			engine.Abort(txn)
		}
		nontrivial = true
		// first the bytes of binaries only (bsonkit.Clone documents that it shares
		// them), under a signature of its own; then every container
		for k, a := range args {
			if marshalAny(a) != before[k] {
				add("C17:call-modified-argument:"+op, "the call modified one of its arguments", op)
			}
		}
		d0 := dumpAll()
		flipped := false
		for _, a := range args {
			flipped = flipBinaries(a) || flipped
		}
		if d1 := dumpAll(); d1 != d0 {
			add("C17:engine-level-argument-binary-bytes-shared", "overwriting the bytes of a Binary inside a document handed to "+op+" after the commit changed the stored document", op)
		}
		if flipped {
			for k := range before {
				before[k] = marshalAny(args[k])
			}
		}
		scribbleBinaries = false
		check(op, args, before, nil)
		scribbleBinaries = true
	}
	// a stored document to replace: a private copy of its _id
	storedID := func() (interface{}, bool) {
		var ids []interface{}
		if ns := engine.Catalog().Namespaces[handle]; ns != nil {
			for _, d := range ns.Documents.List {
				for _, e := range *d {
					if e.Key == "_id" {
						ids = append(ids, e.Value)
					}
				}
			}
		}
		if len(ids) == 0 {
			return nil, false
		}
		var cp bson.D
		raw, err := bson.Marshal(bson.D{{Key: "v", Value: pick(r, ids)}})
		if err != nil || bson.Unmarshal(raw, &cp) != nil {
			return nil, false
		}
		return normalize(cp[0].Value), true
	}
	steps := 6 + r.intn(15)
	for s := 0; s < steps; s++ {
		st.Dist["calls"]++
		if r.chance(1, 5) {
			switch r.intn(4) {
			case 3:
				// update operands and (on the upsert path) filter values end up in stored documents
				id, ok := storedID()
				up := !ok || r.chance(1, 3)
				if up {
					id = g.containerID()
				}
				q := bson.D{{Key: "_id", Value: id}}
				if up {
					q = append(q, bson.E{Key: "g", Value: bson.D{{Key: "$eq", Value: g.value(2)}}})
				}
				u := bson.D{{Key: "$set", Value: bson.D{{Key: "b", Value: g.value(2)}}}, {Key: "$push", Value: bson.D{{Key: "p", Value: g.value(2)}}}}
				engineWrite("Transaction.Update", []interface{}{&q, &u}, func(txn *lungo.Transaction) error {
					_, err := txn.Update(handle, &q, nil, &u, 0, 1, up, nil)
					return err
				})
			case 0:
				d1, d2 := g.doc(true), g.doc(r.chance(1, 2))
				engineWrite("Transaction.Insert", []interface{}{&d1, &d2}, func(txn *lungo.Transaction) error {
					_, err := txn.Insert(handle, bsonkit.List{&d1, &d2}, r.chance(1, 2))
					return err
				})
			case 1:
				id, ok := storedID()
				if !ok {
					id = g.containerID()
				}
				q := bson.D{{Key: "_id", Value: id}}
				rp := g.doc(false)
				if r.chance(2, 3) {
					// the replacement carries the _id of the document it replaces (a second private copy)
					id2, _ := storedID()
					if ok && marshalAny(id2) == marshalAny(id) {
						rp = append(bson.D{{Key: "_id", Value: id2}}, rp...)
					}
				}
				up := r.chance(1, 3)
				engineWrite("Transaction.Replace", []interface{}{&q, &rp}, func(txn *lungo.Transaction) error {
					_, err := txn.Replace(handle, &q, nil, &rp, up)
					return err
				})
			default:
				ins := g.doc(true)
				id, ok := storedID()
				if !ok {
					id = g.containerID()
				}
				q := bson.D{{Key: "_id", Value: id}}
				rp := append(bson.D{{Key: "_id", Value: id}}, g.doc(false)...)
				if raw, err := bson.Marshal(rp); err == nil {
					var cp bson.D
					if bson.Unmarshal(raw, &cp) == nil {
						rp = normalize(cp).(bson.D)
					}
				}
				engineWrite("Transaction.Bulk", []interface{}{&ins, &q, &rp}, func(txn *lungo.Transaction) error {
					_, err := txn.Bulk(handle, []lungo.Operation{
						{Opcode: lungo.Insert, Document: &ins},
						{Opcode: lungo.Replace, Filter: &q, Document: &rp, Upsert: r.chance(1, 3)},
					}, r.chance(1, 2))
					return err
				})
			}
			continue
		}
		switch r.intn(10) {
		case 0, 1, 2:
			d := g.doc(r.chance(4, 5))
			b := []string{marshalAny(d)}
			res, err := coll.InsertOne(ctx, d)
			rs := map[string]interface{}{}
			if err == nil {
				rs["InsertedID"] = res.InsertedID
			}
			check("InsertOne", []interface{}{d}, b, rs)
		case 3:
			docs := []interface{}{g.doc(true), g.doc(true)}
			b := []string{marshalAny(docs[0]), marshalAny(docs[1])}
			res, _ := coll.InsertMany(ctx, docs)
			rs := map[string]interface{}{}
			if res != nil {
				rs["InsertedIDs"] = res.InsertedIDs
			}
			check("InsertMany", []interface{}{docs[0], docs[1]}, b, rs)
		case 4:
			f := bson.D{{Key: "_id", Value: g.containerID()}}
			u := bson.D{{Key: "$set", Value: bson.D{{Key: "b", Value: g.value(2)}}}}
			b := []string{marshalAny(f), marshalAny(u)}
			res, err := coll.UpdateOne(ctx, f, u, options.Update().SetUpsert(r.chance(1, 2)))
			rs := map[string]interface{}{}
			if err == nil {
				rs["UpsertedID"] = res.UpsertedID
			}
			check("UpdateOne", []interface{}{f, u}, b, rs)
		case 5:
			f := bson.D{{Key: "_id", Value: g.containerID()}}
			rp := g.doc(false)
			b := []string{marshalAny(f), marshalAny(rp)}
			res, err := coll.ReplaceOne(ctx, f, rp, options.Replace().SetUpsert(r.chance(1, 2)))
			rs := map[string]interface{}{}
			if err == nil {
				rs["UpsertedID"] = res.UpsertedID
			}
			check("ReplaceOne", []interface{}{f, rp}, b, rs)
		case 6:
			f := bson.D{}
			b := []string{marshalAny(f)}
			vs, err := coll.Distinct(ctx, pick(r, []string{"a", "b", "_id", "a.q", "_id.y"}), f)
			rs := map[string]interface{}{}
			if err == nil {
				rs["values"] = vs
			}
			check("Distinct", []interface{}{f}, b, rs)
		case 7:
			f := bson.D{}
			b := []string{marshalAny(f)}
			cur, err := coll.Find(ctx, f, options.Find().SetSort(bson.D{{Key: "a", Value: 1}}))
			rs := map[string]interface{}{}
			if err == nil {
				var out []bson.D
				if cur.All(ctx, &out) == nil {
					rs["documents"] = out
				}
			}
			check("Find", []interface{}{f}, b, rs)
		case 8:
			f := bson.D{{Key: "_id", Value: g.containerID()}}
			u := bson.D{{Key: "$set", Value: bson.D{{Key: "c", Value: g.value(2)}}}}
			b := []string{marshalAny(f), marshalAny(u)}
			o := options.FindOneAndUpdate().SetUpsert(r.chance(1, 2))
			if r.chance(1, 2) {
				o.SetReturnDocument(options.After)
			}
			if r.chance(1, 3) {
				o.SetProjection(bson.D{{Key: "a", Value: 1}})
			}
			var out bson.D
			err := coll.FindOneAndUpdate(ctx, f, u, o).Decode(&out)
			rs := map[string]interface{}{}
			if err == nil {
				rs["document"] = out
			}
			check("FindOneAndUpdate", []interface{}{f, u}, b, rs)
		default:
			insDoc := g.doc(true)
			updFilter := bson.D{{Key: "_id", Value: g.containerID()}}
			updDoc := bson.D{{Key: "$set", Value: bson.D{{Key: "a", Value: g.value(2)}}}}
			repFilter := bson.D{{Key: "_id", Value: g.containerID()}}
			repDoc := g.doc(false)
			models := []mongo.WriteModel{
				mongo.NewInsertOneModel().SetDocument(insDoc),
				mongo.NewUpdateOneModel().SetFilter(updFilter).SetUpdate(updDoc).SetUpsert(true),
				mongo.NewReplaceOneModel().SetFilter(repFilter).SetReplacement(repDoc).SetUpsert(true),
			}
			bulkArgs := []interface{}{insDoc, updFilter, updDoc, repFilter, repDoc}
			var bulkBefore []string
			for _, a := range bulkArgs {
				bulkBefore = append(bulkBefore, marshalAny(a))
			}
			res, _ := coll.BulkWrite(ctx, models)
			rs := map[string]interface{}{}
			if res != nil {
				for k, v := range res.UpsertedIDs {
					rs[fmt.Sprintf("UpsertedIDs[%d]", k)] = v
				}
			}
			check("BulkWrite", bulkArgs, bulkBefore, rs)
		}
	}
	// index specifications
	if _, err := coll.Indexes().CreateOne(ctx, mongo.IndexModel{Keys: bson.D{{Key: "a", Value: 1}}, Options: options.Index().SetPartialFilterExpression(bson.D{{Key: "b", Value: bson.D{{Key: "$gt", Value: 0}}}})}); err == nil {
		cur, err := coll.Indexes().List(ctx)
		if err == nil {
			var out []bson.D
			if cur.All(ctx, &out) == nil {
				check("ListIndexes", nil, nil, map[string]interface{}{"specifications": out})
			}
		}
	}
	return nontrivial
}

func init() {
	registerOracle(&oracle{prop: "C17", name: "scribble-arguments-and-results", run: oracleAlias})
}
