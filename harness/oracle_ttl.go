package main

// C19 oracle (model-free, on the real engine): a TTL pass removes exactly
// the expired documents and nothing else.
//
// The rule is re-implemented here from the property statement, over the
// index definitions and documents this file itself created (never read back
// from lungo): a document is expired iff its collection has a TTL index on a
// field whose value — reached through sub-documents / arrays of
// sub-documents for dotted paths — is a date, or an array containing a date,
// older than now minus the index's expireAfterSeconds.

import (
	"context"
	"fmt"
	"sort"
	"strconv"
	"strings"
	"time"

	"go.mongodb.org/mongo-driver/bson"
	"go.mongodb.org/mongo-driver/bson/primitive"
	"go.mongodb.org/mongo-driver/mongo"
	"go.mongodb.org/mongo-driver/mongo/options"

	"github.com/256dpi/lungo"
	"github.com/256dpi/lungo/bsonkit"
)

type ttlIndex struct {
	field   string
	seconds int32
}

type ttlColl struct {
	db, name string
	ttl      []ttlIndex // TTL indexes that were created successfully
	others   int        // number of non-TTL secondary indexes
	docs     []bson.D   // inserted documents, in insertion order
}

func (c *ttlColl) handle() lungo.Handle { return lungo.Handle{c.db, c.name} }

// ttlReach: the values at a dotted path, fanning out over arrays of documents.
func ttlReach(v interface{}, parts []string) []interface{} {
	if len(parts) == 0 {
		return []interface{}{v}
	}
	switch x := v.(type) {
	case bson.D:
		for _, e := range x {
			if e.Key == parts[0] {
				return ttlReach(e.Value, parts[1:])
			}
		}
	case bson.A:
		var out []interface{}
		for _, el := range x {
			if d, ok := el.(bson.D); ok {
				out = append(out, ttlReach(d, parts)...)
			}
		}
		return out
	}
	return nil
}

// ttlOldDate: v is a date, or an array with an element that is a date, before cutoffMs.
func ttlOldDate(v interface{}, cutoffMs int64) bool {
	switch x := v.(type) {
	case primitive.DateTime:
		return int64(x) < cutoffMs
	case bson.A:
		for _, el := range x {
			if dt, ok := el.(primitive.DateTime); ok && int64(dt) < cutoffMs {
				return true
			}
		}
	}
	return false
}

// ttlExpired: the property's rule at wall-clock time nowNs.
func ttlExpired(doc bson.D, idx []ttlIndex, nowNs int64) bool {
	for _, ix := range idx {
		expiryNs := int64(ix.seconds) * int64(time.Second)
		if ix.seconds == 0 {
			expiryNs = 1 // expireAfterSeconds 0: everything older than "now"
		}
		cutoffMs := floorDiv(nowNs-expiryNs, 1000000)
		for _, v := range ttlReach(doc, strings.Split(ix.field, ".")) {
			if ttlOldDate(v, cutoffMs) {
				return true
			}
		}
	}
	return false
}

func floorDiv(a, b int64) int64 {
	q := a / b
	if (a%b != 0) && ((a < 0) != (b < 0)) {
		q--
	}
	return q
}

func ttlMarshal(d bson.D) string {
	b, err := bson.Marshal(d)
	if err != nil {
		return "ERR:" + err.Error()
	}
	return string(b)
}

func ttlDocsOf(cat *lungo.Catalog, h lungo.Handle) []string {
	ns := cat.Namespaces[h]
	if ns == nil {
		return nil
	}
	out := make([]string, 0, len(ns.Documents.List))
	for _, d := range ns.Documents.List {
		out = append(out, ttlMarshal(*d))
	}
	return out
}

// one Expire pass through the exported transaction API; returns the wall
// clock just before and just after Transaction.Expire
func ttlPass(engine *lungo.Engine) (before, after int64, err error) {
	txn, err := engine.Begin(context.Background(), true)
	if err != nil {
		return 0, 0, err
	}
	before = time.Now().UnixNano()
	err = txn.Expire()
	after = time.Now().UnixNano()
	if err != nil {
		engine.Abort(txn)
		return before, after, err
	}
	if err := engine.Commit(txn); err != nil {
		engine.Abort(txn)
		return before, after, err
	}
	return before, after, nil
}

type ttlAdd func(sig, what string, detail interface{})

var ttlOffsetsSec = []int64{-3 * 3600, -7200 - 5, -7200 + 5, -3600 - 5, -3600 + 5, -60 - 5, -60 + 5, -5, 5, 3600}
var ttlSeconds = []int32{0, 60, 3600, 7200}

// runTTLCase builds one catalog from the sub-seed, runs two passes and checks
// everything; returns (non-trivial, labels).
func runTTLCase(seed uint64, st *oracleStats, add ttlAdd) bool {
	r := newRng(seed)
	detail := map[string]interface{}{"seed": strconv.FormatUint(seed, 10)}
	client, engine, err := lungo.Open(nil, lungo.Options{Store: lungo.NewMemoryStore(), ExpireInterval: time.Hour})
	if err != nil {
		add("C19:open-failed", "lungo.Open failed: "+err.Error(), detail)
		return false
	}
	defer engine.Close()
	ctx := context.Background()
	base := time.Now()
	baseMs := base.UnixMilli()
	date := func() primitive.DateTime { return primitive.DateTime(baseMs + 1000*pick(r, ttlOffsetsSec)) }
	kinds := map[string]bool{}
	var val func(depth int) interface{}
	val = func(depth int) interface{} {
		switch r.intn(16) {
		case 0:
			kinds["null"] = true
			return nil
		case 1:
			kinds["int64-like-date"] = true
			return int64(date())
		case 2:
			kinds["double-like-date"] = true
			return float64(int64(date()))
		case 3:
			kinds["string"] = true
			return "2001-01-01T00:00:00Z"
		case 4:
			kinds["array-date+other"] = true
			return bson.A{int32(1), date(), "x"}
		case 5:
			kinds["array-dates"] = true
			return bson.A{date(), date()}
		case 6:
			kinds["array-empty"] = true
			return bson.A{}
		case 7:
			kinds["array-no-date"] = true
			return bson.A{int64(date()), "x", nil}
		case 8:
			kinds["array-nested"] = true
			return bson.A{bson.A{date()}}
		case 9:
			kinds["timestamp"] = true
			return primitive.Timestamp{T: uint32(int64(date()) / 1000), I: 1}
		case 10:
			kinds["subdocument"] = true
			return bson.D{{Key: "x", Value: date()}}
		case 11:
			kinds["bool/oid"] = true
			if r.chance(1, 2) {
				return true
			}
			return primitive.ObjectID{0, 1, 2, 3, 4, 5, 6, 7, 8, 9, 10, byte(r.intn(256))}
		default:
			kinds["date"] = true
			return date()
		}
	}
	colls := []*ttlColl{{db: "db", name: "c"}, {db: "db", name: "d"}, {db: "e", name: "c"}}
	fields := []string{"a", "b", "s.t"}
	// indexes: some before, some after the documents (Build vs incremental)
	type pending struct {
		c   *ttlColl
		mod mongo.IndexModel
		ttl *ttlIndex
	}
	var pend []pending
	for _, c := range colls {
		nTTL := pick(r, []int{0, 1, 1, 2})
		perm := []int{0, 1, 2}
		for i := 2; i > 0; i-- {
			j := r.intn(i + 1)
			perm[i], perm[j] = perm[j], perm[i]
		}
		for i := 0; i < nTTL; i++ {
			ix := ttlIndex{field: fields[perm[i]], seconds: pick(r, ttlSeconds)}
			o := options.Index().SetExpireAfterSeconds(ix.seconds)
			if r.chance(1, 6) {
				// a partial TTL index: lungo (and the property statement) ignore the filter for expiry
				o.SetPartialFilterExpression(bson.D{{Key: "k", Value: int32(1)}})
			}
			dir := pick(r, []int32{1, -1})
			pend = append(pend, pending{c, mongo.IndexModel{Keys: bson.D{{Key: ix.field, Value: dir}}, Options: o}, &ix})
		}
		if r.chance(1, 2) {
			pend = append(pend, pending{c, mongo.IndexModel{Keys: bson.D{{Key: "k", Value: int32(1)}}}, nil})
		}
		if r.chance(1, 3) {
			// a non-TTL index on a field that holds old dates, possibly compound
			keys := bson.D{{Key: fields[perm[2]], Value: int32(1)}}
			if r.chance(1, 2) {
				keys = append(keys, bson.E{Key: "k", Value: int32(-1)})
			}
			pend = append(pend, pending{c, mongo.IndexModel{Keys: keys}, nil})
		}
		if r.chance(1, 4) {
			pend = append(pend, pending{c, mongo.IndexModel{Keys: bson.D{{Key: "_id", Value: int32(1)}, {Key: "a", Value: int32(1)}}, Options: options.Index().SetUnique(true)}, nil})
		}
	}
	create := func(p pending) {
		_, err := client.Database(p.c.db).Collection(p.c.name).Indexes().CreateOne(ctx, p.mod)
		if err != nil {
			add("C19:create-index-failed", "creating a single-field index failed: "+err.Error(), detail)
			return
		}
		if p.ttl != nil {
			p.c.ttl = append(p.c.ttl, *p.ttl)
		} else {
			p.c.others++
		}
	}
	var late []pending
	for _, p := range pend {
		if r.chance(2, 3) {
			create(p)
		} else {
			late = append(late, p)
		}
	}
	// a compound TTL index must be refused: "the field" of a TTL index is well defined
	if r.chance(1, 8) {
		_, err := client.Database("db").Collection("c").Indexes().CreateOne(ctx, mongo.IndexModel{
			Keys: bson.D{{Key: "x", Value: int32(1)}, {Key: "y", Value: int32(1)}}, Options: options.Index().SetExpireAfterSeconds(60)})
		if err == nil {
			add("C19:compound-ttl-index-accepted", "a compound index with expireAfterSeconds was accepted", detail)
		}
	}
	id := 0
	for _, c := range colls {
		n := r.intn(11)
		if c.name == "d" && r.chance(1, 3) {
			n = 0
		}
		for i := 0; i < n; i++ {
			id++
			d := bson.D{{Key: "_id", Value: int32(id)}}
			if r.chance(5, 6) {
				d = append(d, bson.E{Key: "a", Value: val(0)})
			}
			if r.chance(1, 2) {
				d = append(d, bson.E{Key: "b", Value: val(0)})
			}
			switch r.intn(6) {
			case 0:
				kinds["path:subdocument"] = true
				d = append(d, bson.E{Key: "s", Value: bson.D{{Key: "t", Value: date()}}})
			case 1:
				kinds["path:subdocument-array-leaf"] = true
				d = append(d, bson.E{Key: "s", Value: bson.D{{Key: "t", Value: bson.A{"x", date()}}}})
			case 2:
				kinds["path:array-of-subdocuments"] = true
				d = append(d, bson.E{Key: "s", Value: bson.A{bson.D{{Key: "t", Value: date()}}, bson.D{{Key: "u", Value: date()}}, bson.D{{Key: "t", Value: date()}}, int32(3)}})
			case 3:
				kinds["path:not-a-document"] = true
				d = append(d, bson.E{Key: "s", Value: date()})
			case 4:
				kinds["path:other-key"] = true
				d = append(d, bson.E{Key: "s", Value: bson.D{{Key: "u", Value: date()}}})
			}
			if r.chance(1, 2) {
				d = append(d, bson.E{Key: "k", Value: int32(r.intn(2))})
			}
			if _, err := client.Database(c.db).Collection(c.name).InsertOne(ctx, d); err != nil {
				add("C19:insert-failed", "InsertOne failed: "+err.Error(), detail)
				continue
			}
			c.docs = append(c.docs, d)
		}
	}
	for _, p := range late {
		create(p)
	}

	// ---- first pass
	cat0 := engine.Catalog()
	dump0 := map[lungo.Handle]string{}
	for h, ns := range cat0.Namespaces {
		dump0[h] = collDump(ns)
	}
	oplog0 := cat0.Namespaces[lungo.Oplog].Documents.List
	tb, ta, err := ttlPass(engine)
	if err != nil {
		add("C19:expire-error", "Transaction.Expire / Commit returned an error: "+err.Error(), detail)
		return false
	}
	if ta-base.UnixNano() > int64(4*time.Second) {
		st.Dist["skipped:slow-run"]++
		return false
	}
	cat1 := engine.Catalog()
	totalRemoved, totalKeptInTTL := 0, 0 // by the rule
	actualRemoved := 0
	expectEvents := map[string][]interface{}{} // "db.coll" -> ids of the documents that actually went, in collection order
	for _, c := range colls {
		var keep []string
		gotSet0 := map[string]bool{}
		for _, g := range ttlDocsOf(cat1, c.handle()) {
			gotSet0[g] = true
		}
		for _, d := range c.docs {
			e0, e1 := ttlExpired(d, c.ttl, tb), ttlExpired(d, c.ttl, ta)
			if e0 != e1 {
				st.Dist["skipped:clock-window"]++
				return false
			}
			if !gotSet0[ttlMarshal(d)] {
				actualRemoved++
				expectEvents[c.db+"."+c.name] = append(expectEvents[c.db+"."+c.name], d[0].Value)
			}
			if e0 {
				totalRemoved++
			} else {
				keep = append(keep, ttlMarshal(d))
				if len(c.ttl) > 0 {
					totalKeptInTTL++
				}
			}
		}
		got := ttlDocsOf(cat1, c.handle())
		if strings.Join(got, "\x00|") != strings.Join(keep, "\x00|") {
			gotSet := map[string]bool{}
			for _, g := range got {
				gotSet[g] = true
			}
			keepSet := map[string]bool{}
			for _, k := range keep {
				keepSet[k] = true
			}
			sig, what := "C19:remaining-documents-reordered", "the remaining documents are the right set but not in their original order"
			for _, d := range c.docs {
				m := ttlMarshal(d)
				if keepSet[m] && !gotSet[m] {
					sig, what = "C19:unexpired-document-removed", fmt.Sprintf("document _id=%v of %s.%s is not expired (indexes %v) but was removed", d[0].Value, c.db, c.name, c.ttl)
					break
				}
				if !keepSet[m] && gotSet[m] {
					sig, what = "C19:expired-document-kept", fmt.Sprintf("document _id=%v of %s.%s is expired (indexes %v) but was kept", d[0].Value, c.db, c.name, c.ttl)
					break
				}
			}
			for _, g := range got {
				if !keepSet[g] {
					known := false
					for _, d := range c.docs {
						if ttlMarshal(d) == g {
							known = true
						}
					}
					if !known {
						sig, what = "C19:document-content-changed", "a remaining document is not byte-identical to any inserted document"
					}
				}
			}
			add(sig, what, detail)
		}
		ns1 := cat1.Namespaces[c.handle()]
		if len(c.ttl) == 0 {
			// no TTL index: documents, index definitions and index entries byte-identical
			if ns1 != nil && collDump(ns1) != dump0[c.handle()] {
				add("C19:non-ttl-collection-changed", fmt.Sprintf("collection %s.%s has no TTL index but its documents or indexes changed", c.db, c.name), detail)
			}
		} else if ns1 != nil {
			// index definitions kept; no entry refers to a removed document
			d1 := collDump(ns1)
			if strings.Contains(d1, "  entry -1 ") {
				add("C19:index-entry-of-removed-document", fmt.Sprintf("an index of %s.%s still holds an entry of a removed document", c.db, c.name), detail)
			}
			if ttlIndexLines(d1) != ttlIndexLines(dump0[c.handle()]) {
				add("C19:index-definitions-changed", fmt.Sprintf("the index definitions of %s.%s changed", c.db, c.name), detail)
			}
		}
	}
	for h := range cat1.Namespaces {
		if _, ok := dump0[h]; !ok {
			add("C19:namespace-appeared", "the pass created namespace "+h.String(), detail)
		}
	}
	for h := range dump0 {
		if cat1.Namespaces[h] == nil {
			add("C19:namespace-disappeared", "the pass dropped namespace "+h.String(), detail)
		}
	}
	// the oplog gained exactly one delete event per removed document and nothing else
	oplog1 := cat1.Namespaces[lungo.Oplog].Documents.List
	if len(oplog1) < len(oplog0) {
		add("C19:oplog-shrank", "the oplog lost events during the pass", detail)
	} else {
		for i := range oplog0 {
			if oplog0[i] != oplog1[i] && ttlMarshal(*oplog0[i]) != ttlMarshal(*oplog1[i]) {
				add("C19:oplog-history-changed", "an earlier oplog event changed during the pass", detail)
				break
			}
		}
		ttlCheckEvents(oplog1[len(oplog0):], expectEvents, actualRemoved, add, detail)
	}
	if actualRemoved == 0 && len(oplog1) == len(oplog0) && cat1 != cat0 {
		add("C19:noop-pass-changed-catalog", "a pass that removed nothing replaced the engine's catalog", detail)
	}
	// ---- second pass: everything expired is gone, so it must change nothing
	_, ta2, err := ttlPass(engine)
	if err != nil {
		add("C19:expire-error", "second Transaction.Expire returned an error: "+err.Error(), detail)
		return false
	}
	stable := true
	for _, c := range colls {
		for _, d := range c.docs {
			if ttlExpired(d, c.ttl, ta) != ttlExpired(d, c.ttl, ta2) {
				stable = false
			}
		}
	}
	if stable && engine.Catalog() != cat1 {
		add("C19:noop-pass-changed-catalog", "a second pass (nothing left to expire) replaced the engine's catalog", detail)
	}
	nT := 0
	for _, c := range colls {
		nT += len(c.ttl)
	}
	st.Dist[fmt.Sprintf("ttl-indexes:%d", nT)]++
	switch {
	case totalRemoved == 0:
		st.Dist["removed:0"]++
	case totalRemoved < 4:
		st.Dist["removed:1-3"]++
	default:
		st.Dist["removed:4+"]++
	}
	for k := range kinds {
		st.Dist["value:"+k]++
	}
	return totalRemoved > 0 && totalKeptInTTL > 0
}

func ttlIndexLines(dump string) string {
	var out []string
	for _, l := range strings.Split(dump, "\n") {
		if strings.HasPrefix(l, " index ") {
			out = append(out, l)
		}
	}
	return strings.Join(out, "\n")
}

// ttlCheckEvents: the new events are exactly the delete events of the removed
// documents: per namespace in removal (= collection) order, namespaces in any
// order but not interleaved.
func ttlCheckEvents(evs []bsonkit.Doc, expect map[string][]interface{}, total int, add ttlAdd, detail interface{}) {
	got := map[string][]interface{}{}
	var nsOrder []string
	for _, e := range evs {
		d := *e
		var op string
		var ns, key bson.D
		hasFull := false
		for _, f := range d {
			switch f.Key {
			case "operationType":
				op, _ = f.Value.(string)
			case "ns":
				ns, _ = f.Value.(bson.D)
			case "documentKey":
				key, _ = f.Value.(bson.D)
			case "fullDocument", "updateDescription":
				hasFull = true
			}
		}
		if op != "delete" {
			add("C19:unexpected-event", "the pass logged an event that is not a delete event: "+op, detail)
			return
		}
		if hasFull {
			add("C19:delete-event-shape", "a delete event carries fullDocument / updateDescription", detail)
		}
		var db, coll string
		for _, f := range ns {
			if f.Key == "db" {
				db, _ = f.Value.(string)
			}
			if f.Key == "coll" {
				coll, _ = f.Value.(string)
			}
		}
		name := db + "." + coll
		if len(nsOrder) == 0 || nsOrder[len(nsOrder)-1] != name {
			nsOrder = append(nsOrder, name)
		}
		if len(key) != 1 || key[0].Key != "_id" {
			add("C19:delete-event-shape", "documentKey of a delete event is not {_id: …}", detail)
			return
		}
		got[name] = append(got[name], key[0].Value)
	}
	if len(evs) < total {
		add("C19:delete-event-missing", fmt.Sprintf("%d documents were removed but only %d delete events were logged", total, len(evs)), detail)
		return
	}
	if len(evs) > total {
		add("C19:unexpected-event", fmt.Sprintf("%d documents were removed but %d events were logged", total, len(evs)), detail)
		return
	}
	seen := map[string]bool{}
	for _, n := range nsOrder {
		if seen[n] {
			add("C19:delete-events-interleaved", "the delete events of one namespace are not contiguous", detail)
		}
		seen[n] = true
	}
	names := map[string]bool{}
	for n := range got {
		names[n] = true
	}
	for n := range expect {
		names[n] = true
	}
	for n := range names {
		g, w := got[n], expect[n]
		if fmt.Sprint(g) == fmt.Sprint(w) {
			continue
		}
		gs, ws := fmt.Sprint(ttlSorted(g)), fmt.Sprint(ttlSorted(w))
		if gs == ws {
			add("C19:delete-event-order", "the delete events of "+n+" are not in the order of the removed documents", detail)
		} else {
			add("C19:delete-event-wrong-document", fmt.Sprintf("delete events of %s name %v, removed documents are %v", n, g, w), detail)
		}
	}
}

func ttlSorted(l []interface{}) []string {
	out := make([]string, 0, len(l))
	for _, v := range l {
		out = append(out, fmt.Sprint(v))
	}
	sort.Strings(out)
	return out
}

// ttlBoundaryProbe: the exact cut-off.  A document dated D under a TTL index
// of E seconds must survive every pass that ends while floor((now - E) ms)
// <= D and must be gone after any pass that starts once D < floor((now - E) ms).
// Passes run back to back across the boundary, so an off-by-one comparison
// ($lte instead of $lt) or a shifted cut-off shows within a millisecond.
func ttlBoundaryProbe(seconds int32, add ttlAdd, st *oracleStats) {
	detail := map[string]interface{}{"probe": "boundary", "expireAfterSeconds": seconds}
	client, engine, err := lungo.Open(nil, lungo.Options{Store: lungo.NewMemoryStore(), ExpireInterval: time.Hour})
	if err != nil {
		return
	}
	defer engine.Close()
	ctx := context.Background()
	coll := client.Database("db").Collection("edge")
	if _, err := coll.Indexes().CreateOne(ctx, mongo.IndexModel{Keys: bson.D{{Key: "a", Value: int32(1)}}, Options: options.Index().SetExpireAfterSeconds(seconds)}); err != nil {
		add("C19:create-index-failed", "creating a TTL index failed: "+err.Error(), detail)
		return
	}
	expiryNs := int64(seconds) * int64(time.Second)
	if seconds == 0 {
		expiryNs = 1
	}
	d := time.Now().UnixMilli() - int64(seconds)*1000 + 25 // crosses the cut-off in about 25 ms
	if _, err := coll.InsertOne(ctx, bson.D{{Key: "_id", Value: int32(1)}, {Key: "a", Value: primitive.DateTime(d)}}); err != nil {
		return
	}
	h := lungo.Handle{"db", "edge"}
	deadline := time.Now().Add(2 * time.Second)
	passes := 0
	for time.Now().Before(deadline) {
		tb, ta, err := ttlPass(engine)
		if err != nil {
			add("C19:expire-error", "Transaction.Expire returned an error: "+err.Error(), detail)
			return
		}
		if ta < tb {
			return // the wall clock stepped backwards: no verdict
		}
		passes++
		present := len(engine.Catalog().Namespaces[h].Documents.List) == 1
		cutBefore := floorDiv(tb-expiryNs, 1000000)
		cutAfter := floorDiv(ta-expiryNs, 1000000)
		if !present {
			if !(d < cutAfter) {
				add("C19:removed-at-or-before-cutoff", fmt.Sprintf("a document dated exactly %d ms from the cut-off was removed (expireAfterSeconds %d): only dates strictly older than now - expiry expire", d-cutAfter, seconds), detail)
			}
			st.Dist["boundary-probe-passes"] += passes
			return
		}
		if d < cutBefore {
			add("C19:expired-document-kept", fmt.Sprintf("a document dated %d ms before the cut-off survived a pass (expireAfterSeconds %d)", cutBefore-d, seconds), detail)
			return
		}
	}
	add("C19:expired-document-kept", "boundary probe: the document never expired", detail)
}

// ttlDollarFieldProbe: an index key with a field name that starts with `$`
// (also in an inner path segment) must be refused, as MongoDB does: Expire
// turns the key of a TTL index into the field condition {field: {$lt: …}},
// and a `$`-name there is read as an operator — the matcher rejects it, the
// whole pass fails and nothing in any collection expires (the former finding
// C19:dollar-field-ttl-index-blocks-expiry, fixed by 8b15f6d).  Whatever the
// index calls return, the expired document of the other collection must go.
func ttlDollarFieldProbe(add ttlAdd) {
	detail := map[string]interface{}{"probe": "dollar-field"}
	client, engine, err := lungo.Open(nil, lungo.Options{Store: lungo.NewMemoryStore(), ExpireInterval: time.Hour})
	if err != nil {
		return
	}
	defer engine.Close()
	ctx := context.Background()
	bad := client.Database("db").Collection("bad")
	bad.InsertOne(ctx, bson.D{{Key: "_id", Value: int32(1)}})
	for _, key := range []string{"$x", "a.$x"} {
		for _, ttl := range []bool{true, false} {
			o := options.Index()
			if ttl {
				o.SetExpireAfterSeconds(60)
			}
			if _, err := bad.Indexes().CreateOne(ctx, mongo.IndexModel{Keys: bson.D{{Key: key, Value: int32(1)}}, Options: o}); err == nil {
				add("C19:dollar-field-index-accepted", fmt.Sprintf("an index on field %q (expireAfterSeconds set: %v) was accepted; index keys with a field name starting with '$' must be refused", key, ttl), detail)
			}
		}
	}
	good := client.Database("db").Collection("good")
	if _, err := good.Indexes().CreateOne(ctx, mongo.IndexModel{Keys: bson.D{{Key: "a", Value: int32(1)}}, Options: options.Index().SetExpireAfterSeconds(60)}); err != nil {
		add("C19:create-index-failed", "creating a TTL index failed: "+err.Error(), detail)
		return
	}
	good.InsertOne(ctx, bson.D{{Key: "_id", Value: int32(1)}, {Key: "a", Value: primitive.DateTime(time.Now().UnixMilli() - 3600*1000)}})
	_, _, perr := ttlPass(engine)
	left := len(engine.Catalog().Namespaces[lungo.Handle{"db", "good"}].Documents.List)
	if perr != nil || left != 0 {
		add("C19:dollar-field-ttl-index-blocks-expiry", fmt.Sprintf("with a `$`-field index attempted on db.bad the pass reports %v and the expired document of db.good stays (%d left)", perr, left), detail)
	}
}

// ttlBackgroundProbe: the engine's own expiry loop (Engine.expire).
func ttlBackgroundProbe(add ttlAdd) {
	detail := map[string]interface{}{"probe": "background-loop"}
	client, engine, err := lungo.Open(nil, lungo.Options{Store: lungo.NewMemoryStore(), ExpireInterval: 50 * time.Millisecond})
	if err != nil {
		return
	}
	defer engine.Close()
	ctx := context.Background()
	coll := client.Database("db").Collection("bg")
	if _, err := coll.Indexes().CreateOne(ctx, mongo.IndexModel{Keys: bson.D{{Key: "a", Value: int32(1)}}, Options: options.Index().SetExpireAfterSeconds(3600)}); err != nil {
		add("C19:create-index-failed", "creating a TTL index failed: "+err.Error(), detail)
		return
	}
	now := time.Now().UnixMilli()
	coll.InsertOne(ctx, bson.D{{Key: "_id", Value: int32(1)}, {Key: "a", Value: primitive.DateTime(now - 2*3600*1000)}})
	coll.InsertOne(ctx, bson.D{{Key: "_id", Value: int32(2)}, {Key: "a", Value: primitive.DateTime(now - 1800*1000)}})
	coll.InsertOne(ctx, bson.D{{Key: "_id", Value: int32(3)}, {Key: "a", Value: now - 2*3600*1000}})
	h := lungo.Handle{"db", "bg"}
	n0 := len(engine.Catalog().Namespaces[lungo.Oplog].Documents.List)
	deadline := time.Now().Add(2 * time.Second)
	for time.Now().Before(deadline) {
		time.Sleep(10 * time.Millisecond)
		if len(engine.Catalog().Namespaces[h].Documents.List) < 3 {
			break
		}
	}
	time.Sleep(120 * time.Millisecond) // two more ticks: nothing else may go
	cat := engine.Catalog()
	var ids []interface{}
	for _, d := range cat.Namespaces[h].Documents.List {
		ids = append(ids, (*d)[0].Value)
	}
	if fmt.Sprint(ids) != "[2 3]" {
		sig := "C19:background-loop-removed-wrong-documents"
		if len(ids) == 3 {
			sig = "C19:background-loop-did-not-expire"
		}
		add(sig, fmt.Sprintf("engine with ExpireInterval 50ms: after 2 s the collection holds _ids %v, expected [2 3]", ids), detail)
		return
	}
	if n := len(cat.Namespaces[lungo.Oplog].Documents.List); n != n0+1 {
		add("C19:background-loop-events", fmt.Sprintf("the background loop logged %d events for one removed document", n-n0), detail)
	}

	// expiry by the passing of time alone: a document that is fresh when it is
	// written crosses the cut-off while the database is idle (no commits, so
	// the catalog stays the same object); the loop must still remove it
	idle := client.Database("db").Collection("idle")
	if _, err := idle.Indexes().CreateOne(ctx, mongo.IndexModel{Keys: bson.D{{Key: "a", Value: int32(1)}}, Options: options.Index().SetExpireAfterSeconds(1)}); err != nil {
		return
	}
	idle.InsertOne(ctx, bson.D{{Key: "_id", Value: "fresh"}, {Key: "a", Value: primitive.NewDateTimeFromTime(time.Now())}})
	time.Sleep(300 * time.Millisecond) // several passes that find nothing
	hi := lungo.Handle{"db", "idle"}
	if len(engine.Catalog().Namespaces[hi].Documents.List) != 1 {
		add("C19:background-loop-removed-wrong-documents", "a document younger than its 1 s expiry was removed by the background loop", detail)
		return
	}
	gone := false
	deadline = time.Now().Add(3 * time.Second)
	for time.Now().Before(deadline) {
		time.Sleep(50 * time.Millisecond)
		if len(engine.Catalog().Namespaces[hi].Documents.List) == 0 {
			gone = true
			break
		}
	}
	if !gone {
		add("C19:background-loop-did-not-expire-idle", "a document that crossed its 1 s expiry while the database was idle (no commits) was not removed by the background loop within 3 s", detail)
	}
}

func oracleTTL(r *rng, n int, st *oracleStats) []oracleFailure {
	st.Rule = "per evaluation one in-memory engine with 3 collections in 2 databases, each with 0-2 TTL indexes (fields a, b, s.t; expireAfterSeconds 0/60/3600/7200; ascending or descending; one in six partial) next to non-TTL, compound and unique indexes, created before or after the documents; 0-10 documents per collection whose indexed fields hold dates at least 5 s on either side of every cut-off, int64/double numbers equal to such dates, strings, null, timestamps, booleans, ObjectIDs, sub-documents, arrays (dates + others, only non-dates, empty, nested), missing fields, and for the dotted path sub-documents, arrays of sub-documents and non-documents. Transaction.Expire runs through Engine.Begin(lock)/Commit; an independent re-implementation of the rule decides which documents must be gone (exactly those, order kept, bytes unchanged), collections without TTL index byte-identical incl. index entries, index definitions kept, the oplog gains exactly one delete event per removed document (per namespace in order, nothing else), a pass that removes nothing leaves Engine.Catalog() pointer-identical (also a second pass). Once per run: boundary probes (passes back to back across the exact cut-off, expireAfterSeconds 0 and 1), the background loop with ExpireInterval 50 ms, and the refusal of index keys with a `$`-prefixed field name (TTL or not, first or inner segment; an accepted one used to make every pass fail). Non-trivial = a TTL collection lost some and kept some documents"
	var fails []oracleFailure
	add := func(sig, what string, detail interface{}) {
		for _, f := range fails {
			if f.Signature == sig {
				return
			}
		}
		if len(fails) < 12 {
			fails = append(fails, oracleFailure{Property: "C19", Signature: sig, What: what, Detail: detail})
		}
	}
	ttlBackgroundProbe(add)
	ttlDollarFieldProbe(add)
	st.Evaluations += 2
	for i := 0; i < 6; i++ {
		ttlBoundaryProbe(pick(r, []int32{0, 1, 1}), add, st)
		st.Evaluations++
	}
	for i := 0; i < n; i++ {
		st.Evaluations++
		if len(st.Samples) < 1 {
			st.Samples = append(st.Samples, "db.c with TTL index {a: 1} expireAfterSeconds 3600 and index {k: 1}; documents {a: Date(now-3605s)}, {a: Date(now-3595s)}, {a: NumberLong(ms of now-3h)}, {a: [1, Date(now-3h), \"x\"]}, {a: []}, {a: null}, {}; Expire removes exactly the first and the fourth and logs two delete events")
		}
		if runTTLCase(r.u64(), st, add) {
			st.Nontrivial++
		}
	}
	return fails
}

func replayTTL(f oracleFailure) []oracleFailure {
	m, ok := f.Detail.(map[string]interface{})
	if !ok {
		return nil
	}
	var fails []oracleFailure
	add := func(sig, what string, detail interface{}) {
		fails = append(fails, oracleFailure{Property: "C19", Signature: sig, What: what, Detail: detail})
	}
	st := &oracleStats{Dist: map[string]int{}}
	switch {
	case m["probe"] == "boundary":
		sec := int32(0)
		if v, ok := m["expireAfterSeconds"].(float64); ok {
			sec = int32(v)
		}
		for i := 0; i < 5; i++ {
			ttlBoundaryProbe(sec, add, st)
		}
	case m["probe"] == "background-loop":
		ttlBackgroundProbe(add)
	case m["probe"] == "dollar-field":
		ttlDollarFieldProbe(add)
	default:
		s, _ := m["seed"].(string)
		seed, err := strconv.ParseUint(s, 10, 64)
		if err != nil {
			return nil
		}
		runTTLCase(seed, st, add)
	}
	var out []oracleFailure
	for _, g := range fails {
		if g.Signature == f.Signature || f.Signature == "" {
			out = append(out, g)
		}
	}
	if len(out) == 0 {
		return fails
	}
	return out
}

func init() {
	registerOracle(&oracle{prop: "C19", name: "ttl-exact", run: oracleTTL, replay: replayTTL})
}
