package main

// main.go — command line of the correspondence harness.
//
//   harness run    -family F -seed S -n N -out FILE   run generated cases on the real lungo; FILE gets "case<TAB>observed" lines, FILE.stats.json the distribution
//   harness replay -family F -case 'SEXP'             run one case on the real lungo, print observed
//   harness oracle -prop Cxx -seed S -n N -out FILE   model-free property oracle on the real lungo; FILE gets one JSON object per failure, FILE.stats.json the counts
//   harness coqcases -in FILE -k K -out cases.v       render the first K cases as a Coq file for in-Coq evaluation

import (
	"bufio"
	"encoding/json"
	"flag"
	"fmt"
	"os"
	"sort"
	"strings"
	"time"
)

// A family generates cases (as S-expression text) and runs a case on the
// real implementation, returning the canonical observable text.
type family struct {
	name string
	gen  func(r *rng) string
	run  func(c *sx) string
	// classify returns labels for the distribution report (operator names,
	// outcome kinds...) and whether the case is non-trivial.
	classify func(c *sx, observed string) (labels []string, nontrivial bool)
	// rewrite (optional) lets a family whose case text carries data recorded
	// from the run (a hook trace) replace the case text and the observable
	// after the run: run returns a packed text, rewrite splits it.
	rewrite func(c *sx, packed string) (caseText, observed string)
}

var families = map[string]*family{}

func register(f *family) { families[f.name] = f }

// An oracle checks a property statement directly on the real code.
type oracleFailure struct {
	Property  string      `json:"property"`
	Signature string      `json:"signature,omitempty"`
	What      string      `json:"what"`
	Family    string      `json:"family,omitempty"`
	Case      string      `json:"case,omitempty"`
	Detail    interface{} `json:"detail,omitempty"`
}

type oracleStats struct {
	Evaluations int            `json:"evaluations"`
	Nontrivial  int            `json:"distinct_nontrivial"`
	Rule        string         `json:"rule"`
	Dist        map[string]int `json:"distribution"`
	Samples     []string       `json:"samples"`
}

type oracle struct {
	prop string
	name string
	run  func(r *rng, n int, st *oracleStats) []oracleFailure
	// replay re-checks one stored failure on the real code (optional)
	replay func(f oracleFailure) []oracleFailure
}

var oracles = map[string][]*oracle{}

func registerOracle(o *oracle) { oracles[o.prop] = append(oracles[o.prop], o) }

// A replayer re-executes the input of a recorded oracle failure on the real
// code and reports (text, whether a failure with the same signature recurs).
var replayers = map[string]func(f oracleFailure) (string, bool){}

func registerReplayer(prop string, fn func(f oracleFailure) (string, bool)) { replayers[prop] = fn }

// runGuarded runs a case with panic capture and a watchdog.
func runGuarded(f *family, c *sx, timeout time.Duration) string {
	done := make(chan string, 1)
	go func() {
		defer func() {
			if p := recover(); p != nil {
				done <- "PANIC"
			}
		}()
		done <- f.run(c)
	}()
	select {
	case s := <-done:
		return s
	case <-time.After(timeout):
		return "HANG"
	}
}

func main() {
	if len(os.Args) < 2 {
		fmt.Fprintln(os.Stderr, "usage: harness run|replay|oracle|coqcases ...")
		os.Exit(2)
	}
	cmd := os.Args[1]
	fs := flag.NewFlagSet(cmd, flag.ExitOnError)
	fam := fs.String("family", "", "family name")
	prop := fs.String("prop", "", "property id")
	seed := fs.Uint64("seed", 1, "seed")
	n := fs.Int("n", 100, "number of cases")
	out := fs.String("out", "", "output file")
	in := fs.String("in", "", "input file")
	k := fs.Int("k", 100, "sample size")
	cs := fs.String("case", "", "case s-expression")
	_ = fs.Parse(os.Args[2:])

	switch cmd {
	case "run":
		f := families[*fam]
		if f == nil {
			fmt.Fprintln(os.Stderr, "unknown family", *fam)
			os.Exit(2)
		}
		cmdRun(f, *seed, *n, *out, *in)
	case "replay":
		f := families[*fam]
		if f == nil {
			fmt.Fprintln(os.Stderr, "unknown family", *fam)
			os.Exit(2)
		}
		c, err := parseSx(*cs)
		if err != nil {
			fmt.Fprintln(os.Stderr, "bad case:", err)
			os.Exit(2)
		}
		obs := runGuarded(f, c, 60*time.Second)
		if f.rewrite != nil {
			if t2, o2 := f.rewrite(c, obs); t2 != "" {
				fmt.Println(t2)
				obs = o2
			}
		}
		fmt.Println(obs)
	case "oracle":
		cmdOracle(*prop, *seed, *n, *out)
	case "oracle-replay":
		// -case is the JSON of an oracleFailure.  Oracles that can re-check a
		// stored failure do so (STILL-FAILS lines carry the signature); failures
		// that name a model-free family and a case are re-executed through it.
		var f oracleFailure
		if err := json.Unmarshal([]byte(*cs), &f); err != nil {
			fmt.Fprintln(os.Stderr, "bad failure json:", err)
			os.Exit(2)
		}
		found, tried := 0, 0
		for _, o := range oracles[*prop] {
			if o.replay == nil {
				continue
			}
			tried++
			for _, g := range o.replay(f) {
				b, _ := json.Marshal(g)
				fmt.Println("STILL-FAILS", string(b))
				found++
			}
		}
		if fm := families[f.Family]; found == 0 && fm != nil && f.Case != "" && fm.classify == nil && f.Family != "api" {
			c, err := parseSx(f.Case)
			if err != nil {
				fmt.Fprintln(os.Stderr, "bad case:", err)
				os.Exit(2)
			}
			tried++
			obs := runGuarded(fm, c, 60*time.Second)
			fmt.Println("case:    ", f.Case)
			fmt.Println("expected:", f.Signature, f.What)
			fmt.Println("observed:", obs)
			if strings.HasPrefix(obs, "FAIL") || obs == "PANIC" || obs == "HANG" {
				sig := f.Signature
				if parts := strings.Fields(obs); len(parts) > 1 && strings.HasPrefix(parts[1], "C") && strings.Contains(parts[1], ":") {
					sig = parts[1]
				}
				b, _ := json.Marshal(oracleFailure{Property: *prop, Signature: sig, What: obs, Family: f.Family, Case: f.Case})
				fmt.Println("STILL-FAILS", string(b))
				found++
			}
		}
		if rp := replayers[*prop]; found == 0 && rp != nil {
			tried++
			text, reproduced := rp(f)
			fmt.Println(text)
			if reproduced {
				b, _ := json.Marshal(f)
				fmt.Println("STILL-FAILS", string(b))
				found++
			}
		}
		if found > 0 {
			os.Exit(1)
		}
		if tried == 0 {
			fmt.Println("not replayable:", *cs)
			os.Exit(2)
		}
		fmt.Println("no failure reproduced on the current tree")
	case "engine-worker":
		engineWorkerMain()
	case "coqcases":
		cmdCoqCases(*in, *k, *out)
	case "families":
		var names []string
		for name := range families {
			names = append(names, name)
		}
		sort.Strings(names)
		fmt.Println(strings.Join(names, " "))
	default:
		fmt.Fprintln(os.Stderr, "unknown command", cmd)
		os.Exit(2)
	}
}

type runStats struct {
	Family      string         `json:"family"`
	Seed        uint64         `json:"seed"`
	Evaluations int            `json:"evaluations"`
	Distinct    int            `json:"distinct"`
	Nontrivial  int            `json:"distinct_nontrivial"`
	Dist        map[string]int `json:"distribution"`
	Samples     []string       `json:"samples"`
	CorpusCases int            `json:"corpus_cases"`
}

// cmdRun: corpus cases (file `in`, one case per line, optional) first, then n
// generated cases.
func cmdRun(f *family, seed uint64, n int, out, corpus string) {
	w := bufio.NewWriterSize(mustCreate(out), 1<<20)
	defer w.Flush()
	st := runStats{Family: f.name, Seed: seed, Dist: map[string]int{}}
	seen := map[string]bool{}
	one := func(text string) {
		c, err := parseSx(text)
		if err != nil {
			fmt.Fprintln(os.Stderr, "generator produced bad case:", text)
			os.Exit(2)
		}
		obs := runGuarded(f, c, 60*time.Second)
		if f.rewrite != nil {
			if t2, o2 := f.rewrite(c, obs); t2 != "" {
				text, obs = t2, o2
				if c2, err := parseSx(text); err == nil {
					c = c2
				}
			}
		}
		fmt.Fprintf(w, "%s\t%s\n", text, obs)
		st.Evaluations++
		labels, nt := []string(nil), true
		if f.classify != nil {
			labels, nt = f.classify(c, obs)
		}
		for _, l := range labels {
			st.Dist[l]++
		}
		if !seen[text] {
			seen[text] = true
			st.Distinct++
			if nt {
				st.Nontrivial++
			}
		}
		if len(st.Samples) < 3 {
			st.Samples = append(st.Samples, text+" => "+obs)
		}
	}
	if corpus != "" {
		if fh, err := os.Open(corpus); err == nil {
			sc := bufio.NewScanner(fh)
			sc.Buffer(make([]byte, 1<<20), 1<<26)
			for sc.Scan() {
				line := strings.TrimSpace(sc.Text())
				if line == "" || strings.HasPrefix(line, "#") {
					continue
				}
				if i := strings.IndexByte(line, '\t'); i >= 0 {
					line = line[:i]
				}
				one(line)
				st.CorpusCases++
			}
			fh.Close()
		}
	}
	r := newRng(seed)
	for i := 0; i < n; i++ {
		one(f.gen(r))
	}
	writeJSON(out+".stats.json", st)
}

func cmdOracle(prop string, seed uint64, n int, out string) {
	os_ := oracles[prop]
	all := []oracleFailure{}
	stats := map[string]*oracleStats{}
	for _, o := range os_ {
		st := &oracleStats{Dist: map[string]int{}, Samples: []string{}}
		r := newRng(seed ^ 0xABCDEF)
		fails := o.run(r, n, st)
		all = append(all, fails...)
		stats[o.name] = st
	}
	w := bufio.NewWriter(mustCreate(out))
	for _, f := range all {
		b, _ := json.Marshal(f)
		w.Write(b)
		w.WriteString("\n")
	}
	w.Flush()
	writeJSON(out+".stats.json", stats)
}

// cmdOracleReplay: `harness oracle-replay -prop Cxx -case '<failure JSON>'`
// re-runs the recorded input; exit 1 when the failure reproduces.
func cmdOracleReplay(prop, failureJSON string) {
	var f oracleFailure
	if err := json.Unmarshal([]byte(failureJSON), &f); err != nil {
		fmt.Fprintln(os.Stderr, "bad failure JSON:", err)
		os.Exit(2)
	}
	supported := false
	var again []oracleFailure
	for _, o := range oracles[prop] {
		if o.replay != nil {
			supported = true
			again = append(again, o.replay(f)...)
		}
	}
	if !supported {
		fmt.Println("no oracle of", prop, "supports replay; recorded failure:", failureJSON)
		os.Exit(2)
	}
	for _, g := range again {
		b, _ := json.Marshal(g)
		fmt.Println("REPRODUCED", string(b))
	}
	if len(again) > 0 {
		os.Exit(1)
	}
	fmt.Println("NOT REPRODUCED")
}

func coqString(s string) string { return "\"" + strings.ReplaceAll(s, "\"", "\"\"") + "\"" }

func cmdCoqCases(in string, k int, out string) {
	fh, err := os.Open(in)
	if err != nil {
		panic(err)
	}
	defer fh.Close()
	sc := bufio.NewScanner(fh)
	sc.Buffer(make([]byte, 1<<20), 1<<26)
	w := bufio.NewWriter(mustCreate(out))
	defer w.Flush()
	w.WriteString("From Coq Require Import List String.\nImport ListNotations.\nFrom Lungo.Model Require Import Run.\nOpen Scope string_scope.\n")
	// one definition per case: a single list literal of a megabyte overflows
	// the stack of Coq's parser; very long string literals do so on their own
	// (the extracted model still runs every case)
	i, total := 0, 0
	var names []string
	for sc.Scan() && i < k && total < 600000 {
		parts := strings.SplitN(sc.Text(), "\t", 2)
		if len(parts) != 2 {
			continue
		}
		if len(parts[0]) > 12000 || len(parts[1]) > 12000 || parts[1] == "HUGE-RESULT" {
			continue // HUGE-RESULT: compared by size in the extracted model only
		}
		name := fmt.Sprintf("case_%d", i)
		w.WriteString("Definition " + name + " : string * string := (" + coqString(parts[0]) + ", " + coqString(parts[1]) + ").\n")
		names = append(names, name)
		total += len(parts[0]) + len(parts[1])
		i++
	}
	w.WriteString("Definition cases : list (string * string) := [" + strings.Join(names, "; ") + "].\nDefinition M := Eval vm_compute in mismatches cases.\nPrint M.\n")
}

func mustCreate(p string) *os.File {
	f, err := os.Create(p)
	if err != nil {
		panic(err)
	}
	return f
}

func writeJSON(p string, v interface{}) {
	b, err := json.MarshalIndent(v, "", " ")
	if err != nil {
		panic(err)
	}
	if err := os.WriteFile(p, b, 0o644); err != nil {
		panic(err)
	}
}
