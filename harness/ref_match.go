package main

// ref_match.go — a Go rendering of the REFERENCE semantics of query filters
// (DESIGN.md 8.1) and of the property's domain D1–D4 with its finding classes
// (8.2), independent of mongokit.  It mirrors coq/Spec/RefMatch.v definition
// by definition; family `matchref` prints its answers next to the real
// Match result and the Coq side must print the same text, which ties this file
// to the Coq specification on every run.  The model-free oracle `reference`
// (C10) uses it to compare the REAL matcher with the reference on D1–D4.

import (
	"math"
	"strings"

	"go.mongodb.org/mongo-driver/bson"
	"go.mongodb.org/mongo-driver/bson/primitive"

	"github.com/256dpi/lungo/bsonkit"
)

func refSplit(path string) []string { return strings.Split(path, ".") }

// Access.parse_index: all digits, non-empty, below 2^63
func refParseIndex(s string) (int64, bool) {
	if s == "" {
		return 0, false
	}
	var n uint64
	for i := 0; i < len(s); i++ {
		c := s[i]
		if c < '0' || c > '9' {
			return 0, false
		}
		if n > (math.MaxUint64-9)/10 {
			return 0, false
		}
		n = n*10 + uint64(c-'0')
	}
	if n > math.MaxInt64 {
		return 0, false
	}
	return int64(n), true
}

func refField(d bson.D, k string) (interface{}, bool) {
	for _, e := range d {
		if e.Key == k {
			return e.Value, true
		}
	}
	return nil, false
}

// RefMatch.rlookup
func refLookup(v interface{}, p []string) []interface{} {
	if len(p) == 0 {
		return []interface{}{v}
	}
	s, r := p[0], p[1:]
	switch x := v.(type) {
	case bson.D:
		if f, ok := refField(x, s); ok {
			return refLookup(f, r)
		}
		return []interface{}{bsonkit.Missing}
	case bson.A:
		var out []interface{}
		if i, ok := refParseIndex(s); ok && i < int64(len(x)) {
			out = append(out, refLookup(x[i], r)...)
		}
		for _, e := range x {
			if _, ok := e.(bson.D); ok {
				out = append(out, refLookup(e, p)...)
			}
		}
		return out
	}
	return []interface{}{bsonkit.Missing}
}

func refExpand(c interface{}) []interface{} {
	if a, ok := c.(bson.A); ok {
		return append([]interface{}{c}, a...)
	}
	return []interface{}{c}
}

func refSomeUnexpanded(root interface{}, p []string, t func(interface{}) bool) bool {
	for _, c := range refLookup(root, p) {
		if t(c) {
			return true
		}
	}
	return false
}

func refSomeExpanded(root interface{}, p []string, t func(interface{}) bool) bool {
	for _, c := range refLookup(root, p) {
		for _, e := range refExpand(c) {
			if t(e) {
				return true
			}
		}
	}
	return false
}

func refRel(op string, c, v interface{}) bool {
	if classRank[kindOf(c)] != classRank[kindOf(v)] {
		return false
	}
	res := bsonkit.Compare(c, v)
	switch {
	case res == 0:
		return op == "$eq" || op == "$gte" || op == "$lte"
	case res < 0:
		return op == "$lt" || op == "$lte"
	default:
		return op == "$gt" || op == "$gte"
	}
}

func refReq(c, v interface{}) bool { return refRel("$eq", c, v) }

// an integral float64 inside [-2^63, 2^63)
func refFloatInt64(f float64) (int64, bool) {
	if math.IsNaN(f) || math.IsInf(f, 0) || f != math.Floor(f) {
		return 0, false
	}
	if f < -9223372036854775808.0 || f >= 9223372036854775808.0 {
		return 0, false
	}
	return int64(f), true
}

type refTypeSpecT struct {
	number bool
	types  []byte
}

func refResolveType(v interface{}) (bool, byte, bool) {
	ofNumber := func(n int64) (bool, byte, bool) {
		if n < 0 || n > 255 {
			return false, 0, false
		}
		if _, ok := bsonkit.Number2Type[byte(n)]; !ok {
			return false, 0, false
		}
		return false, byte(n), true
	}
	switch x := v.(type) {
	case string:
		if x == "number" {
			return true, 0, true
		}
		t, ok := bsonkit.Alias2Type[x]
		if !ok {
			return false, 0, false
		}
		return false, byte(t), true
	case int32:
		return ofNumber(int64(x))
	case int64:
		return ofNumber(x)
	case float64:
		n, ok := refFloatInt64(x)
		if !ok {
			return false, 0, false
		}
		return ofNumber(n)
	}
	return false, 0, false
}

func refTypeSpec(x interface{}) (refTypeSpecT, bool) {
	operands := []interface{}{x}
	if a, ok := x.(bson.A); ok {
		if len(a) == 0 {
			return refTypeSpecT{}, false
		}
		operands = a
	}
	var spec refTypeSpecT
	for _, o := range operands {
		nc, t, ok := refResolveType(o)
		if !ok {
			return refTypeSpecT{}, false
		}
		if nc {
			spec.number = true
		} else {
			spec.types = append(spec.types, t)
		}
	}
	return spec, true
}

func refIsNumber(c interface{}) bool {
	switch c.(type) {
	case int32, int64, float64, primitive.Decimal128:
		return true
	}
	return false
}

func refHasType(spec refTypeSpecT, c interface{}) bool {
	if c == bsonkit.Missing {
		return false
	}
	if spec.number && refIsNumber(c) {
		return true
	}
	_, t := bsonkit.Inspect(c)
	for _, w := range spec.types {
		if w == byte(t) {
			return true
		}
	}
	return false
}

func refHasTypeByte(spec refTypeSpecT, b byte) bool {
	for _, w := range spec.types {
		if w == b {
			return true
		}
	}
	return false
}

func refSizeArg(x interface{}) (int64, bool) {
	switch n := x.(type) {
	case int32:
		return int64(n), n >= 0
	case int64:
		return n, n >= 0
	case float64:
		i, ok := refFloatInt64(n)
		return i, ok && i >= 0
	}
	return 0, false
}

func refHasLen(n int64, c interface{}) bool {
	a, ok := c.(bson.A)
	return ok && int64(len(a)) == n
}

// finite, inside the int64 range, truncated toward zero
func refTruncInt64(f float64) (int64, bool) {
	if math.IsNaN(f) || math.IsInf(f, 0) {
		return 0, false
	}
	if f < -9223372036854775808.0 || f >= 9223372036854775808.0 {
		return 0, false
	}
	return int64(math.Trunc(f)), true
}

func refModOperand(v interface{}) (int64, bool) {
	switch n := v.(type) {
	case int32:
		return int64(n), true
	case int64:
		return n, true
	case float64:
		return refTruncInt64(n)
	}
	return 0, false
}

func refModSpec(x interface{}) (int64, int64, bool) {
	a, ok := x.(bson.A)
	if !ok || len(a) != 2 {
		return 0, 0, false
	}
	dv, ok1 := refModOperand(a[0])
	rm, ok2 := refModOperand(a[1])
	if !ok1 || !ok2 || dv == 0 {
		return 0, 0, false
	}
	return dv, rm, true
}

func refModTest(dv, rm int64, c interface{}) bool {
	n, ok := refModOperand(c)
	if !ok {
		return false
	}
	if dv == -1 {
		return rm == 0
	}
	return n%dv == rm
}

func refBitPositions(v uint64) []uint64 {
	var out []uint64
	for i := uint64(0); i < 64; i++ {
		if v&(1<<i) != 0 {
			out = append(out, i)
		}
	}
	return out
}

func refBitMask(x interface{}) ([]uint64, bool) {
	switch m := x.(type) {
	case int32:
		if m < 0 {
			return nil, false
		}
		return refBitPositions(uint64(m)), true
	case int64:
		if m < 0 {
			return nil, false
		}
		return refBitPositions(uint64(m)), true
	case float64:
		if math.IsNaN(m) || math.IsInf(m, 0) || m != math.Floor(m) || m < 0 || m > 9223372036854775808.0 {
			return nil, false
		}
		return refBitPositions(uint64(m)), true
	case bson.A:
		out := []uint64{}
		for _, it := range m {
			switch n := it.(type) {
			case int32:
				if n < 0 {
					return nil, false
				}
				out = append(out, uint64(n))
			case int64:
				if n < 0 {
					return nil, false
				}
				out = append(out, uint64(n))
			case float64:
				if math.IsNaN(n) || math.IsInf(n, 0) || n != math.Floor(n) || n < 0 || n >= 18446744073709551616.0 {
					return nil, false
				}
				out = append(out, uint64(n))
			default:
				return nil, false
			}
		}
		return out, true
	case primitive.Binary:
		out := []uint64{}
		for i, b := range m.Data {
			for j := uint64(0); j < 8; j++ {
				if b&(1<<j) != 0 {
					out = append(out, uint64(i)*8+j)
				}
			}
		}
		return out, true
	}
	return nil, false
}

func refBitsTest(op string, positions []uint64, c interface{}) bool {
	var bitAt func(uint64) bool
	intBits := func(v uint64) func(uint64) bool {
		return func(pos uint64) bool { return pos < 64 && v&(1<<pos) != 0 }
	}
	switch f := c.(type) {
	case int32:
		bitAt = intBits(uint64(int64(f)))
	case int64:
		bitAt = intBits(uint64(f))
	case float64:
		n, ok := refFloatInt64(f)
		if !ok {
			return false
		}
		bitAt = intBits(uint64(n))
	case primitive.Binary:
		data := f.Data
		bitAt = func(pos uint64) bool {
			return pos/8 < uint64(len(data)) && data[pos/8]&(1<<(pos%8)) != 0
		}
	default:
		return false
	}
	set := 0
	for _, p := range positions {
		if bitAt(p) {
			set++
		}
	}
	n := len(positions)
	switch op {
	case "$bitsAllSet":
		return set == n
	case "$bitsAllClear":
		return set == 0
	case "$bitsAnySet":
		return set > 0
	case "$bitsAnyClear":
		return set < n
	}
	return false
}

func refTruthy(x interface{}) bool {
	switch n := x.(type) {
	case bool:
		return n
	case nil:
		return false
	case int32:
		return n != 0
	case int64:
		return n != 0
	case float64:
		return n != 0
	}
	return true
}

func refIsOp(k string) bool { return len(k) > 0 && k[0] == '$' }

func refIsRelOp(op string) bool {
	return op == "$eq" || op == "$gt" || op == "$gte" || op == "$lt" || op == "$lte"
}

func refIsBitsOp(op string) bool {
	return op == "$bitsAllSet" || op == "$bitsAllClear" || op == "$bitsAnySet" || op == "$bitsAnyClear"
}

func refElemRoot(e interface{}) interface{} { return bson.D{{Key: "item", Value: e}} }

// RefMatch.ref_field
func refFieldCond(x interface{}, root interface{}, p []string) bool {
	if d, ok := x.(bson.D); ok && len(d) > 0 && refIsOp(d[0].Key) {
		for _, e := range d {
			if !refIsOp(e.Key) || !refOp(e.Value, e.Key, root, p) {
				return false
			}
		}
		return true
	}
	return refSomeExpanded(root, p, func(c interface{}) bool { return refReq(c, x) })
}

// RefMatch.ref_op
func refOp(x interface{}, op string, root interface{}, p []string) bool {
	switch {
	case refIsRelOp(op):
		return refSomeExpanded(root, p, func(c interface{}) bool { return refRel(op, c, x) })
	case op == "$ne":
		return !refSomeExpanded(root, p, func(c interface{}) bool { return refReq(c, x) })
	case op == "$in" || op == "$nin":
		vs, ok := x.(bson.A)
		if !ok {
			return false
		}
		in := refSomeExpanded(root, p, func(c interface{}) bool {
			for _, v := range vs {
				if refReq(c, v) {
					return true
				}
			}
			return false
		})
		return in == (op == "$in")
	case op == "$exists":
		return refTruthy(x) == refSomeUnexpanded(root, p, func(c interface{}) bool { return c != bsonkit.Missing })
	case op == "$type":
		spec, ok := refTypeSpec(x)
		if !ok {
			return false
		}
		return refSomeExpanded(root, p, func(c interface{}) bool { return refHasType(spec, c) })
	case op == "$size":
		n, ok := refSizeArg(x)
		if !ok {
			return false
		}
		return refSomeUnexpanded(root, p, func(c interface{}) bool { return refHasLen(n, c) })
	case op == "$all":
		vs, ok := x.(bson.A)
		if !ok || len(vs) == 0 {
			return false
		}
		return refSomeUnexpanded(root, p, func(a interface{}) bool {
			for _, v := range vs {
				found := false
				for _, c := range refExpand(a) {
					if refReq(c, v) {
						found = true
					}
				}
				if !found {
					return false
				}
			}
			return true
		})
	case op == "$mod":
		dv, rm, ok := refModSpec(x)
		if !ok {
			return false
		}
		return refSomeExpanded(root, p, func(c interface{}) bool { return refModTest(dv, rm, c) })
	case refIsBitsOp(op):
		positions, ok := refBitMask(x)
		if !ok {
			return false
		}
		return refSomeExpanded(root, p, func(c interface{}) bool { return refBitsTest(op, positions, c) })
	case op == "$not":
		exps, ok := x.(bson.D)
		if !ok {
			return false
		}
		for _, e := range exps {
			if !refOp(e.Value, e.Key, root, p) {
				return true
			}
		}
		return false
	case op == "$elemMatch":
		q, ok := x.(bson.D)
		if !ok {
			return false
		}
		return refSomeUnexpanded(root, p, func(c interface{}) bool {
			es, ok := c.(bson.A)
			if !ok {
				return false
			}
			for _, e := range es {
				all := true
				for _, kv := range q {
					var r bool
					if refIsOp(kv.Key) {
						r = refOp(kv.Value, kv.Key, refElemRoot(e), []string{"item"})
					} else {
						r = refFieldCond(kv.Value, refElemRoot(e), append([]string{"item"}, refSplit(kv.Key)...))
					}
					if !r {
						all = false
						break
					}
				}
				if all {
					return true
				}
			}
			return false
		})
	}
	return false
}

// RefMatch.ref_top / holds_at
func refHoldsAt(root interface{}, f bson.D) bool {
	for _, e := range f {
		if !refTop(e.Value, e.Key, root) {
			return false
		}
	}
	return true
}

func refTop(x interface{}, k string, root interface{}) bool {
	if !refIsOp(k) {
		return refFieldCond(x, root, refSplit(k))
	}
	items, ok := x.(bson.A)
	if !ok {
		return false
	}
	sub := func(item interface{}) bool {
		q, ok := item.(bson.D)
		return ok && refHoldsAt(root, q)
	}
	switch k {
	case "$and":
		for _, it := range items {
			if !sub(it) {
				return false
			}
		}
		return true
	case "$or", "$nor":
		any := false
		for _, it := range items {
			if sub(it) {
				any = true
				break
			}
		}
		return any == (k == "$or")
	}
	return false
}

// RefMatch.holds
func refHolds(d bson.D, f bson.D) bool { return refHoldsAt(d, f) }

// ---------------------------------------------------------------------------
// the domain D1–D4 and its finding classes (RefMatch.core_op with flags)

// index: count a numeric index into an array of documents as NO fan-out (off
// everywhere; kept as the twin of RefMatch.f_index).  The three old* switches re-impose the
// exclusions of the fan-out classes that were repaired in lungo; they are used
// only to NAME a regression (coreDisagreementSignature), never for the domain.
type refFlags struct{ index, oldTypeArray, oldExists, oldSize bool }

var refStrict = refFlags{}

func refD1(v interface{}) bool {
	switch x := v.(type) {
	case bson.D:
		for _, e := range x {
			if !refD1(e.Value) {
				return false
			}
		}
	case bson.A:
		for _, e := range x {
			if _, ok := e.(bson.A); ok || !refD1(e) {
				return false
			}
		}
	}
	return true
}

func refD3(v interface{}) bool {
	switch x := v.(type) {
	case bson.D:
		for _, e := range x {
			if !refD3(e.Value) {
				return false
			}
		}
	case bson.A:
		for _, e := range x {
			if d, ok := e.(bson.D); ok {
				for _, kv := range d {
					if _, num := refParseIndex(kv.Key); num {
						return false
					}
				}
			}
			if !refD3(e) {
				return false
			}
		}
	}
	return true
}

func refHasDocElement(a bson.A) bool {
	for _, e := range a {
		if _, ok := e.(bson.D); ok {
			return true
		}
	}
	return false
}

// RefMatch.fans_out (docIndex = true) / fans_out_pure (docIndex = false)
func refFansOut(v interface{}, p []string, docIndex bool) bool {
	if len(p) == 0 {
		return false
	}
	s, r := p[0], p[1:]
	switch x := v.(type) {
	case bson.D:
		if f, ok := refField(x, s); ok {
			return refFansOut(f, r, docIndex)
		}
		return false
	case bson.A:
		i, ok := refParseIndex(s)
		if !ok || i >= int64(len(x)) {
			return true
		}
		return (docIndex && refHasDocElement(x)) || refFansOut(x[i], r, docIndex)
	}
	return false
}

func refFan(fl refFlags, root interface{}, p []string) bool { return refFansOut(root, p, !fl.index) }

func refPlainScalar(v interface{}) bool {
	switch v.(type) {
	case nil, bsonkit.MissingType, bson.D, bson.A:
		return false
	}
	return true
}

func refGoodPath(p []string) bool {
	for _, s := range p {
		if s == "" {
			return false
		}
	}
	return true
}

func refCoreField(fl refFlags, x interface{}, root interface{}, p []string) bool {
	if !refGoodPath(p) {
		return false
	}
	if d, ok := x.(bson.D); ok && len(d) > 0 {
		if refIsOp(d[0].Key) {
			for _, e := range d {
				if !refIsOp(e.Key) || !refCoreOp(fl, e.Value, e.Key, root, p) {
					return false
				}
			}
			return true
		}
		return !refFan(fl, root, p)
	}
	return !refFan(fl, root, p) || refPlainScalar(x)
}

func refCoreOp(fl refFlags, x interface{}, op string, root interface{}, p []string) bool {
	fan := refFan(fl, root, p)
	switch {
	case refIsRelOp(op) || op == "$ne":
		return !fan || refPlainScalar(x)
	case op == "$in" || op == "$nin":
		vs, ok := x.(bson.A)
		if !ok {
			return false
		}
		if !fan {
			return true
		}
		for _, v := range vs {
			if !refPlainScalar(v) {
				return false
			}
		}
		return true
	case op == "$exists":
		if fl.oldExists && fan {
			for _, c := range refLookup(root, p) {
				if a, ok := c.(bson.A); ok && len(a) == 0 {
					return false
				}
			}
		}
		return true
	case op == "$type":
		spec, ok := refTypeSpec(x)
		if fl.oldTypeArray && fan && ok && refHasTypeByte(spec, 4) {
			return false
		}
		return ok
	case op == "$size":
		_, ok := refSizeArg(x)
		if fl.oldSize && fan {
			return false
		}
		return ok
	case op == "$all":
		_, ok := x.(bson.A)
		return ok && !fan
	case op == "$mod":
		_, _, ok := refModSpec(x)
		return ok
	case refIsBitsOp(op):
		_, ok := refBitMask(x)
		return ok
	case op == "$not":
		exps, ok := x.(bson.D)
		if fan || !ok || len(exps) == 0 {
			return false
		}
		for _, e := range exps {
			if !refIsOp(e.Key) || !refCoreOp(fl, e.Value, e.Key, root, p) {
				return false
			}
		}
		return true
	case op == "$elemMatch":
		q, ok := x.(bson.D)
		if fan || !ok || len(q) == 0 {
			return false
		}
		for _, c := range refLookup(root, p) {
			es, ok := c.(bson.A)
			if !ok {
				continue
			}
			for _, e := range es {
				for _, kv := range q {
					if refIsOp(kv.Key) {
						if !refCoreOp(fl, kv.Value, kv.Key, refElemRoot(e), []string{"item"}) {
							return false
						}
					} else if !refCoreField(fl, kv.Value, refElemRoot(e), append([]string{"item"}, refSplit(kv.Key)...)) {
						return false
					}
				}
			}
		}
		return true
	}
	return false
}

func refCoreFilter(fl refFlags, root interface{}, f bson.D) bool {
	for _, e := range f {
		if !refCoreTop(fl, e.Value, e.Key, root) {
			return false
		}
	}
	return true
}

func refCoreTop(fl refFlags, x interface{}, k string, root interface{}) bool {
	if !refIsOp(k) {
		return refCoreField(fl, x, root, refSplit(k))
	}
	items, ok := x.(bson.A)
	if !ok || len(items) == 0 || !(k == "$and" || k == "$or" || k == "$nor") {
		return false
	}
	for _, it := range items {
		q, ok := it.(bson.D)
		if !ok || !refCoreFilter(fl, root, q) {
			return false
		}
	}
	return true
}

func refCoreGen(fl refFlags, d bson.D, f bson.D) bool {
	return refD1(d) && refD3(d) && refCoreFilter(fl, d, f)
}

// RefMatch.domain_class: "core" (inside the property's domain D1–D4) or ""
// (outside).  A numeric segment that indexes into an array holding documents
// counts as fan-out for D2 (refStrict): by D3 such a segment addresses a
// position only, and the reference's second reading of it as a field name is
// not semantics the property states, so pairs with a null/document/array
// operand on such a path are not compared with the reference.
func refDomainClass(d bson.D, f bson.D) string {
	if refCoreGen(refStrict, d, f) {
		return "core"
	}
	return ""
}
