package main

// gen.go — the single PRNG and the shared collision-rich value pool.

import (
	"math"

	"go.mongodb.org/mongo-driver/bson"
	"go.mongodb.org/mongo-driver/bson/primitive"
)

// splitmix64: every random choice of a run derives from one seed.
type rng struct{ s uint64 }

// The seed goes through the splitmix64 finaliser, so that the streams of
// consecutive seeds are unrelated (seed*gamma+c alone would make the stream of
// seed+1 the stream of seed shifted by one draw).
func newRng(seed uint64) *rng {
	z := seed*0x9E3779B97F4A7C15 + 0x1234567
	z = (z ^ (z >> 30)) * 0xBF58476D1CE4E5B9
	z = (z ^ (z >> 27)) * 0x94D049BB133111EB
	return &rng{s: z ^ (z >> 31)}
}

func (r *rng) u64() uint64 {
	r.s += 0x9E3779B97F4A7C15
	z := r.s
	z = (z ^ (z >> 30)) * 0xBF58476D1CE4E5B9
	z = (z ^ (z >> 27)) * 0x94D049BB133111EB
	return z ^ (z >> 31)
}

func (r *rng) intn(n int) int {
	if n <= 0 {
		return 0
	}
	return int(r.u64() % uint64(n))
}

func (r *rng) chance(num, den int) bool { return r.intn(den) < num }

func pick[T any](r *rng, xs []T) T { return xs[r.intn(len(xs))] }

func mustDec(s string) primitive.Decimal128 {
	d, err := primitive.ParseDecimal128(s)
	if err != nil {
		panic(err)
	}
	return d
}

var smallNums = []int64{-2, -1, 0, 1, 2, 3, 5, 10}

var poolInt32 = []int32{math.MaxInt32, math.MinInt32, math.MaxInt32 - 1, 1 << 30, 100, 255, 256}
var poolInt64 = []int64{1 << 53, 1<<53 + 1, 1<<53 - 1, math.MaxInt64, math.MinInt64, 1 << 60, 1<<60 + 1, 1 << 31, -(1 << 31) - 1, 1<<63 - 1024, 1 << 62, 9007199254740993}
var poolFloat = []float64{0.5, 1.5, -0.5, 0.1, 0.2, 0.30000000000000004, math.Copysign(0, -1), math.NaN(), math.Inf(1), math.Inf(-1),
	1 << 53, 1<<53 + 2, 1 << 63, -(1 << 63), 1 << 60, 1 << 62, 9223372036854774784, 1e300, -1e300, 5e-324, 2.2250738585072014e-308, 1e22, 1e23, 2147483648, 2147483647, 4294967296.5, 1.7976931348623157e308}
var poolDec = []string{"1", "1.0", "1.00", "0", "-0", "0.0", "0E+10", "2", "3", "5", "10", "1E+1", "-1", "-2", "0.1", "0.2", "0.5", "1.5",
	"NaN", "Infinity", "-Infinity", "1152921504606846976", "1152921504606846977", "9007199254740992", "9007199254740993",
	"9223372036854775807", "9223372036854775808", "-9223372036854775808", "2147483647", "2147483648",
	"0.1000000000000000055511151231257827", "1E-300", "5E-324", "4.9E-324",
	"1234567890123456789012345678901234", "0.30000000000000004", "0.3", "1E+300", "1E+22", "1E+23", "99999999999999991611392", "4294967296.5", "1.7976931348623157E+308", "1.7976931348623158E+308"}

// extreme exponents make the exact model slow (10^6176): drawn rarely
var poolDecExtreme = []string{"1E+6111", "9.999999999999999999999999999999999E+6144", "1E-6176", "-1E+6111", "0E+6111", "0E-6176"}

var poolStr = []string{"", "a", "ab", "b", "abc", "A", "a.b", "0", "1", "\x00", "\xff", "é"}
var poolKeys = []string{"a", "b", "c", "_id", "0", "1", "x"}

var poolOids = func() []primitive.ObjectID {
	var out []primitive.ObjectID
	for i := 0; i < 4; i++ {
		var o primitive.ObjectID
		o[11] = byte(i + 1)
		out = append(out, o)
	}
	var hi primitive.ObjectID
	for i := range hi {
		hi[i] = 0xff
	}
	return append(out, hi)
}()

// genNumber returns a number; the same small integers are rendered in all
// four numeric types so that cross-type equality is frequent.
func genNumber(r *rng) interface{} {
	if r.chance(3, 5) {
		n := pick(r, smallNums)
		switch r.intn(4) {
		case 0:
			return int32(n)
		case 1:
			return n
		case 2:
			return float64(n)
		default:
			return primitive.NewDecimal128(decBits(n))
		}
	}
	switch r.intn(4) {
	case 0:
		return pick(r, poolInt32)
	case 1:
		return pick(r, poolInt64)
	case 2:
		return pick(r, poolFloat)
	default:
		if r.chance(1, 300) {
			return mustDec(pick(r, poolDecExtreme))
		}
		return mustDec(pick(r, poolDec))
	}
}

func decBits(n int64) (uint64, uint64) {
	// canonical BID for a small integer with exponent 0 (or 1.0 / 1.00 forms)
	h := uint64(6176) << 49
	if n < 0 {
		return h | 1<<63, uint64(-n)
	}
	return h, uint64(n)
}

func genScalar(r *rng) interface{} {
	switch r.intn(14) {
	case 0:
		return nil
	case 1, 2, 3, 4:
		return genNumber(r)
	case 5, 6:
		return pick(r, poolStr)
	case 7:
		return r.chance(1, 2)
	case 8:
		return primitive.DateTime(pick(r, []int64{0, 1, -1, 1700000000000, 1700000000001, math.MaxInt64, math.MinInt64}))
	case 9:
		return primitive.Timestamp{T: uint32(pick(r, []int64{0, 1, 2, 4294967295})), I: uint32(pick(r, []int64{0, 1, 4294967295}))}
	case 10:
		return primitive.Regex{Pattern: pick(r, []string{"", "a", "b", "^a"}), Options: pick(r, []string{"", "i", "m"})}
	case 11:
		return primitive.Binary{Subtype: byte(pick(r, []int64{0, 1, 4, 128, 255})), Data: []byte(pick(r, []string{"", "a", "b", "ab", "\x00\x01"}))}
	case 12:
		return pick(r, poolOids)
	default:
		return genNumber(r)
	}
}

// genValue: scalars, arrays and documents down to the given depth.
func genValue(r *rng, depth int) interface{} {
	if depth <= 0 || r.chance(3, 5) {
		return genScalar(r)
	}
	if r.chance(1, 2) {
		n := r.intn(4)
		a := make(bson.A, 0, n)
		for i := 0; i < n; i++ {
			a = append(a, genValue(r, depth-1))
		}
		return a
	}
	return genDocD(r, depth-1, false)
}

// genDocD: a document with distinct keys from the small key alphabet.
func genDocD(r *rng, depth int, withID bool) bson.D {
	n := r.intn(4)
	d := bson.D{}
	used := map[string]bool{}
	if withID {
		d = append(d, bson.E{Key: "_id", Value: genScalar(r)})
		used["_id"] = true
	}
	for i := 0; i < n; i++ {
		k := pick(r, poolKeys)
		if used[k] || (!withID && k == "_id" && r.chance(2, 3)) {
			continue
		}
		used[k] = true
		d = append(d, bson.E{Key: k, Value: genValue(r, depth)})
	}
	return d
}

// mutate returns a value close to v (equal, same number in another type, or a
// late difference in a container) so that ordering ties and near-ties occur.
func mutate(r *rng, v interface{}) interface{} {
	switch x := v.(type) {
	case bson.A:
		c := append(bson.A{}, x...)
		switch r.intn(4) {
		case 0:
			return c
		case 1:
			return append(c, genScalar(r))
		case 2:
			if len(c) > 0 {
				c[len(c)-1] = mutate(r, c[len(c)-1])
			}
			return c
		default:
			if len(c) > 0 {
				return c[:len(c)-1]
			}
			return c
		}
	case bson.D:
		c := append(bson.D{}, x...)
		switch r.intn(4) {
		case 0:
			return c
		case 1:
			return append(c, bson.E{Key: pick(r, poolKeys), Value: genScalar(r)})
		case 2:
			if len(c) > 0 {
				c[len(c)-1].Value = mutate(r, c[len(c)-1].Value)
			}
			return c
		default:
			if len(c) > 0 {
				return c[:len(c)-1]
			}
			return c
		}
	case int32:
		return reNumber(r, float64(x), int64(x), true)
	case int64:
		return reNumber(r, float64(x), x, float64(x) == float64(int64(float64(x))) && int64(float64(x)) == x)
	case float64:
		if x == math.Trunc(x) && math.Abs(x) < 1e18 {
			return reNumber(r, x, int64(x), true)
		}
		return genNumber(r)
	default:
		if r.chance(1, 2) {
			return v
		}
		return genScalar(r)
	}
}

func reNumber(r *rng, f float64, i int64, exact bool) interface{} {
	switch r.intn(5) {
	case 0:
		if i >= math.MinInt32 && i <= math.MaxInt32 {
			return int32(i)
		}
		return i
	case 1:
		return i
	case 2:
		return f
	case 3:
		d, _ := primitive.ParseDecimal128FromBigInt(bigInt(i), 0)
		return d
	default:
		return i + int64(r.intn(3)) - 1
	}
}
