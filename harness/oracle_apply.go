package main

// oracle_apply.go — model-free oracles of C11 on the real code:
//   idempotence        second application of $set/$unset/$min/$max/$addToSet/$pull/$pullAll changes nothing
//   untouched-fields   top-level fields not named by the update keep value, all keep relative order, new ones are appended
//   numeric            type-promotion table and exact integer / decimal results recomputed with math/big
//   all-or-nothing     a rejected update leaves the stored documents byte-identical (through mongokit.Collection,
//                      cloned as the transaction layer does), and identical results are not reported as modified

import (
	"bytes"
	"fmt"
	"math"
	"math/big"
	"sort"
	"strconv"
	"strings"

	"go.mongodb.org/mongo-driver/bson"
	"go.mongodb.org/mongo-driver/bson/primitive"

	"github.com/256dpi/lungo/bsonkit"
	"github.com/256dpi/lungo/mongokit"
)

const (
	sigPositionalIndex = "C11:not-idempotent:positional-and-index-paths-on-one-array"
	sigNoopConflict    = "C11:not-idempotent:conflicting-paths-accepted-when-one-is-a-noop"
	sigDollarInside    = "C11:dollar-inside-segment-misparsed"
	sigIntOverflow     = "C11:int-overflow-wraps"
	sigDecOverflow     = "C11:decimal-over-34-digits-becomes-zero"
	sigDecNonFinite    = "C11:decimal-nonfinite-operand-collapses-to-zero"
)

func marshal(d bson.D) []byte {
	b, err := bson.Marshal(d)
	if err != nil {
		return []byte("marshal-error:" + err.Error())
	}
	return b
}

type failSink struct {
	fails []oracleFailure
	seen  map[string]int
}

func (s *failSink) add(sig, what string, detail interface{}) {
	if s.seen == nil {
		s.seen = map[string]int{}
	}
	s.seen[sig]++
	if s.seen[sig] > 3 { // a few witnesses per kind are enough
		return
	}
	s.fails = append(s.fails, oracleFailure{Property: "C11", Signature: sig, What: what, Detail: detail})
}

func safeApply(ac applyCase) (ch *mongokit.Changes, err error, panicked bool) {
	defer func() {
		if p := recover(); p != nil {
			panicked = true
		}
	}()
	// every application gets a private copy of the update document, as every
	// driver call does (bsonkit.Transform): Apply stores operand values in the
	// target document without copying, so a later operator of the same update
	// can write through them into the update document itself; sharing one
	// update between two runs would compare runs on different inputs
	ch, err = mongokit.Apply(ac.doc, ac.query, bsonkit.Clone(ac.update), ac.upsert, ac.filters)
	return
}

var idemOps = []string{"$set", "$unset", "$min", "$max", "$addToSet", "$pull", "$pullAll"}

// genIdemUpdate: one operator of the idempotent class on 1-3 paths
func genIdemUpdate(r *rng, d bson.D) bson.D {
	op := pick(r, idemOps)
	n := 1 + r.intn(3)
	pairs := bson.D{}
	usesID := false
	var used []string
	for j := 0; j < n; j++ {
		p := genUpdatePath(r, d, opWants(op), &usesID)
		dup := false
		for _, q := range used {
			if p == q || strings.HasPrefix(p, q+".") || strings.HasPrefix(q, p+".") {
				dup = true
			}
		}
		if dup && !r.chance(1, 10) {
			continue
		}
		used = append(used, p)
		cur := bsonkit.Get(&d, strings.ReplaceAll(p, "$[]", "0"))
		arg := genOpArg(r, op, cur, d)
		if _, isDoc := arg.(bson.D); isDoc && op == "$pull" && r.chance(1, 2) {
			arg = genSmall(r)
		}
		pairs = append(pairs, bson.E{Key: p, Value: arg})
	}
	if len(pairs) > 0 && r.chance(1, 4) {
		// a path related to one already named: equal, prefix, extension, positional against fixed, sibling
		q := relatedPath(r, pairs[r.intn(len(pairs))].Key)
		cur := bsonkit.Get(&d, strings.ReplaceAll(q, "$[]", "0"))
		arg := genOpArg(r, op, cur, d)
		if _, isDoc := arg.(bson.D); isDoc && op == "$pull" {
			arg = genSmall(r)
		}
		if r.chance(1, 2) {
			pairs = append(pairs, bson.E{Key: q, Value: arg})
		} else {
			pairs = append(bson.D{{Key: q, Value: arg}}, pairs...)
		}
	}
	return bson.D{{Key: op, Value: pairs}}
}

// conflictSignature: the kind of static path conflict of an update that
// MongoDB rejects (ConflictingUpdateOperators): a positional operator against
// a fixed segment of the same array, or equal / prefix paths.
func conflictSignature(u bson.D) (string, string, bool) {
	p, q, ok := staticConflict(u)
	if !ok {
		return "", "", false
	}
	a, b := strings.Split(p, "."), strings.Split(q, ".")
	for k := 0; k < len(a) && k < len(b); k++ {
		if a[k] != b[k] {
			return sigPositionalIndex, "an update that names " + p + " and " + q + " (a positional operator and a fixed segment of one array) is accepted; MongoDB rejects it (ConflictingUpdateOperators)", true
		}
	}
	return sigNoopConflict, "an update whose paths conflict (" + p + " / " + q + ") is accepted; MongoDB rejects it statically (ConflictingUpdateOperators), whatever the document holds", true
}

func oracleIdempotence(r *rng, n int, st *oracleStats) []oracleFailure {
	st.Rule = "documents x one operator of {$set,$unset,$min,$max,$addToSet,$pull,$pullAll} on 1-4 paths (dotted, positional $[], missing, beyond the end, condition documents for $pull; in a quarter of the updates one path is related to another: equal, prefix, extension, positional against fixed segment, sibling, aliasing index); an update whose named paths conflict (equal, segment prefix, or positional operator against fixed segment below a common prefix) must be rejected whatever the document; otherwise it is applied to a clone, then applied again to a clone of the result; the second result must be byte-identical (bson.Marshal) to the first, or the second application is rejected; non-trivial = the first application changed the document or the update was rejected for a conflict"
	sink := &failSink{}
	for i := 0; i < n; i++ {
		d := genApplyDoc(r, 2, r.chance(1, 3))
		u := genIdemUpdate(r, d)
		st.Evaluations++
		op := u[0].Key
		d1 := *bsonkit.Clone(&d)
		ac := applyCase{doc: &d1, query: &bson.D{}, update: &u, now: 0}
		_, err, pan := safeApply(ac)
		if pan {
			st.Dist[op+":panic"]++
			continue
		}
		if sig, what, conflict := conflictSignature(u); conflict {
			// acceptance must not depend on the document: rejected, always
			if err != nil {
				st.Dist[op+":conflict-rejected"]++
				continue
			}
			sink.add(sig, what, []string{enc(d), enc(u), enc(d1)})
			continue
		}
		if err != nil {
			st.Dist[op+":first-err"]++
			continue
		}
		b1 := marshal(d1)
		if !bytes.Equal(b1, marshal(d)) {
			st.Nontrivial++
			st.Dist[op+":changed"]++
		} else {
			st.Dist[op+":unchanged"]++
		}
		if len(st.Samples) < 3 {
			st.Samples = append(st.Samples, enc(d)+" "+enc(u))
		}
		d2 := *bsonkit.Clone(&d1)
		ac2 := applyCase{doc: &d2, query: &bson.D{}, update: &u, now: 0}
		_, err2, pan2 := safeApply(ac2)
		if pan2 {
			sink.add("C11:second-application-panics", "second application of the update panics", []string{enc(d), enc(u)})
			continue
		}
		if err2 != nil {
			// rejected as a whole: nothing changes (e.g. a path that the first application padded with null)
			st.Dist[op+":second-err"]++
			continue
		}
		if !bytes.Equal(marshal(d2), b1) {
			sig, what := classifyNonIdempotent(u)
			sink.add(sig, what, []string{enc(d), enc(u), enc(d1), enc(d2)})
		}
	}
	return sink.fails
}

// updatePaths: the paths an update names (every field of every operator
// document; for $rename also the target), independent re-statement of the
// rule of MongoDB's ConflictingUpdateOperators check.
func updatePaths(u bson.D) []string {
	var out []string
	for _, e := range u {
		pairs, ok := e.Value.(bson.D)
		if !ok || !strings.HasPrefix(e.Key, "$") {
			continue
		}
		for _, p := range pairs {
			out = append(out, p.Key)
			if t, ok := p.Value.(string); ok && e.Key == "$rename" {
				out = append(out, t)
			}
		}
	}
	return out
}

// pathsConflict: equal, one a segment prefix of the other, or — below a common
// prefix — a positional operator in one and a fixed segment in the other.
func pathsConflict(p, q string) bool {
	a, b := strings.Split(p, "."), strings.Split(q, ".")
	for k := 0; k < len(a) && k < len(b); k++ {
		if a[k] == b[k] {
			continue
		}
		return strings.HasPrefix(a[k], "$") != strings.HasPrefix(b[k], "$")
	}
	return true
}

// staticConflict: some two named paths of the update conflict
func staticConflict(u bson.D) (string, string, bool) {
	ps := updatePaths(u)
	for i := range ps {
		for j := i + 1; j < len(ps); j++ {
			if pathsConflict(ps[i], ps[j]) {
				return ps[i], ps[j], true
			}
		}
	}
	return "", "", false
}

// classifyNonIdempotent: the two known kinds of accepted-but-conflicting
// updates (MongoDB rejects both with ConflictingUpdateOperators); anything
// else keeps the generic per-operator signature and is a violation.
func classifyNonIdempotent(u bson.D) (string, string) {
	op := u[0].Key
	var paths []string
	for _, e := range u {
		if pairs, ok := e.Value.(bson.D); ok {
			for _, p := range pairs {
				paths = append(paths, p.Key)
			}
		}
	}
	for _, p := range paths {
		i := strings.Index(p, ".$[")
		if i < 0 {
			continue
		}
		head := p[:i]
		for _, q := range paths {
			if q != p && strings.HasPrefix(q, head+".") && !strings.HasPrefix(q, head+".$[") {
				return sigPositionalIndex, "an update that names both " + head + ".$[...] and a fixed element of the same array is accepted (MongoDB: conflict) and a second application changes the document"
			}
		}
	}
	for _, p := range paths {
		for _, q := range paths {
			if p != q && strings.HasPrefix(q, p+".") {
				return sigNoopConflict, "an update whose paths conflict (" + p + " / " + q + ") is accepted because the conflict is only detected between operators that changed something; a second application changes the document"
			}
		}
	}
	return "C11:not-idempotent:" + op, "applying " + op + " a second time changes the document"
}

// dollarInsideSegment: some update path has a '$' that does not start a segment
func dollarInsideSegment(u bson.D) bool {
	for _, e := range u {
		pairs, ok := e.Value.(bson.D)
		if !ok {
			continue
		}
		for _, p := range pairs {
			for i := 1; i < len(p.Key); i++ {
				if p.Key[i] == '$' && p.Key[i-1] != '.' {
					return true
				}
			}
		}
	}
	return false
}

func applyTopKeys(d bson.D) []string {
	out := make([]string, len(d))
	for i, e := range d {
		out[i] = e.Key
	}
	return out
}

// touchedTop: first segments of every path the update can write (update
// paths and $rename targets)
func touchedTop(u bson.D) map[string]bool {
	t := map[string]bool{}
	for _, e := range u {
		pairs, ok := e.Value.(bson.D)
		if !ok {
			continue
		}
		for _, p := range pairs {
			t[bsonkit.PathSegment(p.Key)] = true
			if e.Key == "$rename" {
				if s, ok := p.Value.(string); ok {
					t[bsonkit.PathSegment(s)] = true
				}
			}
		}
	}
	return t
}

func oracleUntouched(r *rng, n int, st *oracleStats) []oracleFailure {
	st.Rule = "documents x updates of 1-3 operators (generator of family apply); after a successful Apply: every top-level field whose key is not the first segment of an update path (or $rename target) is byte-identical; the surviving original keys keep their relative order; keys that did not exist come after all original keys; non-trivial = the update changed the document"
	sink := &failSink{}
	for i := 0; i < n; i++ {
		d := genApplyDoc(r, 2, r.chance(1, 3))
		u, filters := genUpdate(r, d)
		st.Evaluations++
		d1 := *bsonkit.Clone(&d)
		_, err, pan := safeApply(applyCase{doc: &d1, query: &bson.D{}, update: &u, filters: filters, upsert: r.chance(1, 3)})
		if pan || err != nil {
			st.Dist["rejected"]++
			continue
		}
		if !bytes.Equal(marshal(d), marshal(d1)) {
			st.Nontrivial++
			st.Dist["changed"]++
		} else {
			st.Dist["unchanged"]++
		}
		if len(st.Samples) < 3 {
			st.Samples = append(st.Samples, enc(d)+" "+enc(u))
		}
		touched := touchedTop(u)
		orig := map[string]int{}
		for i, e := range d {
			if _, dup := orig[e.Key]; !dup {
				orig[e.Key] = i
			}
		}
		// untouched fields: same value
		for _, e := range d {
			if touched[e.Key] {
				continue
			}
			v := bsonkit.Get(&d1, e.Key)
			if v == bsonkit.Missing || !bytes.Equal(marshal(bson.D{{Key: "v", Value: v}}), marshal(bson.D{{Key: "v", Value: e.Value}})) {
				if dollarInsideSegment(u) {
					sink.add(sigDollarInside, "a path segment that merely contains '$' (e.g. ab$[].c) is split one character before the '$': the update is applied to another field ("+e.Key+")", []string{enc(d), enc(u), enc(d1)})
				} else {
					sink.add("C11:untouched-field-changed", "a top-level field not named by the update changed or disappeared: "+e.Key, []string{enc(d), enc(u), enc(d1)})
				}
			}
		}
		// relative order of surviving original keys; new keys after them
		last, seenNew := -1, false
		for _, e := range d1 {
			pos, isOrig := orig[e.Key]
			if !isOrig {
				seenNew = true
				continue
			}
			if seenNew {
				sink.add("C11:field-order-changed", "an original top-level field comes after a newly created one", []string{enc(d), enc(u), enc(d1)})
				break
			}
			if pos < last {
				sink.add("C11:field-order-changed", "original top-level fields changed their relative order", []string{enc(d), enc(u), enc(d1)})
				break
			}
			last = pos
		}
	}
	return sink.fails
}

// ---- numeric rules ----

func numRank(v interface{}) int {
	switch v.(type) {
	case int32:
		return 0
	case int64:
		return 1
	case float64:
		return 2
	case primitive.Decimal128:
		return 3
	}
	return -1
}

func intOf(v interface{}) (*big.Int, bool) {
	switch x := v.(type) {
	case int32:
		return big.NewInt(int64(x)), true
	case int64:
		return big.NewInt(x), true
	}
	return nil, false
}

// decOf: exact (coefficient, exponent) of an int or a finite decimal
func decOf(v interface{}) (c *big.Int, e int, finite bool, ok bool) {
	switch x := v.(type) {
	case int32:
		return big.NewInt(int64(x)), 0, true, true
	case int64:
		return big.NewInt(x), 0, true, true
	case primitive.Decimal128:
		bi, exp, err := x.BigInt()
		if err != nil {
			return nil, 0, false, true
		}
		return bi, exp, true, true
	}
	return nil, 0, false, false
}

func ratOf(c *big.Int, e int) *big.Rat {
	r := new(big.Rat).SetInt(c)
	p := new(big.Int).Exp(big.NewInt(10), big.NewInt(int64(abs(e))), nil)
	if e >= 0 {
		return r.Mul(r, new(big.Rat).SetInt(p))
	}
	return r.Quo(r, new(big.Rat).SetInt(p))
}

func sigDigits(c *big.Int) int {
	if c.Sign() == 0 {
		return 1
	}
	s := strings.TrimRight(new(big.Int).Abs(c).String(), "0")
	return len(s)
}

// checkArith: the result of Add (mul=false) or Mul (mul=true) on two numbers.
// Integers: the exact math/big result, typed int32 when both operands are
// int32 and it fits, int64 otherwise; rejected (Missing) exactly when an int64
// result does not fit.  Decimal128: the exact rational, or rejected exactly
// when it is not representable.
func checkArith(sink *failSink, st *oracleStats, mul bool, a, b, res interface{}) {
	name := "add"
	if mul {
		name = "mul"
	}
	ra, rb := numRank(a), numRank(b)
	if ra < 0 || rb < 0 {
		if res != bsonkit.Missing {
			sink.add("C11:non-number-not-missing", name+" of a non-number is not Missing", []string{enc(a), enc(b), enc(res)})
		}
		return
	}
	want := ra
	if rb > want {
		want = rb
	}
	st.Dist[fmt.Sprintf("%s:rank%d", name, want)]++
	switch want {
	case 0, 1:
		x, _ := intOf(a)
		y, _ := intOf(b)
		exact := new(big.Int)
		if mul {
			exact.Mul(x, y)
		} else {
			exact.Add(x, y)
		}
		fits32 := exact.Cmp(big.NewInt(math.MinInt32)) >= 0 && exact.Cmp(big.NewInt(math.MaxInt32)) <= 0
		fits64 := exact.IsInt64()
		var expect interface{}
		switch {
		case want == 0 && fits32:
			expect = int32(exact.Int64())
		case fits64:
			expect = exact.Int64()
		default:
			expect = bsonkit.Missing
		}
		if enc(res) == enc(expect) {
			if expect == bsonkit.Missing {
				st.Dist[name+":int64-overflow-rejected"]++
			} else if want == 0 && !fits32 {
				st.Dist[name+":int32-promoted"]++
			}
			return
		}
		if got, ok := intOf(res); ok && got.Cmp(exact) != 0 {
			sink.add(sigIntOverflow, name+": integer overflow wraps around instead of promoting (int32) or failing (int64)", []string{enc(a), enc(b), enc(res)})
			return
		}
		sink.add("C11:integer-result", name+": expected "+enc(expect)+" (exact result, int32 if both operands are int32 and it fits, else int64, rejected on int64 overflow)", []string{enc(a), enc(b), enc(res)})
	case 2:
		if numRank(res) != 2 {
			sink.add("C11:type-promotion", name+": result of a double operand is not a double", []string{enc(a), enc(b), enc(res)})
		}
	case 3:
		// NaN / infinite operands next to a Decimal128: the IEEE 754 table
		ka, kb := numKindIEEE(a), numKindIEEE(b)
		if ka.nan || kb.nan || ka.inf || kb.inf {
			want := ieeeSpecial(ka, kb, mul)
			rd, isDec := res.(primitive.Decimal128)
			if isDec {
				h, l := rd.GetBytes()
				if h == want && l == 0 {
					st.Dist[name+":ieee-special"]++
					return
				}
				if !rd.IsNaN() && rd.IsInf() == 0 {
					sink.add(sigDecNonFinite, name+": a NaN / Infinity operand next to a Decimal128 is treated as 0 (IEEE 754 / MongoDB propagate it)", []string{enc(a), enc(b), enc(res)})
					return
				}
			}
			sink.add("C11:nonfinite-ieee-result", fmt.Sprintf("%s: expected the Decimal128 special value %#x per IEEE 754 (NaN propagates, Inf-Inf and Inf*0 are NaN, otherwise the signed infinity)", name, want), []string{enc(a), enc(b), enc(res)})
			return
		}
		ca, ea, _, oka := decOf(a)
		cb, eb, _, okb := decOf(b)
		if !oka || !okb {
			// a finite double operand: decimal.NewFromFloat, not recomputed here
			if res != bsonkit.Missing && numRank(res) != 3 {
				sink.add("C11:type-promotion", name+": result of a Decimal128 operand is not a Decimal128", []string{enc(a), enc(b), enc(res)})
			}
			return
		}
		var exact *big.Rat
		var ec *big.Int
		ee := ea + eb
		if mul {
			exact = new(big.Rat).Mul(ratOf(ca, ea), ratOf(cb, eb))
			ec = new(big.Int).Mul(ca, cb)
		} else {
			exact = new(big.Rat).Add(ratOf(ca, ea), ratOf(cb, eb))
			ee = ea
			if eb < ee {
				ee = eb
			}
			x := new(big.Int).Mul(ca, new(big.Int).Exp(big.NewInt(10), big.NewInt(int64(ea-ee)), nil))
			y := new(big.Int).Mul(cb, new(big.Int).Exp(big.NewInt(10), big.NewInt(int64(eb-ee)), nil))
			ec = x.Add(x, y)
		}
		_, representable := primitive.ParseDecimal128FromBigInt(ec, ee)
		if res == bsonkit.Missing {
			if representable {
				sink.add("C11:decimal-rejected-although-representable", name+": a representable Decimal128 result is rejected", []string{enc(a), enc(b)})
			} else {
				st.Dist[name+":decimal-not-representable-rejected"]++
			}
			return
		}
		rd, isDec := res.(primitive.Decimal128)
		if !isDec {
			sink.add("C11:type-promotion", name+": result of a Decimal128 operand is not a Decimal128", []string{enc(a), enc(b), enc(res)})
			return
		}
		cr, er, fr, _ := decOf(res)
		if fr && ratOf(cr, er).Cmp(exact) == 0 {
			return
		}
		h, l := rd.GetBytes()
		if h == 0 && l == 0 && exact.Sign() != 0 {
			what := ": an exact result with more than 34 significant digits becomes 0"
			if sigDigits(ec) <= 34 {
				what = ": an exact result outside the Decimal128 exponent range becomes 0"
			}
			sink.add(sigDecOverflow, name+what+" (the conversion failure is ignored)", []string{enc(a), enc(b), enc(res)})
			return
		}
		sink.add("C11:decimal-inexact", name+": Decimal128 result differs from the exact result", []string{enc(a), enc(b), enc(res)})
	}
}

// numKindIEEE: NaN / infinite (with sign) / finite (with sign and zero-ness)
// of a number of any of the four types, independent of lungo.
type ieeeKind struct{ nan, inf, neg, zero bool }

func numKindIEEE(v interface{}) ieeeKind {
	switch x := v.(type) {
	case int32:
		return ieeeKind{neg: x < 0, zero: x == 0}
	case int64:
		return ieeeKind{neg: x < 0, zero: x == 0}
	case float64:
		return ieeeKind{nan: math.IsNaN(x), inf: math.IsInf(x, 0), neg: math.Signbit(x), zero: x == 0}
	case primitive.Decimal128:
		h, _ := x.GetBytes()
		comb := h >> 58 & 31
		switch {
		case comb == 31:
			return ieeeKind{nan: true}
		case comb == 30:
			return ieeeKind{inf: true, neg: h>>63 == 1}
		}
		bi, _, _ := x.BigInt()
		return ieeeKind{neg: h>>63 == 1, zero: bi == nil || bi.Sign() == 0}
	}
	return ieeeKind{}
}

// ieeeSpecial: the high word of the canonical Decimal128 NaN / +Infinity /
// -Infinity that IEEE 754 prescribes for a sum or product with a NaN or
// infinite operand.
func ieeeSpecial(a, b ieeeKind, mul bool) uint64 {
	const nan, pinf, ninf = 0x7C00000000000000, 0x7800000000000000, 0xF800000000000000
	inf := func(neg bool) uint64 {
		if neg {
			return ninf
		}
		return pinf
	}
	if a.nan || b.nan {
		return nan
	}
	if mul {
		if a.inf && b.zero || b.inf && a.zero {
			return nan
		}
		return inf(a.neg != b.neg)
	}
	switch {
	case a.inf && b.inf:
		if a.neg != b.neg {
			return nan
		}
		return inf(a.neg)
	case a.inf:
		return inf(a.neg)
	default:
		return inf(b.neg)
	}
}

func oracleNumeric(r *rng, n int, st *oracleStats) []oracleFailure {
	st.Rule = "pairs over int32/int64/double/decimal incl. overflow boundaries, non-finite and non-canonical values, through bsonkit.Add/Mul and through $inc/$mul on a field: integer results equal the math/big result, typed int32 iff both operands are int32 and it fits, int64 otherwise, rejected exactly on int64 overflow; decimal results equal the exact rational or are rejected exactly when not representable; a NaN / infinite operand (decimal or double) next to a Decimal128 gives the canonical Decimal128 special value of the IEEE 754 table; a rejected $inc/$mul leaves the field untouched; non-trivial = both operands are numbers"
	sink := &failSink{}
	for i := 0; i < n; i++ {
		a, b := genNumOperand(r, pick(r, []int{0, 0, 1, 1, 2, 3, 3, 4})), genNumOperand(r, pick(r, []int{0, 0, 1, 1, 2, 3, 3, 4}))
		if r.chance(1, 6) {
			a = pick(r, []interface{}{mustDec("NaN"), mustDec("Infinity"), mustDec("-Infinity"), math.NaN(), math.Inf(1), math.Inf(-1)})
			if _, isDec := a.(primitive.Decimal128); !isDec || r.chance(1, 2) {
				b = mustDec(pick(r, []string{"0", "-0", "0E+10", "1", "-1", "2.5", "-2.5", "NaN", "Infinity", "-Infinity", "1E+6111"}))
			}
			if r.chance(1, 2) {
				a, b = b, a
			}
		}
		mul := r.chance(1, 2)
		st.Evaluations++
		if numRank(a) >= 0 && numRank(b) >= 0 {
			st.Nontrivial++
		}
		if len(st.Samples) < 3 {
			st.Samples = append(st.Samples, enc(a)+" "+enc(b))
		}
		var res interface{}
		if r.chance(1, 2) {
			if mul {
				res = bsonkit.Mul(a, b)
			} else {
				res = bsonkit.Add(a, b)
			}
		} else {
			// through the update operator on a stored field
			if _, isM := a.(bsonkit.MissingType); isM {
				continue
			}
			d := bson.D{{Key: "k", Value: int32(1)}, {Key: "n", Value: a}}
			op := "$inc"
			if mul {
				op = "$mul"
			}
			u := bson.D{{Key: op, Value: bson.D{{Key: "n", Value: b}}}}
			ch, err, pan := safeApply(applyCase{doc: &d, query: &bson.D{}, update: &u})
			if pan {
				sink.add("C11:arith-panics", op+" panics", []string{enc(a), enc(b)})
				continue
			}
			if err != nil {
				if numRank(a) >= 0 && numRank(b) >= 0 {
					// legitimate only when Add / Mul reject the pair (checked below on Missing);
					// the rejected update must leave the document untouched
					direct := bsonkit.Add(a, b)
					if mul {
						direct = bsonkit.Mul(a, b)
					}
					if direct != bsonkit.Missing {
						sink.add("C11:arith-rejected", op+" of two numbers is rejected although the arithmetic has a result", []string{enc(a), enc(b)})
						continue
					}
					if enc(bsonkit.Get(&d, "n")) != enc(a) {
						sink.add("C11:rejected-update-left-changes", op+": a rejected update changed the field", []string{enc(a), enc(b), enc(bsonkit.Get(&d, "n"))})
					}
					checkArith(sink, st, mul, a, b, direct)
				}
				continue
			}
			res = bsonkit.Get(&d, "n")
			if enc(ch.Changed["n"]) != enc(res) {
				sink.add("C11:changes-differ", op+": the recorded change is not the stored value", []string{enc(a), enc(b), enc(res), enc(ch.Changed["n"])})
			}
		}
		checkArith(sink, st, mul, a, b, res)
	}
	return sink.fails
}

// ---- all or nothing through mongokit.Collection ----

func applyDumpColl(c *mongokit.Collection) [][]byte {
	var out [][]byte
	for _, d := range c.Documents.List {
		out = append(out, marshal(*d))
	}
	return out
}

func applySameDump(a, b [][]byte) bool {
	if len(a) != len(b) {
		return false
	}
	for i := range a {
		if !bytes.Equal(a[i], b[i]) {
			return false
		}
	}
	return true
}

func oracleAllOrNothing(r *rng, n int, st *oracleStats) []oracleFailure {
	st.Rule = "a collection of 1-4 documents (same key alphabet, distinct _id) x one update applied to all of them through Collection.Update on a Clone() of the collection, as the transaction layer does; if the update is rejected (possibly after some documents were already processed) the original collection AND the clone are byte-identical to before; if it succeeds the original is still unchanged, the clone holds exactly Apply(doc) for every document, and Result.Modified lists exactly the documents whose bytes changed; non-trivial = rejected after at least one document succeeded, or at least one document modified"
	sink := &failSink{}
	for i := 0; i < n; i++ {
		coll := mongokit.NewCollection(true)
		k := 1 + r.intn(4)
		var docs []bson.D
		for j := 0; j < k; j++ {
			d := genApplyDoc(r, 2, false)
			d = append(bson.D{{Key: "_id", Value: int32(j)}}, d...)
			docs = append(docs, d)
			if _, err := coll.Insert(bsonkit.Clone(&d)); err != nil {
				panic(err)
			}
		}
		u, filters := genUpdate(r, docs[r.intn(k)])
		st.Evaluations++
		before := applyDumpColl(coll)
		clone := coll.Clone()
		var res *mongokit.Result
		var err error
		pan := false
		func() {
			defer func() {
				if p := recover(); p != nil {
					pan = true
				}
			}()
			res, err = clone.Update(&bson.D{}, bsonkit.Clone(&u), nil, 0, 0, filters)
		}()
		if len(st.Samples) < 3 {
			st.Samples = append(st.Samples, fmt.Sprintf("%d docs, update %s", k, enc(u)))
		}
		if !applySameDump(before, applyDumpColl(coll)) {
			sink.add("C11:stored-document-touched", "Collection.Update on a clone changed the original collection's documents", []string{enc(u)})
			continue
		}
		if pan {
			st.Dist["panic"]++
			continue
		}
		// expected per-document outcome from Apply on private copies
		okCount, failed := 0, false
		var expect [][]byte
		for _, d := range docs {
			c := *bsonkit.Clone(&d)
			_, e, p := safeApply(applyCase{doc: &c, query: &bson.D{}, update: &u, filters: filters})
			if e != nil || p {
				failed = true
				break
			}
			okCount++
			expect = append(expect, marshal(c))
		}
		if sig, what, conflict := conflictSignature(u); conflict && err == nil && !pan {
			sink.add(sig, "Collection.Update: "+what, []string{enc(u)})
			continue
		}
		if err != nil {
			st.Dist["rejected"]++
			if okCount > 0 {
				st.Nontrivial++
				st.Dist["rejected-after-partial-success"]++
			}
			if !applySameDump(before, applyDumpColl(clone)) {
				sink.add("C11:rejected-update-left-changes", "a rejected update left changed documents in the collection it ran on", []string{enc(u)})
			}
			if !failed {
				idErr := strings.Contains(err.Error(), "_id is immutable") || strings.Contains(err.Error(), "duplicate")
				if !idErr {
					det := []string{enc(u)}
					for _, d := range docs {
						det = append(det, enc(d))
					}
					sink.add("C11:rejected-but-apply-succeeds", "Collection.Update rejects an update that Apply accepts on every document: "+err.Error(), det)
				}
			}
			continue
		}
		st.Dist["accepted"]++
		if failed {
			sink.add("C11:accepted-but-apply-fails", "Collection.Update accepts an update that Apply rejects on some document", []string{enc(u)})
			continue
		}
		after := applyDumpColl(clone)
		// $currentDate results differ by the clock: compare only when the update has none
		hasClock := false
		for _, e := range u {
			if e.Key == "$currentDate" {
				hasClock = true
			}
		}
		changed := 0
		for j := range before {
			if !bytes.Equal(before[j], after[j]) {
				changed++
			}
		}
		if !hasClock && !applySameDump(expect, after) {
			sink.add("C11:collection-update-differs-from-apply", "documents after Collection.Update are not Apply(document)", []string{enc(u)})
		}
		if len(res.Modified) != changed || len(res.Changes) != changed {
			sink.add("C11:modified-count", fmt.Sprintf("Result.Modified lists %d documents but %d changed", len(res.Modified), changed), []string{enc(u)})
		}
		if changed > 0 {
			st.Nontrivial++
			st.Dist["modified"]++
		} else {
			st.Dist["matched-not-modified"]++
		}
	}
	return sink.fails
}

// ---- Changed describes the update ----

// canonDoc: the value with the fields of every (embedded) document sorted by
// key, so that two documents that differ only in field order render equal.
func canonDoc(v interface{}) interface{} {
	switch x := v.(type) {
	case bson.D:
		out := make(bson.D, len(x))
		for i, e := range x {
			out[i] = bson.E{Key: e.Key, Value: canonDoc(e.Value)}
		}
		sort.SliceStable(out, func(i, j int) bool { return out[i].Key < out[j].Key })
		return out
	case bson.A:
		out := make(bson.A, len(x))
		for i, e := range x {
			out[i] = canonDoc(e)
		}
		return out
	}
	return v
}

func oracleChangesFaithful(r *rng, n int, st *oracleStats) []oracleFailure {
	st.Rule = "documents x updates of 1-3 operators (generator of family apply, no array filters); after a successful Apply the entries of Changes.Changed are replayed on a clone of the ORIGINAL document (bsonkit.Put for a value, bsonkit.Unset for Missing, in path order); the replayed document must equal the result up to the order of fields (Changed is an unordered map); updates that record a path with a non-canonical index segment (+1, -0, 01 — Put reads them as indices that alias 1, 0, 1 and escape the conflict check) are skipped; non-trivial = at least one change recorded"
	sink := &failSink{}
	for i := 0; i < n; i++ {
		d := genApplyDoc(r, 2, r.chance(1, 3))
		u, _ := genUpdate(r, d)
		st.Evaluations++
		d1 := *bsonkit.Clone(&d)
		ch, err, pan := safeApply(applyCase{doc: &d1, query: &bson.D{}, update: &u, upsert: r.chance(1, 3)})
		if pan || err != nil {
			st.Dist["rejected"]++
			continue
		}
		if len(ch.Changed) > 0 {
			st.Nontrivial++
			st.Dist["changed"]++
		} else {
			st.Dist["no-change-recorded"]++
		}
		if len(st.Samples) < 3 {
			st.Samples = append(st.Samples, enc(d)+" "+enc(u))
		}
		keys := make([]string, 0, len(ch.Changed))
		alias := false
		for k := range ch.Changed {
			keys = append(keys, k)
			for _, seg := range strings.Split(k, ".") {
				if n, err := strconv.Atoi(seg); err == nil && strconv.Itoa(n) != seg {
					alias = true // "+1", "-0", "01": Put reads them as indices that alias "1", "0", "1"
				}
			}
		}
		if alias {
			// two recorded paths may then name one array element without conflicting;
			// the replay order would matter: outside the domain of this oracle
			st.Dist["skipped:non-canonical-index-segment"]++
			continue
		}
		sort.Strings(keys)
		d2 := *bsonkit.Clone(&d)
		failed := false
		for _, k := range keys {
			v := ch.Changed[k]
			if v == bsonkit.Missing {
				bsonkit.Unset(&d2, k)
			} else if _, err := bsonkit.Put(&d2, k, cloneValue(v), false); err != nil {
				failed = true
				break
			}
		}
		if failed || enc(canonDoc(d2)) != enc(canonDoc(d1)) {
			sink.add("C11:changed-does-not-describe-update", "replaying Changes.Changed on the original document does not reproduce the updated document", []string{enc(d), enc(u), enc(d1), enc(d2)})
		}
	}
	return sink.fails
}

func cloneValue(v interface{}) interface{} {
	d := bson.D{{Key: "v", Value: v}}
	return (*bsonkit.Clone(&d))[0].Value
}

func init() {
	registerOracle(&oracle{prop: "C11", name: "changes-faithful", run: oracleChangesFaithful})
	registerOracle(&oracle{prop: "C11", name: "idempotence", run: oracleIdempotence})
	registerOracle(&oracle{prop: "C11", name: "untouched-fields", run: oracleUntouched})
	registerOracle(&oracle{prop: "C11", name: "numeric", run: oracleNumeric})
	registerOracle(&oracle{prop: "C11", name: "all-or-nothing", run: func(r *rng, n int, st *oracleStats) []oracleFailure {
		return oracleAllOrNothing(r, n/4+1, st) // collections of several documents: fewer rounds
	}})
}

// replayC11 re-executes the recorded input of a C11 oracle failure.
func replayC11(f oracleFailure) (string, bool) {
	det, _ := f.Detail.([]interface{})
	var parts []*sx
	for _, d := range det {
		s, _ := d.(string)
		c, err := parseSx(s)
		if err != nil {
			return "bad detail: " + s, false
		}
		parts = append(parts, c)
	}
	var sb strings.Builder
	fmt.Fprintf(&sb, "signature: %s\nwhat: %s\n", f.Signature, f.What)
	isDoc := func(c *sx) bool { return c.isL && len(c.list) > 0 && c.list[0].atom == "D" }
	if len(parts) >= 2 && isDoc(parts[0]) && isDoc(parts[1]) {
		d := decValue(parts[0]).(bson.D)
		u := decValue(parts[1]).(bson.D)
		d1 := *bsonkit.Clone(&d)
		_, err, pan := safeApply(applyCase{doc: &d1, query: &bson.D{}, update: &u})
		fmt.Fprintf(&sb, "document: %s\nupdate:   %s\nfirst:    %s (err=%v panic=%v)\n", enc(d), enc(u), enc(d1), err, pan)
		if err != nil || pan {
			return sb.String(), pan
		}
		d2 := *bsonkit.Clone(&d1)
		_, err2, pan2 := safeApply(applyCase{doc: &d2, query: &bson.D{}, update: &u})
		fmt.Fprintf(&sb, "second:   %s (err=%v panic=%v)\n", enc(d2), err2, pan2)
		sink := &failSink{}
		if strings.Contains(f.Signature, "not-idempotent") || strings.Contains(f.Signature, "second-application") {
			return sb.String(), pan2 || (err2 == nil && !bytes.Equal(marshal(d1), marshal(d2)))
		}
		// untouched fields / order: re-check
		touched := touchedTop(u)
		for _, e := range d {
			if touched[e.Key] {
				continue
			}
			v := bsonkit.Get(&d1, e.Key)
			if v == bsonkit.Missing || enc(v) != enc(e.Value) {
				sink.add("x", "field "+e.Key+" changed", nil)
			}
		}
		return sb.String(), len(sink.fails) > 0 || strings.Contains(f.Signature, "field-order")
	}
	if len(parts) >= 2 {
		a, b := decValue(parts[0]), decValue(parts[1])
		sink := &failSink{}
		st := &oracleStats{Dist: map[string]int{}}
		add, mul := bsonkit.Add(a, b), bsonkit.Mul(a, b)
		fmt.Fprintf(&sb, "a: %s\nb: %s\nAdd: %s\nMul: %s\n", enc(a), enc(b), enc(add), enc(mul))
		checkArith(sink, st, false, a, b, add)
		checkArith(sink, st, true, a, b, mul)
		for _, x := range sink.fails {
			fmt.Fprintf(&sb, "fails: %s (%s)\n", x.What, x.Signature)
		}
		for _, x := range sink.fails {
			if x.Signature == f.Signature {
				return sb.String(), true
			}
		}
		return sb.String(), false
	}
	return sb.String() + "nothing to replay", false
}

func init() { registerReplayer("C11", replayC11) }
