//go:build verif

package main

// fam_streamsched.go — family `streamsched`: scheduled concurrent runs of one
// change stream on the REAL engine, steered through the verif hook points
//   stream.next.wait   (consumer: after s.mutex.Unlock(), before the select)
//   stream.next.woke   (consumer: a select case fired)
//   commit.broadcast   (committer: catalog replaced, broadcast not yet done; e.mutex held)
// and compared step by step with the concurrent model (Model/Stream.v cstep,
// run_sched).  This explores exactly the window in which a wake-up could be
// lost: the consumer has found nothing and released the mutex, the commit
// publishes and signals before (or after) the consumer reaches the select.
//
//   (sched step ...)
//     (commit OP (ev ...) ...) (trim K)   before the watch step: history; after it: a complete Engine.Commit
//     (watch SCOPE)                       Watch from now
//     (next) (trynext)                    the consumer goroutine calls Next / TryNext and runs until the call
//                                         returns (rank | INVALIDATE | LOST | CLOSED | ERR | NOTHING) or it is
//                                         held at stream.next.wait (PARKED)
//     (await)                             release the held consumer into the select / look at a consumer that is
//                                         in the select: result as for (next), PARKED (woke, found nothing, held
//                                         again) or BLOCKED (nothing ready: the goroutine is parked in the select)
//     (publish OP (ev ...) ...) (signal)  a commit held at commit.broadcast / released
//     (close) (cancel) (engineclose)      Stream.Close / cancel the consumer's context / Engine.Close

import (
	"bytes"
	"context"
	"runtime"
	"strconv"
	"strings"
	"sync"
	"time"

	"github.com/256dpi/lungo"
	"go.mongodb.org/mongo-driver/bson"
)

type schedCtl struct {
	parked    chan struct{} // consumer reached stream.next.wait
	release   chan struct{}
	armed     bool // the next commit.broadcast is held
	published chan struct{}
	signal    chan struct{}
	mu        sync.Mutex
}

var (
	schedByStream sync.Map // *lungo.Stream -> *schedCtl
	schedByEngine sync.Map // *lungo.Engine -> *schedCtl
	schedHookOnce sync.Once
)

func schedHook(name string, info lungo.VerifInfo) {
	switch name {
	case "stream.next.wait":
		if c, ok := schedByStream.Load(info.Stream); ok {
			ctl := c.(*schedCtl)
			ctl.parked <- struct{}{}
			<-ctl.release
		}
	case "commit.broadcast":
		if c, ok := schedByEngine.Load(info.Engine); ok {
			ctl := c.(*schedCtl)
			ctl.mu.Lock()
			hold := ctl.armed
			ctl.armed = false
			ctl.mu.Unlock()
			if hold {
				ctl.published <- struct{}{}
				<-ctl.signal
			}
		}
	}
}

// goroutineInSelect reports whether goroutine id is parked in the `select` of
// Stream.next (runtime state "select", frame (*Stream).next).  Every waker of
// a schedule (commit, Close, cancel, Engine.Close) makes the goroutine runnable
// synchronously, so "parked in the select when we look" = nothing is ready:
// BLOCKED is observed positively, not by a timeout.
func goroutineInSelect(id uint64) bool {
	buf := make([]byte, 1<<20)
	for {
		n := runtime.Stack(buf, true)
		if n < len(buf) {
			buf = buf[:n]
			break
		}
		buf = make([]byte, 2*len(buf))
	}
	head := []byte("goroutine " + strconv.FormatUint(id, 10) + " [")
	i := bytes.Index(buf, head)
	if i < 0 {
		return false
	}
	rest := buf[i+len(head):]
	if j := bytes.Index(rest, []byte("\n\n")); j >= 0 {
		rest = rest[:j]
	}
	return bytes.HasPrefix(rest, []byte("select")) && bytes.Contains(rest, []byte("(*Stream).next"))
}

type schedRun struct {
	*sRun
	ctl         *schedCtl
	stream      lungo.IChangeStream
	ctx         context.Context
	cancel      func()
	res         chan bool // result of the consumer's current call
	gid         uint64    // goroutine id of the consumer\'s current call
	state       string    // idle | held | select | ended
	pubDone     chan struct{}
	closed      bool // engine closed
	lastPublish *sStep
}

func newSchedRun() *schedRun {
	schedHookOnce.Do(func() { lungo.SetVerifHook(schedHook) })
	r := &schedRun{sRun: newSRun(sBig, sBig, 0), state: "idle"}
	r.ctl = &schedCtl{parked: make(chan struct{}, 1), release: make(chan struct{}), published: make(chan struct{}), signal: make(chan struct{})}
	schedByEngine.Store(r.engine, r.ctl)
	r.ctx, r.cancel = context.WithCancel(context.Background())
	return r
}

func (r *schedRun) finish() {
	// let every held goroutine go
	r.cancel()
	if r.state == "held" {
		r.ctl.release <- struct{}{}
	}
	if r.pubDone != nil {
		select {
		case r.ctl.signal <- struct{}{}:
		case <-time.After(time.Second):
		}
	}
	if r.stream != nil {
		_ = r.stream.Close(context.Background())
		schedByStream.Delete(r.stream.(*lungo.Stream))
	}
	// a consumer may reach the wait point once more after being released
	go func() {
		for {
			select {
			case <-r.ctl.parked:
				r.ctl.release <- struct{}{}
			case <-time.After(200 * time.Millisecond):
				return
			}
		}
	}()
	schedByEngine.Delete(r.engine)
	r.engine.Close()
}

func (r *schedRun) showResult(ok bool) string {
	o := r.observe(r.stream, ok)
	if o.res == "EV" {
		return strconv.Itoa(o.rank)
	}
	return o.res
}

// wait for the consumer: the call returned, it is held at the wait point
// again, or it is parked in the select with nothing ready (BLOCKED)
func (r *schedRun) watchConsumer() string {
	deadline := time.Now().Add(5 * time.Second)
	for {
		select {
		case ok := <-r.res:
			r.state = "idle"
			return r.showResult(ok)
		case <-r.ctl.parked:
			r.state = "held"
			return "PARKED"
		case <-time.After(2 * time.Millisecond):
		}
		if r.gid != 0 && goroutineInSelect(r.gid) {
			// look once more at the channels: the goroutine may have parked at the hook before we looked
			select {
			case ok := <-r.res:
				r.state = "idle"
				return r.showResult(ok)
			case <-r.ctl.parked:
				r.state = "held"
				return "PARKED"
			default:
			}
			r.state = "select"
			return "BLOCKED"
		}
		if time.Now().After(deadline) {
			r.state = "select"
			return "HANG"
		}
	}
}

func (r *schedRun) qstep(st *sStep) string {
	out := r.qstep1(st)
	r.trace = append(r.trace, sObs{kind: st.kind, res: out, histLen: len(r.hist), ntrim: r.ntrim})
	return out
}

func (r *schedRun) qstep1(st *sStep) string {
	ctx := context.Background()
	switch st.kind {
	case "commit":
		r.doOp(ctx, st.op)
		st.evs = r.refresh()
		return "L" + strconv.Itoa(r.olen)
	case "trim":
		r.trim(st.k)
		r.refresh()
		return "L" + strconv.Itoa(r.olen)
	case "watch":
		var err error
		switch st.scope[0] {
		case "client":
			r.stream, err = r.client.Watch(ctx, bson.A{})
		case "db":
			r.stream, err = r.client.Database(st.scope[1]).Watch(ctx, bson.A{})
		default:
			r.stream, err = r.client.Database(st.scope[1]).Collection(st.scope[2]).Watch(ctx, bson.A{})
		}
		if err != nil {
			return "ERR"
		}
		schedByStream.Store(r.stream.(*lungo.Stream), r.ctl)
		return "W"
	case "next", "trynext":
		r.res = make(chan bool, 1)
		s, c, block := r.stream, r.ctx, st.kind == "next"
		gidc := make(chan uint64, 1)
		go func(res chan bool) {
			gidc <- lungo.VerifGoroutineID()
			if block {
				res <- s.Next(c)
			} else {
				res <- s.TryNext(c)
			}
		}(r.res)
		r.gid = <-gidc
		out := r.watchConsumer()
		if out == "BLOCKED" {
			return "HANG" // cannot happen: the consumer is held at the wait point before the select
		}
		return out
	case "await":
		if r.state == "held" {
			r.ctl.release <- struct{}{}
		}
		return r.watchConsumer()
	case "publish":
		r.lastPublish = st
		r.ctl.mu.Lock()
		r.ctl.armed = true
		r.ctl.mu.Unlock()
		r.pubDone = make(chan struct{})
		go func(done chan struct{}) {
			r.doOp(ctx, st.op)
			close(done)
		}(r.pubDone)
		select {
		case <-r.ctl.published:
		case <-r.pubDone: // not dirty: no broadcast
			r.ctl.mu.Lock()
			r.ctl.armed = false
			r.ctl.mu.Unlock()
			r.pubDone = nil
		}
		return "P"
	case "signal":
		if r.pubDone != nil {
			r.ctl.signal <- struct{}{}
			<-r.pubDone
			r.pubDone = nil
		}
		fresh := r.refresh()
		// the events belong to the publish step
		if r.lastPublish != nil {
			r.lastPublish.evs = fresh
		}
		return "L" + strconv.Itoa(r.olen)
	case "close":
		_ = r.stream.Close(ctx)
		return "-"
	case "cancel":
		r.cancel()
		return "-"
	case "engineclose":
		r.engine.Close()
		r.closed = true
		return "-"
	}
	return "?"
}

// ---- text ----

func schedStepText(st *sStep) string {
	switch st.kind {
	case "commit", "trim", "watch":
		return st.text()
	case "publish":
		c := *st
		c.kind = "commit"
		return "(publish" + strings.TrimPrefix(c.text(), "(commit")
	default:
		return "(" + st.kind + ")"
	}
}

func schedText(steps []*sStep) string {
	parts := make([]string, len(steps))
	for i, st := range steps {
		parts[i] = schedStepText(st)
	}
	return "(sched " + strings.Join(parts, " ") + ")"
}

func parseSchedScript(c *sx) []*sStep {
	var steps []*sStep
	for _, n := range c.list[1:] {
		st := &sStep{kind: n.list[0].atom}
		switch st.kind {
		case "commit", "publish":
			st.op = n.list[1]
			for _, e := range n.list[2:] {
				st.evs = append(st.evs, histEv{db: unhx(e.list[1].atom), coll: unhx(e.list[2].atom), op: e.list[3].atom})
			}
		case "trim":
			st.k = int(atoi64(n.list[1].atom))
		case "watch":
			sn := n.list[1]
			st.scope = []string{sn.list[0].atom}
			for _, a := range sn.list[1:] {
				st.scope = append(st.scope, unhx(a.atom))
			}
		}
		steps = append(steps, st)
	}
	return steps
}

// runSchedCase re-executes a recorded schedule (corpus, replay)
func runSchedCase(c *sx) string {
	for attempt := 0; ; attempt++ {
		steps := parseSchedScript(c)
		want := make([][]histEv, len(steps))
		for i, st := range steps {
			want[i] = st.evs
		}
		r := newSchedRun()
		var outs []string
		differ := false
		pub := -1
		for i, st := range steps {
			outs = append(outs, r.qstep(st))
			if st.kind == "commit" && !sameEvents(st.evs, want[i]) {
				differ = true
				break
			}
			if st.kind == "publish" {
				pub = i
			}
			if st.kind == "signal" && pub >= 0 && !sameEvents(steps[pub].evs, want[pub]) {
				differ = true
				break
			}
		}
		r.finish()
		if differ && attempt < 20 {
			continue
		}
		if differ {
			return "EVENTS-DIFFER"
		}
		return strings.Join(outs, " ")
	}
}

// ---- generator (online) ----

func genSchedCase(r *rng) (string, string) {
	t, o, _, _, _ := genSchedCaseTrace(r)
	return t, o
}

func genSchedCaseTrace(r *rng) (text, obs string, steps []*sStep, trace []sObs, hist []histEv) {
	run := newSchedRun()
	defer func() {
		trace, hist = run.trace, run.hist
		run.finish()
	}()
	text, obs, steps = genSchedCase1(r, run)
	return
}

func genSchedCase1(r *rng, run *schedRun) (string, string, []*sStep) {
	var steps []*sStep
	var outs []string
	add := func(st *sStep) string {
		o := run.qstep(st)
		steps = append(steps, st)
		outs = append(outs, o)
		return o
	}
	commit := func() { add(&sStep{kind: "commit", op: genOp(r, true)}) }
	terminal := func(o string) bool {
		return o == "CLOSED" || o == "LOST" || o == "ERR" || o == "NOTHING" || o == "HANG"
	}
	for i, n := 0, r.intn(3); i < n; i++ {
		commit()
	}
	if run.olen > 0 && r.chance(1, 4) {
		add(&sStep{kind: "trim", k: r.intn(run.olen + 1)})
	}
	if add(&sStep{kind: "watch", scope: genScope(r)}) != "W" {
		return schedText(steps), strings.Join(outs, " "), steps
	}
	ended := false
	for round, rounds := 0, 1+r.intn(4); round < rounds && !ended; round++ {
		if run.state == "idle" {
			if r.chance(1, 3) { // commits while the consumer is not in next(): the signal stays buffered
				commit()
			}
			if r.chance(1, 6) {
				if o := add(&sStep{kind: "trynext"}); terminal(o) && o != "NOTHING" {
					ended = true
					break
				}
			}
			// bring the consumer to the wait point
			for tries := 0; tries < 10; tries++ {
				o := add(&sStep{kind: "next"})
				if o == "PARKED" {
					break
				}
				if terminal(o) {
					ended = true
					break
				}
			}
			if ended || run.state != "held" {
				break
			}
		}
		inSelect := run.state == "select"
		toSelect := func() bool { // release until the consumer sits in the select with nothing ready
			for j := 0; j < 4; j++ {
				switch o := add(&sStep{kind: "await"}); {
				case o == "BLOCKED":
					return true
				case o == "PARKED":
				default:
					return false
				}
			}
			return false
		}
		if !inSelect && r.chance(1, 2) {
			if !toSelect() {
				if run.state != "held" {
					continue
				}
			} else {
				inSelect = true
			}
		}
		waker := r.intn(12)
		switch {
		case waker < 5:
			k := 1
			if !inSelect {
				k = 1 + r.intn(3)
			}
			for i := 0; i < k; i++ {
				commit()
			}
		case waker < 7:
			add(&sStep{kind: "publish", op: genOp(r, true)})
			if inSelect && r.chance(1, 2) {
				add(&sStep{kind: "await"})
			}
			add(&sStep{kind: "signal"})
		case waker < 8:
			add(&sStep{kind: "close"})
			ended = true
		case waker < 9:
			if !inSelect && !toSelect() {
				continue // the consumer left the wait on its own
			}
			add(&sStep{kind: "cancel"})
			ended = true
		case waker < 10:
			add(&sStep{kind: "engineclose"})
			ended = true
		default:
			k := run.olen
			if r.chance(1, 2) && k > 0 {
				k = 1 + r.intn(k)
			}
			add(&sStep{kind: "trim", k: k})
		}
		o := add(&sStep{kind: "await"})
		if o == "INVALIDATE" || ended {
			if run.state == "idle" {
				add(&sStep{kind: "next"})
			}
			ended = true
		} else if terminal(o) {
			ended = true
		}
	}
	return schedText(steps), strings.Join(outs, " "), steps
}

// ---- model-free judgement of a scheduled run (oracle `scheduled`) ----
//
// A consumer that is released into / sits in the select must come back with
// the first in-scope event that a COMPLETED commit has published (never
// PARKED/BLOCKED while such an event is retained), must come back after Close,
// cancellation and Engine.Close, delivers in order without gaps, and fails
// with Lost only when retention passed it.
func judgeSchedTrace(steps []*sStep, trace []sObs, hist []histEv) [][3]string {
	var fails [][3]string
	fail := func(sig, what string, i int) { fails = append(fails, [3]string{sig, what, strconv.Itoa(i)}) }
	var scope []string
	pos, histLen, ntrim := 0, 0, 0
	watching, ended, expectInv := false, "", false
	for i, st := range steps {
		if i >= len(trace) {
			break
		}
		o := trace[i]
		switch st.kind {
		case "watch":
			scope, watching, pos = st.scope, o.res == "W", histLen
		case "close", "cancel", "engineclose":
			if ended == "" {
				ended = st.kind
			}
		case "next", "trynext", "await":
			if !watching {
				break
			}
			var avail []int // in-scope events of completed commits ahead of the stream, still retained
			for j := pos; j < histLen; j++ {
				if j >= ntrim && oScope(scope, hist[j]) {
					avail = append(avail, j)
				}
			}
			switch {
			case o.res == "PARKED" || o.res == "BLOCKED":
				if ended != "" {
					fail("C09:"+ended+"-does-not-wake", "the consumer stays in the select ("+o.res+") after "+ended, i)
				} else if expectInv {
					fail("C09:no-invalidate-after-drop", "the consumer waits ("+o.res+") instead of returning the invalidate event", i)
				} else if len(avail) > 0 && ntrim <= pos {
					if st.kind == "await" {
						fail("C09:lost-wakeup", "the consumer stays in the select ("+o.res+") although completed commits have published in-scope events "+strconv.Itoa(avail[0])+".. after it released the mutex: the wake-up was lost", i)
					} else {
						fail("C09:missed-available-event", "Next waits although in-scope events "+strconv.Itoa(avail[0])+".. are committed and retained", i)
					}
				}
			case o.res == "HANG":
				fail("C09:stall", "Next neither returned nor reached the wait point within 2 s", i)
			case o.res == "INVALIDATE":
				if !expectInv {
					fail("C09:spurious-invalidate", "invalidate without a drop of the stream's namespace", i)
				}
				expectInv, ended = false, "invalidate"
			case o.res == "LOST":
				if ntrim < pos {
					fail("C09:lost-without-trim", "ErrLostOplogPosition although the stream's reference event is retained", i)
				}
				ended = "lost"
			case o.res == "CLOSED" || o.res == "ERR" || o.res == "NOTHING":
				if ended == "" && !(st.kind == "trynext" && o.res == "NOTHING") {
					fail("C09:closed-unexpectedly", "the call returned false ("+o.res+") without Close, cancel, Engine.Close, invalidate or error", i)
				}
				if st.kind == "trynext" && o.res == "NOTHING" && ended == "" && len(avail) > 0 && ntrim <= pos {
					fail("C09:missed-available-event", "TryNext reports nothing although in-scope events are committed and retained", i)
				}
			default: // a rank
				rk, err := strconv.Atoi(o.res)
				if err != nil {
					fail("C09:bad-observation", o.res, i)
					break
				}
				if ended != "" && ended != "cancel" {
					fail("C09:delivery-after-end", "event delivered after "+ended, i)
				}
				if rk < pos || !oScope(scope, hist[rk]) {
					fail("C09:duplicate-or-out-of-scope", "event "+o.res+" delivered at position "+strconv.Itoa(pos), i)
				} else if len(avail) > 0 && avail[0] < rk {
					fail("C09:gap", "retained in-scope event "+strconv.Itoa(avail[0])+" skipped, "+o.res+" delivered", i)
				}
				pos = rk + 1
				if oInvalidates(scope, hist[rk]) {
					expectInv = true
				}
			}
		}
		histLen, ntrim = o.histLen, o.ntrim
	}
	return fails
}

func oracleC09Scheduled(r *rng, n int, st *oracleStats) []oracleFailure {
	st.Rule = "scheduled runs under the verif-hook controller (n/8 schedules as in family streamsched), judged without the model: a consumer released into the select returns the first in-scope event published by a completed commit (no lost wake-up in the window between s.mutex.Unlock() and the select), returns after Close / cancel / Engine.Close, delivers gap-free in order, Lost only after retention passed it"
	st.Samples = []string{}
	var fails []oracleFailure
	runs := n / 8
	if runs < 50 {
		runs = 50
	}
	seeds := make([]uint64, runs)
	for i := range seeds {
		seeds[i] = r.u64()
	}
	type job struct {
		text  string
		fails [][3]string
		outs  string
	}
	jobs := make([]job, runs)
	var wg sync.WaitGroup
	sem := make(chan struct{}, 24)
	for i := range seeds {
		wg.Add(1)
		go func(i int) {
			defer wg.Done()
			sem <- struct{}{}
			defer func() { <-sem }()
			text, outs, steps, trace, hist := genSchedCaseTrace(newRng(seeds[i]))
			jobs[i] = job{text, judgeSchedTrace(steps, trace, hist), outs}
		}(i)
	}
	wg.Wait()
	seen := map[string]int{}
	for _, j := range jobs {
		st.Evaluations++
		if strings.Contains(j.outs, "PARKED") {
			st.Nontrivial++
		}
		for _, t := range strings.Fields(j.outs) {
			if t == "PARKED" || t == "BLOCKED" || t == "LOST" || t == "CLOSED" || t == "ERR" || t == "INVALIDATE" {
				st.Dist["sched:"+t]++
			}
		}
		if len(st.Samples) < 2 {
			st.Samples = append(st.Samples, j.text+" => "+j.outs)
		}
		for _, f := range j.fails {
			st.Dist["failure:"+f[0]]++
			seen[f[0]]++
			if seen[f[0]] > 3 {
				continue
			}
			fails = append(fails, oracleFailure{Property: "C09", Signature: f[0], What: f[1], Family: "streamsched", Case: j.text,
				Detail: map[string]string{"step": f[2], "observed": j.outs}})
		}
	}
	return fails
}

var schedBatch [][2]string

func nextSchedCase(r *rng) string {
	if len(schedBatch) == 0 {
		const n = 128
		seeds := make([]uint64, n)
		for i := range seeds {
			seeds[i] = r.u64()
		}
		res := make([][2]string, n)
		var wg sync.WaitGroup
		sem := make(chan struct{}, 24)
		for i := range seeds {
			wg.Add(1)
			go func(i int) {
				defer wg.Done()
				sem <- struct{}{}
				defer func() { <-sem }()
				t, o := genSchedCase(newRng(seeds[i]))
				res[i] = [2]string{t, o}
			}(i)
		}
		wg.Wait()
		schedBatch = res
	}
	c := schedBatch[0]
	schedBatch = schedBatch[1:]
	sCacheMu.Lock()
	sCache[c[0]] = c[1]
	sCacheMu.Unlock()
	return c[0]
}

func init() {
	registerOracle(&oracle{prop: "C09", name: "scheduled", run: oracleC09Scheduled})
	schedReplay = func(f oracleFailure) (string, bool) {
		c, err := parseSx(f.Case)
		if err != nil {
			return "bad case", false
		}
		steps := parseSchedScript(c)
		r := newSchedRun()
		var outs []string
		for _, st := range steps {
			outs = append(outs, r.qstep(st))
		}
		trace, hist := r.trace, r.hist
		r.finish()
		text := "schedule: " + f.Case + "\nobserved: " + strings.Join(outs, " ") + "\n"
		again := false
		for _, jf := range judgeSchedTrace(steps, trace, hist) {
			text += "FAILS " + jf[0] + " at step " + jf[2] + ": " + jf[1] + "\n"
			if jf[0] == f.Signature {
				again = true
			}
		}
		if !again {
			text += "the recorded failure " + f.Signature + " does not recur\n"
		}
		return text, again
	}
	register(&family{
		name: "streamsched",
		gen:  nextSchedCase,
		run: func(c *sx) string {
			key := sxText(c)
			sCacheMu.Lock()
			o, ok := sCache[key]
			delete(sCache, key)
			sCacheMu.Unlock()
			if ok {
				return o
			}
			return runSchedCase(c)
		},
		classify: func(c *sx, obs string) ([]string, bool) {
			seen := map[string]bool{}
			var labels []string
			add := func(l string) {
				if !seen[l] {
					seen[l] = true
					labels = append(labels, l)
				}
			}
			prev := ""
			for _, n := range c.list[1:] {
				k := n.list[0].atom
				add("step:" + k)
				if prev != "" {
					add("seq:" + prev + ">" + k)
				}
				prev = k
			}
			nt := false
			for _, t := range strings.Fields(obs) {
				switch {
				case t == "PARKED" || t == "BLOCKED":
					add("out:" + t)
					nt = true
				case t == "INVALIDATE" || t == "LOST" || t == "CLOSED" || t == "ERR" || t == "NOTHING":
					add("out:" + t)
				case t[0] >= '0' && t[0] <= '9':
					add("out:event")
				}
			}
			return labels, nt
		},
	})
}
