module verif/harness

go 1.25.0

require (
	github.com/256dpi/lungo v0.0.0
	go.mongodb.org/mongo-driver v1.17.9
)

require (
	github.com/golang/snappy v0.0.4 // indirect
	github.com/klauspost/compress v1.16.7 // indirect
	github.com/montanaflynn/stats v0.7.1 // indirect
	github.com/shopspring/decimal v1.4.0 // indirect
	github.com/tidwall/btree v1.8.1 // indirect
	github.com/xdg-go/pbkdf2 v1.0.0 // indirect
	github.com/xdg-go/scram v1.1.2 // indirect
	github.com/xdg-go/stringprep v1.0.4 // indirect
	github.com/youmark/pkcs8 v0.0.0-20240726163527-a2c0da244d78 // indirect
	golang.org/x/crypto v0.50.0 // indirect
	golang.org/x/sync v0.20.0 // indirect
	golang.org/x/text v0.36.0 // indirect
	gopkg.in/tomb.v2 v2.0.0-20161208151619-d5d1b5820637 // indirect
)

replace github.com/256dpi/lungo => /root/scratch/engine/lungo
