module verif/harness

go 1.25.0

require (
	github.com/256dpi/lungo v0.0.0
	go.mongodb.org/mongo-driver v1.17.9
)

require (
	github.com/shopspring/decimal v1.4.0 // indirect
	github.com/tidwall/btree v1.8.1 // indirect
)

replace github.com/256dpi/lungo => /repo
