package main

// fam_access.go — family `access`: bsonkit.Get / All / Put / Unset.

import (
	"strconv"
	"strings"

	"go.mongodb.org/mongo-driver/bson"

	"github.com/256dpi/lungo/bsonkit"
)

var oddSegments = []string{"", "00", "+1", "-0", "-1", "01", "9223372036854775808", "x", "a"}

// genPath: mostly a walk down the document (valid paths), sometimes extended
// or replaced by arbitrary segments (missing intermediates, numeric segments,
// empty segments).
func genPath(r *rng, v interface{}) string {
	var segs []string
	cur := v
	for depth := 0; depth < 4; depth++ {
		switch x := cur.(type) {
		case bson.D:
			if len(x) > 0 && r.chance(4, 5) {
				e := x[r.intn(len(x))]
				segs = append(segs, e.Key)
				cur = e.Value
				continue
			}
		case bson.A:
			if r.chance(1, 2) {
				// implicit traversal: name a key of some element document
				for _, it := range x {
					if d, ok := it.(bson.D); ok && len(d) > 0 {
						e := d[r.intn(len(d))]
						segs = append(segs, e.Key)
						cur = e.Value
						goto next
					}
				}
			}
			if len(x) > 0 && r.chance(3, 4) {
				i := r.intn(len(x) + 1)
				segs = append(segs, strconv.Itoa(i))
				if i < len(x) {
					cur = x[i]
				} else {
					cur = nil
				}
				continue
			}
		}
		break
	next:
	}
	// extension / noise
	for r.chance(1, 3) && len(segs) < 5 {
		switch r.intn(3) {
		case 0:
			segs = append(segs, pick(r, poolKeys))
		case 1:
			segs = append(segs, strconv.Itoa(r.intn(4)))
		default:
			segs = append(segs, pick(r, oddSegments))
		}
	}
	if len(segs) == 0 {
		segs = append(segs, pick(r, poolKeys))
	}
	return strings.Join(segs, ".")
}

func tf(b bool) string {
	if b {
		return "T"
	}
	return "F"
}

func init() {
	register(&family{
		name: "access",
		gen: func(r *rng) string {
			d := genDocD(r, 3, r.chance(1, 3))
			p := genPath(r, d)
			switch r.intn(4) {
			case 0:
				return "(get " + enc(d) + " " + hx(p) + ")"
			case 1:
				return "(all " + enc(d) + " " + hx(p) + " " + tf(r.chance(1, 2)) + " " + tf(r.chance(1, 2)) + ")"
			case 2:
				return "(put " + enc(d) + " " + hx(p) + " " + enc(genValue(r, 2)) + " " + tf(r.chance(1, 4)) + ")"
			default:
				return "(unset " + enc(d) + " " + hx(p) + ")"
			}
		},
		run: func(c *sx) string {
			d := decDoc(c.list[1])
			p := unhx(c.list[2].atom)
			switch c.list[0].atom {
			case "get":
				return enc(bsonkit.Get(d, p))
			case "all":
				v, n := bsonkit.All(d, p, c.list[3].atom == "T", c.list[4].atom == "T")
				return "(" + enc(v) + " " + tf(n) + ")"
			case "put":
				old, err := bsonkit.Put(d, p, decValue(c.list[3]), c.list[4].atom == "T")
				if err != nil {
					return "ERR"
				}
				return "(" + enc(old) + " " + enc(*d) + ")"
			case "unset":
				old := bsonkit.Unset(d, p)
				return "(" + enc(old) + " " + enc(*d) + ")"
			}
			return "BAD-CASE"
		},
		classify: func(c *sx, obs string) ([]string, bool) {
			op := c.list[0].atom
			kind := "value"
			switch {
			case obs == "ERR":
				kind = "err"
			case obs == "M" || strings.HasPrefix(obs, "(M "):
				kind = "missing"
			}
			return []string{"op:" + op, op + ":" + kind}, true
		},
	})
}
