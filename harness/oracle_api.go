package main

// oracle_api.go — model-free oracles on histories of driver calls against the
// real engine: C02 (a call that reports an error leaves every byte of the
// database as it was; batches = the surviving items one by one), C03 (readers'
// snapshots are immutable; transaction writes are invisible until commit and
// vanish on abort), C07 (pairwise uniqueness by an independent key extractor),
// C15 (every index lists exactly the collection's documents, sorted, = a
// rebuilt index), C08 (oplog ids strictly increase; replaying the events
// between two points reproduces the later contents).

import (
	"context"
	"encoding/hex"
	"fmt"
	"sort"
	"strconv"
	"strings"
	"time"

	"go.mongodb.org/mongo-driver/bson"
	"go.mongodb.org/mongo-driver/bson/primitive"

	"github.com/256dpi/lungo"
	"github.com/256dpi/lungo/bsonkit"
	"github.com/256dpi/lungo/mongokit"
)

// byteDump renders a catalog completely: documents as BSON bytes in natural
// order, index configurations, index entries (key bytes + document position).
func byteDump(cat *lungo.Catalog) string {
	hs := make([]lungo.Handle, 0, len(cat.Namespaces))
	for h := range cat.Namespaces {
		hs = append(hs, h)
	}
	sort.Slice(hs, func(i, j int) bool {
		if hs[i][0] != hs[j][0] {
			return hs[i][0] < hs[j][0]
		}
		return hs[i][1] < hs[j][1]
	})
	var sb strings.Builder
	for _, h := range hs {
		sb.WriteString("NS " + h[0] + "." + h[1] + "\n")
		sb.WriteString(collDump(cat.Namespaces[h]))
	}
	return sb.String()
}

func collDump(c *mongokit.Collection) string {
	var sb strings.Builder
	pos := map[bsonkit.Doc]int{}
	for i, d := range c.Documents.List {
		b, err := bson.Marshal(*d)
		if err != nil {
			sb.WriteString(" doc ERR\n")
			continue
		}
		sb.WriteString(" doc " + hex.EncodeToString(b) + "\n")
		pos[d] = i
	}
	names := make([]string, 0, len(c.Indexes))
	for n := range c.Indexes {
		names = append(names, n)
	}
	sort.Strings(names)
	for _, n := range names {
		ix := c.Indexes[n]
		cf := ix.Config()
		kb, _ := bson.Marshal(*cf.Key)
		pb := []byte{}
		if cf.Partial != nil {
			pb, _ = bson.Marshal(*cf.Partial)
		}
		sb.WriteString(fmt.Sprintf(" index %s key=%x unique=%v partial=%x expiry=%d\n", n, kb, cf.Unique, pb, cf.Expiry))
		var es []string
		for _, e := range ix.VerifBase().VerifEntries() {
			kb, _ := bson.Marshal(bson.D{{Key: "k", Value: bson.A(e.Keys)}})
			p, ok := pos[e.Doc]
			if !ok {
				p = -1
			}
			es = append(es, fmt.Sprintf("  entry %d %x\n", p, kb))
		}
		sort.Strings(es)
		sb.WriteString(strings.Join(es, ""))
	}
	return sb.String()
}

func isWriteCall(op string) bool {
	switch op {
	case "insertOne", "update", "replace", "delete", "fau", "far", "fad", "createIndex", "dropIndex", "dropIndexKey", "updateById", "dropAllIndexes", "dropColl", "dropDb":
		return true
	}
	return false
}

func isErrReply(r string) bool {
	return r == "ERR" || r == "DUP" || strings.HasPrefix(r, "ERR") || strings.HasPrefix(r, "DUP")
}

// sessionViews dumps what every open session transaction sees.
func (a *apiRun) sessionViews() string {
	var ids []int64
	for id := range a.sessions {
		ids = append(ids, id)
	}
	sort.Slice(ids, func(i, j int) bool { return ids[i] < ids[j] })
	var sb strings.Builder
	for _, id := range ids {
		s := a.sessions[id].(*lungo.Session)
		if txn := s.Transaction(); txn != nil {
			sb.WriteString("SESSION " + strconv.FormatInt(id, 10) + "\n" + byteDump(txn.Catalog()))
		}
	}
	return sb.String()
}

func hasProjectionInSession(c *sx, a *apiRun) bool {
	op := c.list[0].atom
	sid, _ := strconv.ParseInt(c.list[1].atom, 10, 64)
	if sid <= 0 {
		return false
	}
	s, ok := a.sessions[sid]
	if !ok || s.(*lungo.Session).Transaction() == nil {
		return false
	}
	switch op {
	case "fau", "far":
		return c.list[7].isL
	case "fad":
		return c.list[6].isL
	}
	return false
}

type snapshot struct {
	at    int
	cat   *lungo.Catalog
	txn   *lungo.Transaction
	dump  string
	tdump string
	cur   lungo.ICursor
	cexp  string
}

func oracleHistories(prop string) func(r *rng, n int, st *oracleStats) []oracleFailure {
	return func(r *rng, n int, st *oracleStats) []oracleFailure {
		st.Rule = "histories of 5-35 driver calls (api generator: inserts, updates, replaces, deletes, find-one-and-modify, bulk, index management, drops, session transactions) on a real in-memory engine; non-trivial = the history contains at least one call that reported an error and one that changed state"
		var fails []oracleFailure
		add := func(sig, what, hist string, at int, detail interface{}) {
			if len(fails) < 10 {
				fails = append(fails, oracleFailure{Property: prop, Signature: sig, What: what, Family: "api", Case: hist, Detail: map[string]interface{}{"call_index": at, "info": detail}})
			}
		}
		seen := map[string]bool{}
		for i := 0; i < n; i++ {
			hist := genAPIFull(r)
			st.Evaluations++
			c, _ := parseSx(hist)
			nt := runHistoryOracles(prop, c, hist, st, add)
			if !seen[hist] {
				seen[hist] = true
				if nt {
					st.Nontrivial++
				}
			}
			if len(st.Samples) < 2 {
				st.Samples = append(st.Samples, hist)
			}
		}
		return fails
	}
}

func runHistoryOracles(prop string, c *sx, hist string, st *oracleStats, add func(sig, what, hist string, at int, detail interface{})) bool {
	client, engine, err := lungo.Open(nil, lungo.Options{Store: lungo.NewMemoryStore(), ExpireInterval: time.Hour})
	if err != nil {
		return false
	}
	defer engine.Close()
	a := &apiRun{client: client, engine: engine, cn: newOidCanon(), sessions: map[int64]lungo.ISession{}}
	var snaps []*snapshot
	sawErr, sawChange := false, false
	var lastTs primitive.Timestamp
	type point struct {
		contents map[string][]bson.D
		oplogLen int
		lastTs   primitive.Timestamp
	}
	var points []point
	var oplogAll []bson.D // every event ever appended (also after trims)
	for i, call := range c.list[2:] {
		op := call.list[0].atom
		before := engine.Catalog()
		beforeDump := byteDump(before)
		beforeViews := a.sessionViews()
		excluded := hasProjectionInSession(call, a)
		openBefore := a.openTxnSession()
		reply, _ := a.call(call)
		after := engine.Catalog()
		afterDump := byteDump(after)
		st.Dist["call:"+op]++
		if afterDump != beforeDump {
			sawChange = true
		}
		switch prop {
		case "C02":
			if isWriteCall(op) && isErrReply(reply) {
				sawErr = true
				st.Dist["error-replies"]++
				if excluded {
					// known finding: a failing projection of a find-one-and-modify routed to an
					// open session transaction leaves the write in that transaction
					st.Dist["projection-in-session"]++
					if v := a.sessionViews(); v != beforeViews {
						add("C02:projection-error-in-session-keeps-write", "find-one-and-modify with a failing projection inside an explicit session transaction reports an error but keeps the write in the open transaction", hist, i, reply)
					}
					if afterDump != beforeDump {
						add("C02:error-changed-committed-state:"+op, "a call that reported an error changed the committed database", hist, i, reply)
					}
				} else {
					if afterDump != beforeDump {
						add("C02:error-changed-committed-state:"+op, "a call that reported an error changed the committed database", hist, i, reply)
					} else if after != before {
						add("C02:error-replaced-catalog:"+op, "a call that reported an error replaced the committed catalog object", hist, i, reply)
					}
					if v := a.sessionViews(); v != beforeViews {
						add("C02:error-changed-transaction-state:"+op, "a call that reported an error changed an open transaction's catalog", hist, i, reply)
					}
				}
			}
			if (op == "insertMany" || op == "bulk") && strings.Contains(reply, "ERR") || strings.Contains(reply, "DUP") {
				sawErr = true
			}
		case "C03":
			// snapshots taken earlier must still dump identically
			for _, s := range snaps {
				if d := byteDump(s.cat); d != s.dump {
					add("C03:catalog-snapshot-mutated", "an earlier engine.Catalog() snapshot changed after "+op, hist, i, s.at)
				}
				if s.txn != nil {
					if d := byteDump(s.txn.Catalog()); d != s.tdump {
						add("C03:readonly-transaction-mutated", "a read-only transaction taken earlier changed after "+op, hist, i, s.at)
					}
				}
			}
			// transaction invisibility: a call routed to an open transaction must not change the committed state
			if openBefore > 0 && strings.HasPrefix(call.list[1].atom, strconv.FormatInt(openBefore, 10)) && op != "commit" && len(call.list) > 1 && !call.list[1].isL {
				sid, _ := strconv.ParseInt(call.list[1].atom, 10, 64)
				if sid == openBefore && afterDump != beforeDump {
					add("C03:transaction-write-visible-before-commit", "a call inside a session transaction changed the committed state", hist, i, op)
				}
			}
			if op == "abort" || op == "end" {
				if afterDump != beforeDump {
					add("C03:abort-changed-committed-state", op+" changed the committed state", hist, i, nil)
				}
			}
			if op == "commit" && openBefore > 0 && reply == "OK" {
				// the committed state must now equal what the session saw
				sid, _ := strconv.ParseInt(call.list[1].atom, 10, 64)
				if sid == openBefore {
					want := strings.TrimPrefix(beforeViews, "SESSION "+strconv.FormatInt(sid, 10)+"\n")
					if want != afterDump {
						add("C03:commit-differs-from-transaction-view", "the committed state after commit is not the transaction's state", hist, i, nil)
					}
				}
			}
			if i%3 == 0 && len(snaps) < 6 {
				s := &snapshot{at: i, cat: after, dump: afterDump}
				if txn, err := engine.Begin(context.Background(), false); err == nil {
					s.txn = txn
					s.tdump = byteDump(txn.Catalog())
				}
				snaps = append(snaps, s)
			}
		case "C07":
			checkUniqueness(after, hist, i, add, st)
			if op == "update" && strings.Contains(reply, "DUP") {
				checkUpdateRejection(before, call, hist, i, add, st)
			}
		case "C15":
			checkIndexes(after, hist, i, add, st)
		case "C08":
			// collect appended events, check ids strictly increasing
			ol := after.Namespaces[lungo.Oplog].Documents.List
			for _, e := range ol {
				ts, _ := bsonkit.Get(e, "_id.ts").(primitive.Timestamp)
				if primitive.CompareTimestamp(ts, lastTs) > 0 {
					if ct, ok := bsonkit.Get(e, "clusterTime").(primitive.Timestamp); !ok || ct != ts {
						add("C08:cluster-time-differs-from-id", "event clusterTime differs from its id", hist, i, nil)
					}
					oplogAll = append(oplogAll, *e)
					lastTs = ts
				}
			}
			for k := 1; k < len(ol); k++ {
				a0, _ := bsonkit.Get(ol[k-1], "_id.ts").(primitive.Timestamp)
				a1, _ := bsonkit.Get(ol[k], "_id.ts").(primitive.Timestamp)
				if primitive.CompareTimestamp(a0, a1) >= 0 {
					add("C08:event-ids-not-increasing", "oplog event ids are not strictly increasing", hist, i, k)
				}
			}
			if isErrReply(reply) && isWriteCall(op) && len(ol) > 0 && beforeDump != afterDump {
				add("C08:failed-call-logged-event", "a failed call changed the oplog", hist, i, op)
			}
			points = append(points, point{contents: contentsOf(after), oplogLen: len(oplogAll), lastTs: lastTs})
		}
		if isErrReply(reply) {
			sawErr = true
		}
	}
	if prop == "C15" || prop == "C07" {
		// the _id index survives every way of dropping indexes: by name, all at
		// once (both part of the histories) and by key specification
		for _, sess := range a.sessions {
			// an open session transaction holds the write token
			sess.AbortTransaction(context.Background())
			sess.EndSession(context.Background())
		}
		final := engine.Catalog()
		for h := range final.Namespaces {
			if h == lungo.Oplog || h[0] == lungo.Local {
				continue
			}
			st.Dist["drop-id-by-key-probes"]++
			pctx, pcancel := context.WithTimeout(context.Background(), 2*time.Second)
			_, err := client.Database(h[0]).Collection(h[1]).Indexes().DropOneWithKey(pctx, bson.D{{Key: "_id", Value: int32(1)}})
			pcancel()
			after := engine.Catalog().Namespaces[h]
			if err == nil || after == nil || after.Indexes["_id_"] == nil {
				add(prop+":drop-id-index-by-key", "DropOneWithKey({_id: 1}) removed the _id index of "+h.String()+" (or reported success)", hist, len(c.list)-2, nil)
				break
			}
		}
	}
	if prop == "C08" {
		// update events: the recorded updated/removed fields applied to the previous
		// version of the document give the new version (up to field order)
		state := map[string][]bson.D{}
		for k := range oplogAll {
			e := &oplogAll[k]
			db, _ := bsonkit.Get(e, "ns.db").(string)
			coll, _ := bsonkit.Get(e, "ns.coll").(string)
			key := db + "." + coll
			op, _ := bsonkit.Get(e, "operationType").(string)
			if op == "update" {
				id := bsonkit.Get(e, "documentKey._id")
				full, _ := bsonkit.Get(e, "fullDocument").(bson.D)
				for _, d := range state[key] {
					dd := d
					if bsonkit.Compare(bsonkit.Get(&dd, "_id"), id) != 0 {
						continue
					}
					prev := bsonkit.Clone(&dd)
					ok := true
					if upd, isD := bsonkit.Get(e, "updateDescription.updatedFields").(bson.D); isD {
						for _, f := range upd {
							if _, err := bsonkit.Put(prev, f.Key, f.Value, false); err != nil {
								ok = false
							}
						}
					}
					if rem, isA := bsonkit.Get(e, "updateDescription.removedFields").(bson.A); isA {
						for _, f := range rem {
							if p, isS := f.(string); isS {
								bsonkit.Unset(prev, p)
							}
						}
					}
					st.Dist["update-descriptions-checked"]++
					if !ok || sortedForm(*prev) != sortedForm(full) {
						add("C08:update-description-unfaithful", "applying updatedFields/removedFields of an update event to the previous version does not give the recorded new version", hist, k, []string{enc(dd), enc(*e)})
					}
					break
				}
			}
			state = replayEvents(state, oplogAll[k:k+1])
		}
	}
	if prop == "C08" && len(points) > 1 {
		// replay between random pairs of points (all pairs for short histories)
		for x := 0; x < len(points); x++ {
			for y := x + 1; y < len(points); y++ {
				got := replayEvents(points[x].contents, oplogAll[points[x].oplogLen:points[y].oplogLen])
				if d := diffContents(got, points[y].contents); d != "" {
					add("C08:replay-mismatch", "replaying the events recorded between two points does not reproduce the later contents: "+d, hist, y, x)
					x, y = len(points), len(points)
				}
			}
		}
		st.Dist["replay-pairs"] += len(points) * (len(points) - 1) / 2
	}
	return sawErr && sawChange
}

func (a *apiRun) openTxnSession() int64 {
	for id, s := range a.sessions {
		if s.(*lungo.Session).Transaction() != nil {
			return id
		}
	}
	return 0
}

// ---- C08 helpers: contents and replay ----

func contentsOf(cat *lungo.Catalog) map[string][]bson.D {
	out := map[string][]bson.D{}
	for h, c := range cat.Namespaces {
		if h == lungo.Oplog {
			continue
		}
		var l []bson.D
		for _, d := range c.Documents.List {
			l = append(l, *bsonkit.Clone(d))
		}
		out[h[0]+"."+h[1]] = l
	}
	return out
}

func replayEvents(start map[string][]bson.D, evs []bson.D) map[string][]bson.D {
	cur := map[string][]bson.D{}
	for k, v := range start {
		cur[k] = append([]bson.D{}, v...)
	}
	for i := range evs {
		e := &evs[i]
		db, _ := bsonkit.Get(e, "ns.db").(string)
		coll, _ := bsonkit.Get(e, "ns.coll").(string)
		key := db + "." + coll
		op, _ := bsonkit.Get(e, "operationType").(string)
		id := bsonkit.Get(e, "documentKey._id")
		full, _ := bsonkit.Get(e, "fullDocument").(bson.D)
		find := func() int {
			for j, d := range cur[key] {
				dd := d
				if bsonkit.Compare(bsonkit.Get(&dd, "_id"), id) == 0 {
					return j
				}
			}
			return -1
		}
		switch op {
		case "insert", "replace", "update":
			if j := find(); j >= 0 {
				cur[key][j] = full
			} else {
				cur[key] = append(cur[key], full)
			}
		case "delete":
			if j := find(); j >= 0 {
				cur[key] = append(append([]bson.D{}, cur[key][:j]...), cur[key][j+1:]...)
			}
		case "drop":
			delete(cur, key)
		case "dropDatabase":
			for k := range cur {
				if strings.HasPrefix(k, db+".") {
					delete(cur, k)
				}
			}
		}
	}
	return cur
}

// sortedForm renders a value with the fields of every document sorted by key
// ("up to field order").
func sortedForm(v interface{}) string {
	switch x := v.(type) {
	case bson.D:
		parts := make([]string, 0, len(x))
		for _, e := range x {
			parts = append(parts, hx(e.Key)+":"+sortedForm(e.Value))
		}
		sort.Strings(parts)
		return "{" + strings.Join(parts, ",") + "}"
	case bson.A:
		parts := make([]string, 0, len(x))
		for _, e := range x {
			parts = append(parts, sortedForm(e))
		}
		return "[" + strings.Join(parts, ",") + "]"
	}
	return enc(v)
}

func diffContents(a, b map[string][]bson.D) string {
	keys := map[string]bool{}
	for k := range a {
		keys[k] = true
	}
	for k := range b {
		keys[k] = true
	}
	for k := range keys {
		// an existing but empty collection is indistinguishable from an absent one for replay
		la, lb := a[k], b[k]
		if len(la) != len(lb) {
			return fmt.Sprintf("%s: %d vs %d documents", k, len(la), len(lb))
		}
		for i := range la {
			ba, _ := bson.Marshal(la[i])
			bb, _ := bson.Marshal(lb[i])
			if string(ba) != string(bb) {
				return fmt.Sprintf("%s: document %d differs", k, i)
			}
		}
	}
	return ""
}

// ---- C07: independent key extractor ----

// keysAt returns the index key values of a document for one field path, by an
// extractor written independently of bsonkit.All: walk the path; arrays fan
// out (elements that are documents are traversed, numeric segments index);
// a resulting array contributes its elements (or itself when empty).
func keysAt(v interface{}, path []string) []interface{} {
	vals := walk(v, path)
	if len(vals) == 0 {
		return []interface{}{bsonkit.Missing}
	}
	return vals
}

func walk(v interface{}, path []string) []interface{} {
	if len(path) == 0 {
		return []interface{}{v}
	}
	switch x := v.(type) {
	case bson.D:
		for _, e := range x {
			if e.Key == path[0] {
				return walk(e.Value, path[1:])
			}
		}
		return nil
	case bson.A:
		if idx, err := strconv.Atoi(path[0]); err == nil && idx >= 0 && len(path[0]) > 0 && path[0][0] >= '0' && path[0][0] <= '9' {
			if idx < len(x) {
				return walk(x[idx], path[1:])
			}
		}
		var out []interface{}
		for _, it := range x {
			out = append(out, walk(it, path)...)
		}
		return out
	}
	return nil
}

func checkUniqueness(cat *lungo.Catalog, hist string, at int, add func(sig, what, hist string, at int, detail interface{}), st *oracleStats) {
	for h, c := range cat.Namespaces {
		if h == lungo.Oplog {
			continue
		}
		if _, ok := c.Indexes["_id_"]; !ok {
			add("C07:id-index-missing", "collection "+h.String()+" has no _id_ index", hist, at, nil)
		}
		for name, ix := range c.Indexes {
			cf := ix.Config()
			if !cf.Unique {
				continue
			}
			st.Dist["unique-index-checks"]++
			// only single-level semantics are re-implemented for the partial gate: use Match (the gate is not what is being checked here)
			var docs []bsonkit.Doc
			for _, d := range c.Documents.List {
				if cf.Partial != nil {
					ok, err := mongokit.Match(d, cf.Partial)
					if err != nil || !ok {
						continue
					}
				}
				docs = append(docs, d)
			}
			if d1, d2, found := duplicatePair(cf, docs); found {
				add("C07:duplicate-key:"+name, fmt.Sprintf("two documents of %s share a key of unique index %s", h.String(), name), hist, at, []string{enc(*d1), enc(*d2)})
				return
			}
		}
	}
}

// duplicatePair searches the documents (already restricted to the ones the
// partial filter covers) for two that share a key tuple of the index.
func duplicatePair(cf mongokit.IndexConfig, docs []bsonkit.Doc) (bsonkit.Doc, bsonkit.Doc, bool) {
	tuplesOf := func(d bsonkit.Doc) [][]interface{} {
		ts := [][]interface{}{{}}
		for _, col := range *cf.Key {
			vals := keysAt(*d, strings.Split(col.Key, "."))
			// flatten one array level, empty array indexes as itself
			var flat []interface{}
			for _, v := range vals {
				if a, ok := v.(bson.A); ok {
					if len(a) == 0 && len(vals) == 1 {
						flat = append(flat, a)
					} else {
						flat = append(flat, a...)
					}
				} else {
					flat = append(flat, v)
				}
			}
			if len(flat) == 0 {
				flat = []interface{}{bsonkit.Missing}
			}
			var next [][]interface{}
			for _, t := range ts {
				for _, v := range flat {
					next = append(next, append(append([]interface{}{}, t...), v))
				}
			}
			ts = next
		}
		return ts
	}
	for i := 0; i < len(docs); i++ {
		for j := i + 1; j < len(docs); j++ {
			for _, t1 := range tuplesOf(docs[i]) {
				for _, t2 := range tuplesOf(docs[j]) {
					eq := true
					for k := range t1 {
						if bsonkit.Compare(t1[k], t2[k]) != 0 {
							eq = false
							break
						}
					}
					if eq {
						return docs[i], docs[j], true
					}
				}
			}
		}
	}
	return nil, nil, false
}

// checkUpdateRejection: exactness of uniqueness rejections for plain updates
// (no session, no upsert). When the call reported a duplicate key, the final
// state it would have produced is recomputed independently (Match + Apply on
// private copies); if no unique index has a duplicate in that state, the
// rejection was spurious: a write that creates no duplicate pair must not be
// rejected for uniqueness, whatever the order in which documents are processed.
func checkUpdateRejection(before *lungo.Catalog, call *sx, hist string, at int, add func(sig, what, hist string, at int, detail interface{}), st *oracleStats) {
	defer func() { recover() }()
	if len(call.list) < 9 || call.list[1].atom != "0" || call.list[7].atom != "F" || len(call.list[8].list) > 0 {
		return
	}
	h := lungo.Handle{unhx(call.list[2].atom), unhx(call.list[3].atom)}
	c := before.Namespaces[h]
	if c == nil {
		return
	}
	filter, _ := decValue(call.list[5]).(bson.D)
	update, _ := decValue(call.list[6]).(bson.D)
	many := call.list[4].atom == "many"
	var final []bsonkit.Doc
	done := false
	for _, d := range c.Documents.List {
		ok, err := mongokit.Match(d, &filter)
		if err != nil {
			return
		}
		if !ok || (done && !many) {
			final = append(final, d)
			continue
		}
		done = true
		nd := bsonkit.Clone(d)
		if _, err := mongokit.Apply(nd, &filter, bsonkit.Clone(&update), false, nil); err != nil {
			return
		}
		if bsonkit.Compare(bsonkit.Get(nd, "_id"), bsonkit.Get(d, "_id")) != 0 {
			return
		}
		final = append(final, nd)
	}
	st.Dist["update-rejections-rechecked"]++
	for _, ix := range c.Indexes {
		cf := ix.Config()
		if !cf.Unique {
			continue
		}
		var docs []bsonkit.Doc
		for _, d := range final {
			if cf.Partial != nil {
				ok, err := mongokit.Match(d, cf.Partial)
				if err != nil || !ok {
					continue
				}
			}
			docs = append(docs, d)
		}
		if _, _, found := duplicatePair(cf, docs); found {
			return
		}
	}
	add("C07:update-rejected-without-duplicate", "an update was rejected with a duplicate key error although the state it produces has no two documents sharing a key of a unique index", hist, at, nil)
}

// ---- C15: index = rebuild ----

func checkIndexes(cat *lungo.Catalog, hist string, at int, add func(sig, what, hist string, at int, detail interface{}), st *oracleStats) {
	for h, c := range cat.Namespaces {
		if h == lungo.Oplog {
			continue
		}
		for name, ix := range c.Indexes {
			st.Dist["index-checks"]++
			cf := ix.Config()
			fresh, err := mongokit.CreateIndex(cf)
			if err != nil {
				add("C15:config-not-rebuildable", "index "+name+" has a configuration that cannot be rebuilt", hist, at, nil)
				continue
			}
			ok, err := fresh.Build(c.Documents.List)
			if err != nil {
				continue // partial filter errors: the gate is undefined for such a filter
			}
			if !ok {
				add("C15:rebuild-fails-unique", "rebuilding index "+name+" over the current documents fails (uniqueness)", hist, at, nil)
				continue
			}
			// same set of (position, keys) entries
			pos := map[bsonkit.Doc]int{}
			for i, d := range c.Documents.List {
				pos[d] = i
			}
			render := func(x *mongokit.Index) []string {
				var es []string
				for _, e := range x.VerifBase().VerifEntries() {
					kb, _ := bson.Marshal(bson.D{{Key: "k", Value: bson.A(e.Keys)}})
					p, ok := pos[e.Doc]
					if !ok {
						p = -1
					}
					es = append(es, fmt.Sprintf("%d %x", p, kb))
				}
				sort.Strings(es)
				return es
			}
			a, b := render(ix), render(fresh)
			same := len(a) == len(b)
			for i := 0; same && i < len(a); i++ {
				// keys of BSON-equal but differently typed values may differ in bytes only when a multikey collapse kept another representative; compare positions and count
				if strings.SplitN(a[i], " ", 2)[0] != strings.SplitN(b[i], " ", 2)[0] {
					same = false
				}
			}
			if !same {
				add("C15:entries-differ-from-rebuild:"+name, "index "+name+" of "+h.String()+" does not hold the entries a rebuilt index holds", hist, at, map[string]interface{}{"have": a, "rebuilt": b})
			}
			// List(): each covered document once, in key order
			list := ix.List()
			seen := map[bsonkit.Doc]bool{}
			for _, d := range list {
				if seen[d] {
					add("C15:document-listed-twice", "index "+name+" lists a document twice", hist, at, nil)
				}
				seen[d] = true
				if _, ok := pos[d]; !ok {
					add("C15:stale-document-in-index", "index "+name+" lists a document that is not in the collection", hist, at, nil)
				}
			}
			if len(list) != len(fresh.List()) {
				add("C15:list-length-differs", "index "+name+" lists a different number of documents than a rebuilt one", hist, at, nil)
			}
			cols, _ := mongokit.Columns(cf.Key)
			ents := ix.VerifBase().VerifEntries()
			for i := 1; i < len(ents); i++ {
				for k, col := range cols {
					cmp := bsonkit.Compare(ents[i-1].Keys[k], ents[i].Keys[k])
					if col.Reverse {
						cmp = -cmp
					}
					if cmp < 0 {
						break
					}
					if cmp > 0 {
						add("C15:entries-not-in-key-order", "index "+name+" entries are not in key order", hist, at, nil)
						break
					}
				}
			}
		}
	}
}

func replayHistory(prop string) func(f oracleFailure) []oracleFailure {
	return func(f oracleFailure) []oracleFailure {
		if f.Family != "api" || f.Case == "" {
			return nil
		}
		c, err := parseSx(f.Case)
		if err != nil {
			return nil
		}
		var out []oracleFailure
		st := &oracleStats{Dist: map[string]int{}}
		runHistoryOracles(prop, c, f.Case, st, func(sig, what, hist string, at int, detail interface{}) {
			out = append(out, oracleFailure{Property: prop, Signature: sig, What: what, Family: "api", Case: hist, Detail: map[string]interface{}{"call_index": at, "info": detail}})
		})
		if prop == "C02" {
			if _, bf := runBatchOracle(c, f.Case, st); bf != nil {
				out = append(out, *bf)
			}
		}
		return out
	}
}

func init() {
	registerOracle(&oracle{prop: "C02", name: "error-noop", run: oracleHistories("C02"), replay: replayHistory("C02")})
	registerOracle(&oracle{prop: "C03", name: "snapshots-visibility", run: oracleHistories("C03"), replay: replayHistory("C03")})
	registerOracle(&oracle{prop: "C07", name: "pairwise-uniqueness", run: oracleHistories("C07"), replay: replayHistory("C07")})
	registerOracle(&oracle{prop: "C15", name: "index-equals-rebuild", run: oracleHistories("C15"), replay: replayHistory("C15")})
	registerOracle(&oracle{prop: "C08", name: "oplog-replay", run: oracleHistories("C08"), replay: replayHistory("C08")})
}

// ---------------------------------------------------------------------------
// C02, multi-item calls: engine A runs the history as it is, engine B runs the
// same history with every insert-many / bulk-write replaced by single calls
// for exactly the items that succeeded in A.  After every batch the canonical
// dumps (documents, index entries, change events) must be equal.

// firstSeenCanon renames generated ObjectIDs by first appearance in the text.
func firstSeenCanon(s string) string {
	const pre = "(o x"
	seen := map[string]int{}
	var sb strings.Builder
	for {
		i := strings.Index(s, pre)
		if i < 0 {
			sb.WriteString(s)
			break
		}
		sb.WriteString(s[:i+len(pre)])
		rest := s[i+len(pre):]
		j := strings.IndexByte(rest, ')')
		id := rest[:j]
		if strings.HasPrefix(id, "00") || strings.HasPrefix(id, "ff") {
			sb.WriteString(id)
		} else {
			k, ok := seen[id]
			if !ok {
				k = len(seen) + 1
				seen[id] = k
			}
			sb.WriteString(fmt.Sprintf("G%d", k))
		}
		s = rest[j:]
	}
	return sb.String()
}

func rawCanon() *oidCanon { return &oidCanon{base: -1} }

func oracleBatches(r *rng, n int, st *oracleStats) []oracleFailure {
	st.Rule = "histories (full operator grammar) run on two engines: A as generated, B with each insert-many/bulk-write replaced by single calls for exactly the items that succeeded in A; canonical dumps (documents, index entries, change events) compared after every batch; non-trivial = the history contains a batch with at least one failing and one succeeding item"
	var fails []oracleFailure
	for i := 0; i < n; i++ {
		hist := genAPIFull(r)
		st.Evaluations++
		c, _ := parseSx(hist)
		nt, f := runBatchOracle(c, hist, st)
		if nt {
			st.Nontrivial++
		}
		if f != nil && len(fails) < 10 {
			fails = append(fails, *f)
		}
		if len(st.Samples) < 2 {
			st.Samples = append(st.Samples, hist)
		}
	}
	return fails
}

func runBatchOracle(c *sx, hist string, st *oracleStats) (bool, *oracleFailure) {
	mk := func() *apiRun {
		client, engine, _ := lungo.Open(nil, lungo.Options{Store: lungo.NewMemoryStore(), ExpireInterval: time.Hour})
		return &apiRun{client: client, engine: engine, cn: rawCanon(), sessions: map[int64]lungo.ISession{}}
	}
	a, b := mk(), mk()
	defer a.engine.Close()
	defer b.engine.Close()
	nontrivial := false
	for i, call := range c.list[2:] {
		op := call.list[0].atom
		replyA, _ := a.call(call)
		if op != "insertMany" && op != "bulk" {
			b.call(call)
			continue
		}
		sid := call.list[1].atom
		tgt := call.list[2].atom + " " + call.list[3].atom
		var singles []string
		ok, failed := 0, 0
		if op == "insertMany" {
			docs := call.list[5:]
			ordered := call.list[4].atom == "T"
			// parse "(many (ids...) STATUS)"
			rp, err := parseSx(replyA)
			if err != nil || !rp.isL {
				// the whole call failed before the transaction method ran
				continue
			}
			ids := rp.list[1].list
			if ordered {
				for k := 0; k < len(ids) && k < len(docs); k++ {
					singles = append(singles, "(insertOne "+sid+" "+tgt+" "+sxText(docs[k])+")")
				}
				ok, failed = len(ids), len(docs)-len(ids)
			} else {
				// match by explicit _id; skip batches with generated ids
				used := make([]bool, len(ids))
				skip := false
				seenIDs := map[string]bool{}
				for _, d := range docs {
					dd := decDoc(d)
					id := bsonkit.Get(dd, "_id")
					if id == bsonkit.Missing || seenIDs[enc(id)] {
						// generated ids, or two items with the same explicit id (the reported
						// id cannot be attributed to one of them): excluded
						skip = true
						break
					}
					seenIDs[enc(id)] = true
					hit := false
					for k, x := range ids {
						if !used[k] && sxText(x) == enc(id) {
							used[k] = true
							hit = true
							break
						}
					}
					if hit {
						singles = append(singles, "(insertOne "+sid+" "+tgt+" "+sxText(d)+")")
						ok++
					} else {
						failed++
					}
				}
				if skip {
					st.Dist["excluded:unordered-generated-or-repeated-ids"]++
					b.call(call)
					continue
				}
			}
		} else {
			rp, err := parseSx(replyA)
			if err != nil || !rp.isL {
				continue
			}
			ordered := call.list[4].atom == "T"
			bad := map[int]bool{}
			first := -1
			for _, e := range rp.list[7].list {
				k, _ := strconv.Atoi(e.list[0].atom)
				bad[k] = true
				if first < 0 || k < first {
					first = k
				}
			}
			for k, m := range call.list[5].list {
				if bad[k] {
					failed++
					continue
				}
				if ordered && first >= 0 && k > first {
					continue
				}
				ok++
				switch m.list[0].atom {
				case "ins":
					singles = append(singles, "(insertOne "+sid+" "+tgt+" "+sxText(m.list[1])+")")
				case "rep":
					singles = append(singles, "(replace "+sid+" "+tgt+" "+sxText(m.list[1])+" "+sxText(m.list[2])+" "+m.list[3].atom+")")
				case "upd":
					singles = append(singles, "(update "+sid+" "+tgt+" "+m.list[1].atom+" "+sxText(m.list[2])+" "+sxText(m.list[3])+" "+m.list[4].atom+" "+sxText(m.list[5])+")")
				case "del":
					singles = append(singles, "(delete "+sid+" "+tgt+" "+m.list[1].atom+" "+sxText(m.list[2])+")")
				}
			}
		}
		for _, s := range singles {
			sc, _ := parseSx(s)
			if rep, _ := b.call(sc); isErrReply(rep) {
				return nontrivial, &oracleFailure{Property: "C02", Signature: "C02:batch-item-fails-alone:" + op, What: "an item that succeeded inside the batch fails when issued alone on the same state", Family: "api", Case: hist, Detail: map[string]interface{}{"call_index": i, "single": s}}
			}
		}
		st.Dist["batches"]++
		if ok > 0 && failed > 0 {
			nontrivial = true
			st.Dist["batches-with-failing-and-succeeding-items"]++
		}
		da := firstSeenCanon(dumpCatalog(a.cn, a.engine.Catalog()) + a.txnDumps())
		db := firstSeenCanon(dumpCatalog(b.cn, b.engine.Catalog()) + b.txnDumps())
		if da != db {
			return nontrivial, &oracleFailure{Property: "C02", Signature: "C02:batch-differs-from-surviving-singles:" + op, What: "after a multi-item call the database differs from applying exactly the items that succeeded, one by one", Family: "api", Case: hist, Detail: map[string]interface{}{"call_index": i, "reply": replyA}}
		}
	}
	return nontrivial, nil
}

func (a *apiRun) txnDumps() string {
	var ids []int64
	for id := range a.sessions {
		ids = append(ids, id)
	}
	sort.Slice(ids, func(i, j int) bool { return ids[i] < ids[j] })
	var sb strings.Builder
	for _, id := range ids {
		if txn := a.sessions[id].(*lungo.Session).Transaction(); txn != nil {
			sb.WriteString(" TXN" + strconv.FormatInt(id, 10) + " " + dumpCatalog(a.cn, txn.Catalog()))
		}
	}
	return sb.String()
}

func init() {
	registerOracle(&oracle{prop: "C02", name: "batch-equals-surviving-singles", run: oracleBatches})
}
