package main

// fam_stream.go — family `stream` and the C09 oracles (change streams).
//
// A case is a script run against a fresh REAL engine (memory store):
//
//   (stream (ret MIN MAX ALWAYS) step ...)
//     (commit OP (ev xDB xCOLL optype) ...)   one driver call / transaction = one Engine.Commit; the (ev ...) items are
//                                             the change-log events that commit appended (recorded when the case is generated,
//                                             checked again on every re-run): they are the model's input, C08 is about them
//     (tick)                                  wait for the next wall-clock second (ages of Transaction.Clean have second precision)
//     (trim K)                                Begin; Transaction.Clean removing exactly K events; Commit
//     (watch SCOPE OPT ...)                   SCOPE = (client) | (db xDB) | (coll xDB xCOLL);
//                                             OPT = (resume TOK) | (after TOK) | (at R); TOK = (tok S) | (id R)
//     (trynext S) (trynextc S) (close S)      TryNext / TryNext with a cancelled context / Close on the S-th watched stream
//
// Events are named by their rank: the i-th event ever committed in the case
// (the harness maps every `_id.ts` it has seen in local.oplog to that index).
// Observable: one token per step — L<oplog length>, ".", W | ERR, and for
// trynext the delivered rank | INVALIDATE | LOST | NOTHING | CLOSED | ERR.

import (
	"context"
	"errors"
	"fmt"
	"sort"
	"strconv"
	"strings"
	"sync"
	"time"

	"github.com/256dpi/lungo"
	"github.com/256dpi/lungo/bsonkit"
	"go.mongodb.org/mongo-driver/bson"
	"go.mongodb.org/mongo-driver/bson/primitive"
	"go.mongodb.org/mongo-driver/mongo"
	"go.mongodb.org/mongo-driver/mongo/options"
)

const sBig = 1 << 30

type histEv struct {
	ts           primitive.Timestamp
	db, coll, op string
}

type sStep struct {
	kind  string     // commit tick trim watch trynext trynextc close
	op    *sx        // commit: the operation descriptor
	evs   []histEv   // commit: recorded events (ts unused)
	k     int        // trim
	scope []string   // watch: client | db D | coll D C
	opts  [][]string // watch: {resume|after, tok|id, N} or {at, N}
	s     int        // stream index
	// watch without options directly before a (commit (txnw ...)): the stream is
	// opened INSIDE that transaction, after its first write has been applied and
	// before it commits (by a client without the session context). For the
	// model this is the same script: Watch sees the committed catalog, so the
	// stream starts before the transaction's events.
	deferred bool
}

type sScript struct {
	min, max, always int
	steps            []*sStep
}

// ---- text <-> script ----

func (st *sStep) text() string {
	switch st.kind {
	case "commit":
		var b strings.Builder
		b.WriteString("(commit " + sxText(st.op))
		for _, e := range st.evs {
			b.WriteString(" (ev " + hx(e.db) + " " + hx(e.coll) + " " + e.op + ")")
		}
		b.WriteString(")")
		return b.String()
	case "tick":
		return "(tick)"
	case "trim":
		return fmt.Sprintf("(trim %d)", st.k)
	case "watch":
		var b strings.Builder
		b.WriteString("(watch (" + st.scope[0])
		for _, a := range st.scope[1:] {
			b.WriteString(" " + hx(a))
		}
		b.WriteString(")")
		for _, o := range st.opts {
			if o[0] == "at" {
				b.WriteString(" (at " + o[1] + ")")
			} else {
				b.WriteString(" (" + o[0] + " (" + o[1] + " " + o[2] + "))")
			}
		}
		b.WriteString(")")
		return b.String()
	default:
		return fmt.Sprintf("(%s %d)", st.kind, st.s)
	}
}

func (sc *sScript) text() string {
	var b strings.Builder
	fmt.Fprintf(&b, "(stream (ret %d %d %d)", sc.min, sc.max, sc.always)
	for _, st := range sc.steps {
		b.WriteString(" " + st.text())
	}
	b.WriteString(")")
	return b.String()
}

func sxText(n *sx) string {
	if !n.isL {
		return n.atom
	}
	parts := make([]string, len(n.list))
	for i, c := range n.list {
		parts[i] = sxText(c)
	}
	return "(" + strings.Join(parts, " ") + ")"
}

func parseStreamScript(c *sx) (*sScript, error) {
	bad := fmt.Errorf("bad stream case")
	if !c.isL || len(c.list) < 2 || c.list[0].atom != "stream" || !c.list[1].isL || len(c.list[1].list) != 4 {
		return nil, bad
	}
	sc := &sScript{min: int(atoi64(c.list[1].list[1].atom)), max: int(atoi64(c.list[1].list[2].atom)), always: int(atoi64(c.list[1].list[3].atom))}
	for _, n := range c.list[2:] {
		if !n.isL || len(n.list) == 0 {
			return nil, bad
		}
		st := &sStep{kind: n.list[0].atom}
		switch st.kind {
		case "commit":
			if len(n.list) < 2 {
				return nil, bad
			}
			st.op = n.list[1]
			for _, e := range n.list[2:] {
				if !e.isL || len(e.list) != 4 {
					return nil, bad
				}
				st.evs = append(st.evs, histEv{db: unhx(e.list[1].atom), coll: unhx(e.list[2].atom), op: e.list[3].atom})
			}
		case "tick":
		case "trim":
			st.k = int(atoi64(n.list[1].atom))
		case "watch":
			sn := n.list[1]
			st.scope = []string{sn.list[0].atom}
			for _, a := range sn.list[1:] {
				st.scope = append(st.scope, unhx(a.atom))
			}
			for _, o := range n.list[2:] {
				if o.list[0].atom == "at" {
					st.opts = append(st.opts, []string{"at", o.list[1].atom})
				} else {
					st.opts = append(st.opts, []string{o.list[0].atom, o.list[1].list[0].atom, o.list[1].list[1].atom})
				}
			}
		case "trynext", "trynextc", "close":
			st.s = int(atoi64(n.list[1].atom))
		default:
			return nil, bad
		}
		sc.steps = append(sc.steps, st)
	}
	for i, st := range sc.steps {
		if st.kind == "watch" && len(st.opts) == 0 && i+1 < len(sc.steps) && sc.steps[i+1].kind == "commit" &&
			sc.steps[i+1].op.isL && len(sc.steps[i+1].op.list) > 0 && sc.steps[i+1].op.list[0].atom == "txnw" {
			st.deferred = true
		}
	}
	return sc, nil
}

// ---- running a script on the real engine ----

// what one step showed, for the oracle (black-box facts only)
type sObs struct {
	kind    string
	stream  int
	res     string // watch: W|ERR; trynext: EV|INVALIDATE|LOST|NOTHING|CLOSED|ERR|NOSTREAM|UNKNOWN-EVENT
	rank    int    // EV
	content histEv // EV: ns / operationType as decoded from the stream
	histLen int    // events committed so far (after the step)
	ntrim   int    // of which discarded by retention (after the step)
}

type sRun struct {
	client   lungo.IClient
	engine   *lungo.Engine
	hist     []histEv
	rank     map[primitive.Timestamp]int
	ntrim    int
	olen     int
	streams  []lungo.IChangeStream
	seq      int64
	tickMode bool
	epochT   int64
	epochBad bool
	hung     bool // a call did not return: Engine.Close would block on the stream's mutex
	trace    []sObs
	pending    *sStep // deferred watch, opened inside the next txnw transaction
	pendingIdx int
	pendingErr bool
}

func newSRun(min, max, always int) *sRun {
	maxAge := time.Hour
	if always != 0 {
		maxAge = 1
	}
	client, engine, err := lungo.Open(nil, lungo.Options{
		Store:        lungo.NewMemoryStore(),
		MinOplogSize: min, MaxOplogSize: max,
		MinOplogAge: 1, MaxOplogAge: maxAge, // 1ns: CreateEngine replaces 0 by 5m / 1h
	})
	if err != nil {
		panic(err)
	}
	r := &sRun{client: client, engine: engine, rank: map[primitive.Timestamp]int{}, tickMode: min < sBig}
	if r.tickMode {
		// do not start a retention case just before a second boundary
		if time.Now().Nanosecond() > 850e6 {
			r.tick()
		}
		r.epochT = time.Now().Unix()
	}
	return r
}

func (r *sRun) close() {
	for _, s := range r.streams {
		if s != nil {
			_ = s.Close(context.Background())
		}
	}
	if !r.hung {
		r.engine.Close()
	}
}

func (r *sRun) tick() {
	next := time.Now().Truncate(time.Second).Add(time.Second)
	time.Sleep(time.Until(next) + 12*time.Millisecond)
	r.epochT = time.Now().Unix()
}

func dlookup(d bson.D, path ...string) interface{} {
	var cur interface{} = d
	for _, p := range path {
		dd, ok := cur.(bson.D)
		if !ok {
			return nil
		}
		cur = nil
		for _, e := range dd {
			if e.Key == p {
				cur = e.Value
				break
			}
		}
	}
	return cur
}

func evOfDoc(d bson.D) histEv {
	var e histEv
	e.ts, _ = dlookup(d, "_id", "ts").(primitive.Timestamp)
	e.db, _ = dlookup(d, "ns", "db").(string)
	e.coll, _ = dlookup(d, "ns", "coll").(string)
	e.op, _ = dlookup(d, "operationType").(string)
	return e
}

// realOplog reads local.oplog of the engine's current catalog.
func realOplog(e *lungo.Engine) []histEv {
	list := e.Catalog().Namespaces[lungo.Oplog].Documents.List
	out := make([]histEv, 0, len(list))
	for _, d := range list {
		out = append(out, evOfDoc(*d))
	}
	return out
}

// refresh maps newly committed events to ranks and returns them.
func (r *sRun) refresh() []histEv {
	ol := realOplog(r.engine)
	var fresh []histEv
	for _, e := range ol {
		if _, ok := r.rank[e.ts]; !ok {
			r.rank[e.ts] = len(r.hist)
			r.hist = append(r.hist, e)
			fresh = append(fresh, e)
		}
	}
	r.olen = len(ol)
	if len(ol) == 0 {
		r.ntrim = len(r.hist)
	} else {
		r.ntrim = r.rank[ol[0].ts]
	}
	return fresh
}

// openPending opens the deferred stream (default start position) from a
// client without session context.
func (r *sRun) openPending() {
	st := r.pending
	r.pending = nil
	var s lungo.IChangeStream
	var err error
	ctx := context.Background()
	switch st.scope[0] {
	case "client":
		s, err = r.client.Watch(ctx, bson.A{})
	case "db":
		s, err = r.client.Database(st.scope[1]).Watch(ctx, bson.A{})
	default:
		s, err = r.client.Database(st.scope[1]).Collection(st.scope[2]).Watch(ctx, bson.A{})
	}
	if err != nil {
		r.pendingErr = true
		return
	}
	r.streams[r.pendingIdx] = s
}

func (r *sRun) doOp(ctx context.Context, op *sx) {
	name := op.list[0].atom
	if name == "txn" || name == "txnw" {
		_ = r.client.UseSession(ctx, func(sc lungo.ISessionContext) error {
			_, err := sc.WithTransaction(sc, func(sc2 lungo.ISessionContext) (interface{}, error) {
				for i, sub := range op.list[1:] {
					r.doOp(sc2, sub)
					if i == 0 && name == "txnw" && r.pending != nil {
						r.openPending()
					}
				}
				return nil, nil
			})
			return err
		})
		if r.pending != nil { // the transaction had no statement
			r.openPending()
		}
		return
	}
	db := r.client.Database(unhx(op.list[1].atom))
	if name == "dropdb" {
		_ = db.Drop(ctx)
		return
	}
	coll := db.Collection(unhx(op.list[2].atom))
	switch name {
	case "ins":
		n := int(atoi64(op.list[3].atom))
		docs := make([]interface{}, n)
		for i := range docs {
			r.seq++
			docs[i] = bson.D{{Key: "_id", Value: r.seq}, {Key: "v", Value: int64(0)}}
		}
		_, _ = coll.InsertMany(ctx, docs)
	case "upd":
		_, _ = coll.UpdateMany(ctx, bson.D{}, bson.D{{Key: "$inc", Value: bson.D{{Key: "v", Value: int64(1)}}}})
	case "rep":
		r.seq++
		_, _ = coll.ReplaceOne(ctx, bson.D{}, bson.D{{Key: "v", Value: r.seq}})
	case "del":
		_, _ = coll.DeleteOne(ctx, bson.D{})
	case "delm":
		_, _ = coll.DeleteMany(ctx, bson.D{})
	case "dropc":
		_ = coll.Drop(ctx)
	}
}

// explicit retention: the real Transaction.Clean through a real Commit
// (minAge = 0 disables the age protection, maxAge = 0 makes every event
// "older than maxAge": exactly len-minSize events are removed)
func (r *sRun) trim(k int) {
	txn, err := r.engine.Begin(context.Background(), true)
	if err != nil {
		panic(err)
	}
	n := len(txn.Catalog().Namespaces[lungo.Oplog].Documents.List)
	if k > n {
		k = n
	}
	txn.Clean(n-k, n-k, 0, 0)
	if err := r.engine.Commit(txn); err != nil {
		panic(err)
	}
}

func (r *sRun) tsOfRank(n int64) primitive.Timestamp {
	if n >= 0 && n < int64(len(r.hist)) {
		return r.hist[n].ts
	}
	return bsonkit.Now() // later than every event so far
}

func sameEvents(a, b []histEv) bool {
	if len(a) != len(b) {
		return false
	}
	for i := range a {
		if a[i].db != b[i].db || a[i].coll != b[i].coll || a[i].op != b[i].op {
			return false
		}
	}
	return true
}

func sameEventsUnordered(a, b []histEv) bool {
	key := func(l []histEv) []string {
		out := make([]string, len(l))
		for i, e := range l {
			out[i] = e.db + "\x00" + e.coll + "\x00" + e.op
		}
		sort.Strings(out)
		return out
	}
	ka, kb := key(a), key(b)
	if len(ka) != len(kb) {
		return false
	}
	for i := range ka {
		if ka[i] != kb[i] {
			return false
		}
	}
	return true
}

const (
	sOK       = iota
	sPermuted // the commit appended the recorded events in another order (map iteration in Drop): run again
	sDiffer   // the commit appended other events than recorded
)

// observe classifies what the caller of TryNext can see.
func (r *sRun) observe(s lungo.IChangeStream, ok bool) sObs {
	o := sObs{kind: "trynext"}
	if ok {
		var d bson.D
		if err := s.Decode(&d); err != nil {
			o.res = "ERR"
			return o
		}
		ev := evOfDoc(d)
		if ev.op == "invalidate" {
			o.res = "INVALIDATE"
			return o
		}
		rk, found := r.rank[ev.ts]
		if !found {
			o.res = "UNKNOWN-EVENT"
			return o
		}
		o.res, o.rank, o.content = "EV", rk, ev
		return o
	}
	err := s.Err()
	switch {
	case errors.Is(err, lungo.ErrLostOplogPosition):
		o.res = "LOST"
	case err != nil:
		o.res = "ERR"
	default:
		var d bson.D
		if derr := s.Decode(&d); derr == mongo.ErrNilCursor {
			o.res = "CLOSED"
		} else {
			o.res = "NOTHING"
		}
	}
	return o
}

// step executes one step; in record mode the events of a commit are stored
// into the step, otherwise they are compared with the recorded ones.
func (r *sRun) step(st *sStep, record bool) (string, int) {
	ctx := context.Background()
	status := sOK
	var out string
	o := sObs{kind: st.kind, stream: st.s}
	switch st.kind {
	case "commit":
		r.doOp(ctx, st.op)
		fresh := r.refresh()
		if record {
			st.evs = fresh
		} else if !sameEvents(fresh, st.evs) {
			if sameEventsUnordered(fresh, st.evs) {
				status = sPermuted
			} else {
				status = sDiffer
			}
		}
		if r.tickMode && time.Now().Unix() != r.epochT {
			r.epochBad = true
		}
		out = "L" + strconv.Itoa(r.olen)
		if r.pendingErr {
			out = "ERR-DEFERRED-WATCH"
		}
	case "tick":
		r.tick()
		out = "."
	case "trim":
		r.trim(st.k)
		r.refresh()
		out = "L" + strconv.Itoa(r.olen)
	case "watch":
		if st.deferred {
			o.stream = len(r.streams)
			r.streams = append(r.streams, nil)
			r.pending, r.pendingIdx = st, o.stream
			out = "W"
			o.res = out
			break
		}
		opt := options.ChangeStream()
		for _, op := range st.opts {
			if op[0] == "at" {
				ts := r.tsOfRank(atoi64(op[1]))
				opt.SetStartAtOperationTime(&ts)
				continue
			}
			var tok interface{}
			if op[1] == "tok" {
				i := int(atoi64(op[2]))
				if i >= 0 && i < len(r.streams) && r.streams[i] != nil {
					if raw := r.streams[i].ResumeToken(); raw != nil {
						tok = raw
					}
				}
			} else {
				tok = bson.D{{Key: "ts", Value: r.tsOfRank(atoi64(op[2]))}}
			}
			if tok == nil {
				continue
			}
			if op[0] == "resume" {
				opt.SetResumeAfter(tok)
			} else {
				opt.SetStartAfter(tok)
			}
		}
		var s lungo.IChangeStream
		var err error
		switch st.scope[0] {
		case "client":
			s, err = r.client.Watch(ctx, bson.A{}, opt)
		case "db":
			s, err = r.client.Database(st.scope[1]).Watch(ctx, bson.A{}, opt)
		default:
			s, err = r.client.Database(st.scope[1]).Collection(st.scope[2]).Watch(ctx, bson.A{}, opt)
		}
		o.stream = len(r.streams)
		if err != nil {
			r.streams = append(r.streams, nil)
			out = "ERR"
		} else {
			r.streams = append(r.streams, s)
			out = "W"
		}
		o.res = out
	case "trynext", "trynextc":
		if st.s < 0 || st.s >= len(r.streams) || r.streams[st.s] == nil {
			out = "NOSTREAM"
			o.res = out
			break
		}
		s := r.streams[st.s]
		c := ctx
		if st.kind == "trynextc" {
			cc, cancel := context.WithCancel(ctx)
			cancel()
			c = cc
		}
		// a TryNext that never returns must not hang the check
		okc := make(chan bool, 1)
		go func() { okc <- s.TryNext(c) }()
		select {
		case ok := <-okc:
			o = r.observe(s, ok)
		case <-time.After(5 * time.Second):
			o = sObs{res: "HANG"}
			r.streams[st.s] = nil // its mutex is held forever: never touch it again
			r.hung = true
		}
		o.kind, o.stream = st.kind, st.s
		if o.res == "EV" {
			out = strconv.Itoa(o.rank)
		} else {
			out = o.res
		}
	case "close":
		if st.s >= 0 && st.s < len(r.streams) && r.streams[st.s] != nil {
			_ = r.streams[st.s].Close(ctx)
		}
		out = "-"
	}
	o.histLen, o.ntrim = len(r.hist), r.ntrim
	r.trace = append(r.trace, o)
	return out, status
}

// runStreamScript executes a parsed case; retries when a second boundary fell
// into an epoch or when Drop's map iteration produced the recorded events in
// another order.
func runStreamScript(sc *sScript) (string, []sObs) {
	for attempt := 0; ; attempt++ {
		r := newSRun(sc.min, sc.max, sc.always)
		outs := make([]string, 0, len(sc.steps))
		status := sOK
		for i, st := range sc.steps {
			o, s := r.step(st, false)
			outs = append(outs, o)
			if s != sOK {
				status = s
				if s == sDiffer {
					outs = append(outs, fmt.Sprintf("EVENTS-DIFFER@%d", i))
				}
				break
			}
		}
		trace := r.trace
		bad := r.epochBad
		r.close()
		if status == sDiffer {
			return strings.Join(outs, " "), trace
		}
		if (status == sPermuted || bad) && attempt < 40 {
			continue
		}
		if status == sPermuted {
			return "EVENTS-PERMUTED", trace
		}
		return strings.Join(outs, " "), trace
	}
}

// ---- generator (online: the script is executed while it is drawn, so that
// the choices can refer to the state: existing streams, retained ranks) ----

var sDBs = []string{"d", "e"}
var sColls = []string{"c", "k"}

func genOp(r *rng, allowTxn bool) *sx {
	at := func(s string) *sx { return &sx{atom: s} }
	l := func(xs ...*sx) *sx { return &sx{isL: true, list: xs} }
	db, coll := hx(pick(r, sDBs)), hx(pick(r, sColls))
	if r.chance(2, 3) { // concentrate on one namespace so that scopes both match and miss
		db, coll = hx("d"), hx("c")
	}
	switch x := r.intn(100); {
	case x < 42:
		return l(at("ins"), at(db), at(coll), at(strconv.Itoa(1+r.intn(3))))
	case x < 52:
		return l(at("upd"), at(db), at(coll))
	case x < 60:
		return l(at("rep"), at(db), at(coll))
	case x < 68:
		return l(at("del"), at(db), at(coll))
	case x < 72:
		return l(at("delm"), at(db), at(coll))
	case x < 82:
		return l(at("dropc"), at(db), at(coll))
	case x < 90:
		return l(at("dropdb"), at(db))
	default:
		if !allowTxn {
			return l(at("ins"), at(db), at(coll), at("1"))
		}
		xs := []*sx{at("txn")}
		for i, n := 0, 2+r.intn(2); i < n; i++ {
			xs = append(xs, genOp(r, false))
		}
		return l(xs...)
	}
}

func genScope(r *rng) []string {
	switch x := r.intn(10); {
	case x < 2:
		return []string{"client"}
	case x < 5:
		return []string{"db", pick(r, sDBs)}
	case x < 8:
		return []string{"coll", "d", "c"}
	default:
		return []string{"coll", pick(r, sDBs), pick(r, sColls)}
	}
}

func genStreamCase(r *rng, tick bool) (string, string) {
	sc := &sScript{min: sBig, max: sBig}
	if tick {
		sc.min, sc.max, sc.always = 1+r.intn(3), 1+r.intn(4), r.intn(2)
	}
	for attempt := 0; ; attempt++ {
		run := newSRun(sc.min, sc.max, sc.always)
		sc.steps = nil
		var outs []string
		n := 5 + r.intn(22)
		ticks := 0
		add := func(st *sStep) {
			o, _ := run.step(st, true)
			sc.steps = append(sc.steps, st)
			outs = append(outs, o)
		}
		rankNear := func() string { // a rank: mostly retained, sometimes discarded or not yet existing
			h := len(run.hist)
			switch x := r.intn(10); {
			case x < 6 && run.olen > 0:
				return strconv.Itoa(run.ntrim + r.intn(run.olen))
			case x < 8:
				return strconv.Itoa(r.intn(h + 1))
			default:
				return strconv.Itoa(h + r.intn(2))
			}
		}
		pickStream := func() int { // mostly a stream whose Watch succeeded
			var open []int
			for i, s := range run.streams {
				if s != nil {
					open = append(open, i)
				}
			}
			if len(open) > 0 && r.chance(19, 20) {
				return pick(r, open)
			}
			return r.intn(len(run.streams))
		}
		for i := 0; i < n; i++ {
			ns := len(run.streams)
			x := r.intn(100)
			switch {
			case ns == 0 && x < 40 || x < 14:
				st := &sStep{kind: "watch", scope: genScope(r)}
				tokRef := func() []string {
					if ns > 0 && r.chance(1, 2) {
						return []string{"tok", strconv.Itoa(r.intn(ns))}
					}
					return []string{"id", rankNear()}
				}
				y := r.intn(20)
				if len(run.hist) == 0 && r.chance(4, 5) {
					y = 0 // nothing to resume from yet
				}
				switch {
				case y < 8: // now
				case y < 11:
					st.opts = [][]string{append([]string{"resume"}, tokRef()...)}
				case y < 13:
					st.opts = [][]string{append([]string{"after"}, tokRef()...)}
				case y < 18:
					st.opts = [][]string{{"at", rankNear()}}
				case y < 19:
					st.opts = [][]string{append([]string{"resume"}, tokRef()...), {"at", rankNear()}}
				default:
					st.opts = [][]string{append([]string{"resume"}, tokRef()...), append([]string{"after"}, tokRef()...)}
				}
				add(st)
			case x < 50:
				if r.chance(1, 6) {
					// a stream opened (default position) while a session transaction with
					// applied, uncommitted writes is open: it must deliver them after the commit
					scope := genScope(r)
					if scope[0] != "client" && r.chance(2, 3) {
						scope = []string{"coll", "d", "c"}
					}
					xs := []*sx{{atom: "txnw"}}
					for j, m := 0, 1+r.intn(3); j < m; j++ {
						sub := genOp(r, false)
						for sub.list[0].atom == "dropc" || sub.list[0].atom == "dropdb" {
							sub = genOp(r, false)
						}
						xs = append(xs, sub)
					}
					add(&sStep{kind: "watch", scope: scope, deferred: true})
					add(&sStep{kind: "commit", op: &sx{isL: true, list: xs}})
					break
				}
				add(&sStep{kind: "commit", op: genOp(r, true)})
			case x < 60 && !tick:
				k := r.intn(3)
				if r.chance(1, 3) {
					k = run.olen - r.intn(2)
					if k < 0 {
						k = 0
					}
				}
				add(&sStep{kind: "trim", k: k})
			case x < 60 && tick && ticks < 2:
				ticks++
				add(&sStep{kind: "tick"})
			case x < 93 && ns > 0:
				add(&sStep{kind: "trynext", s: pickStream()})
			case x < 95 && ns > 0:
				add(&sStep{kind: "trynextc", s: pickStream()})
			case x < 98 && ns > 0:
				add(&sStep{kind: "close", s: pickStream()})
			default:
				add(&sStep{kind: "commit", op: genOp(r, true)})
			}
		}
		// drain every stream at the end: a TryNext per stream until it stops delivering
		for s := range run.streams {
			if run.streams[s] == nil {
				continue
			}
			for j := 0; j < 3; j++ {
				add(&sStep{kind: "trynext", s: s})
			}
		}
		bad := run.epochBad
		run.close()
		if bad && attempt < 5 {
			continue
		}
		return sc.text(), strings.Join(outs, " ")
	}
}

// ---- family registration: cases are generated (and thereby executed) in
// parallel batches; `run` returns the observation of that execution, or
// executes the case when it is not from the current batch (corpus, replay) ----

var (
	sCacheMu sync.Mutex
	sCache   = map[string]string{}
	sBatch   [][2]string
)

const sBatchSize = 512
const sTickPerBatch = 10

func nextStreamCase(r *rng) string {
	if len(sBatch) == 0 {
		seeds := make([]uint64, sBatchSize)
		for i := range seeds {
			seeds[i] = r.u64()
		}
		res := make([][2]string, sBatchSize)
		var wg sync.WaitGroup
		sem := make(chan struct{}, 32)
		for i := range seeds {
			wg.Add(1)
			go func(i int) {
				defer wg.Done()
				sem <- struct{}{}
				defer func() { <-sem }()
				rr := newRng(seeds[i])
				t, o := genStreamCase(rr, i < sTickPerBatch)
				res[i] = [2]string{t, o}
			}(i)
		}
		wg.Wait()
		sBatch = res
	}
	c := sBatch[0]
	sBatch = sBatch[1:]
	sCacheMu.Lock()
	sCache[c[0]] = c[1]
	sCacheMu.Unlock()
	return c[0]
}

func init() {
	register(&family{
		name: "stream",
		gen:  nextStreamCase,
		run: func(c *sx) string {
			key := sxText(c)
			sCacheMu.Lock()
			o, ok := sCache[key]
			delete(sCache, key)
			sCacheMu.Unlock()
			if ok {
				return o
			}
			sc, err := parseStreamScript(c)
			if err != nil {
				return "BAD-CASE"
			}
			out, _ := runStreamScript(sc)
			return out
		},
		classify: func(c *sx, obs string) ([]string, bool) {
			labels := []string{}
			seen := map[string]bool{}
			addl := func(l string) {
				if !seen[l] {
					seen[l] = true
					labels = append(labels, l)
				}
			}
			if c.list[1].list[1].atom != strconv.Itoa(sBig) {
				addl("mode:retention-by-options")
			} else {
				addl("mode:explicit-trim")
			}
			for _, n := range c.list[2:] {
				k := n.list[0].atom
				switch k {
				case "watch":
					addl("scope:" + n.list[1].list[0].atom)
					if len(n.list) == 2 {
						addl("start:now")
					}
					for _, o := range n.list[2:] {
						addl("start:" + o.list[0].atom)
					}
				case "commit":
					addl("op:" + n.list[1].list[0].atom)
				default:
					addl("step:" + k)
				}
			}
			nt := false
			for _, t := range strings.Fields(obs) {
				switch {
				case t == "INVALIDATE" || t == "LOST" || t == "CLOSED" || t == "ERR" || t == "NOTHING":
					addl("out:" + t)
				case t[0] >= '0' && t[0] <= '9':
					addl("out:event")
					nt = true
				}
			}
			return labels, nt
		},
	})
	registerReplayer("C09", func(f oracleFailure) (string, bool) {
		if f.Family == "streamsched" && schedReplay != nil {
			return schedReplay(f)
		}
		if f.Case == "" {
			return "free-running concurrent run (" + f.Signature + "): not replayable as a script; re-run bin/check (detail: " + fmt.Sprint(f.Detail) + ")", false
		}
		c, err := parseSx(f.Case)
		if err != nil {
			return "bad case", false
		}
		sc, err := parseStreamScript(c)
		if err != nil {
			return "bad case", false
		}
		out, _ := runStreamScript(sc)
		text := "case:     " + f.Case + "\nobserved: " + out + "\n"
		again := false
		for _, jf := range judgeFresh(sc) {
			text += "FAILS " + jf[0] + " at step " + jf[2] + ": " + jf[1] + "\n"
			if jf[0] == f.Signature {
				again = true
			}
		}
		if !again {
			text += "the recorded failure " + f.Signature + " does not recur\n"
		}
		return text, again
	})
	registerOracle(&oracle{prop: "C09", name: "delivery", run: oracleC09Delivery})
	registerOracle(&oracle{prop: "C09", name: "concurrent", run: oracleC09Concurrent})
}

// ------------------------------------------------------------------------
// Oracle 1 (model-free): sequential scripts; what each stream delivered is
// compared with the scope-filtered suffix of the real local.oplog history.

// set by fam_streamsched.go (build tag verif)
var schedReplay func(f oracleFailure) (string, bool)

const (
	sigSilentSkip   = "C09:silent-skip-unanchored-stream"
	sigSpuriousLost = "C09:spurious-lost-anchor-trimmed"
)

func oScope(scope []string, e histEv) bool {
	switch scope[0] {
	case "client":
		return true
	case "db":
		return e.db == scope[1]
	default:
		return e.db == scope[1] && (e.coll == scope[2] || e.op == "dropDatabase")
	}
}

func oInvalidates(scope []string, e histEv) bool {
	switch scope[0] {
	case "client":
		return false
	case "db":
		return e.op == "dropDatabase"
	default:
		return e.op == "drop" || e.op == "dropDatabase"
	}
}

type oStream struct {
	scope     []string
	open      bool // Watch succeeded
	pos       int  // events hist[0:pos] are behind the stream (delivered, out of scope, or before its start)
	anchored  bool // the stream holds a reference event that is (was) part of the oplog
	expectInv bool
	ended     string // "", INVALIDATE, LOST, CLOSE, ERR
	lastRank  int
	delivered []int
}

// judgeStreamTrace replays the black-box trace of a script and returns the
// failures (signature, what, step).
func judgeStreamTrace(sc *sScript, trace []sObs, hist []histEv) [][3]string {
	var fails [][3]string
	fail := func(sig, what string, step int) { fails = append(fails, [3]string{sig, what, strconv.Itoa(step)}) }
	var streams []*oStream
	histLen, ntrim := 0, 0
	for i, st := range sc.steps {
		if i >= len(trace) {
			break
		}
		ob := trace[i]
		switch st.kind {
		case "watch":
			s := &oStream{scope: st.scope, open: ob.res == "W", lastRank: -1}
			// expected start position, from the option semantics of the property:
			// now = after everything committed so far; a token = after that event;
			// a start time = from the first retained event at or after it
			s.pos, s.anchored = histLen, ntrim < histLen
			resolvable := true
			for _, o := range st.opts {
				if o[0] == "at" {
					continue
				}
				rk := -1
				if o[1] == "tok" {
					j := int(atoi64(o[2]))
					if j < 0 || j >= len(streams) || !streams[j].open {
						continue // no token: option not set
					}
					if streams[j].ended == "INVALIDATE" {
						rk = -2 // the invalidate token names no event
					} else if streams[j].lastRank < 0 {
						continue
					} else {
						rk = streams[j].lastRank
					}
				} else {
					rk = int(atoi64(o[2]))
				}
				if rk < ntrim || rk >= histLen {
					resolvable = false
				} else {
					s.pos, s.anchored = rk+1, true
				}
			}
			for _, o := range st.opts {
				if o[0] != "at" {
					continue
				}
				// a start time: every event at or after it is expected (if
				// retention has already discarded some of them the stream must
				// fail with ErrLostOplogPosition); a time after the newest event
				// is "from now on"
				p := int(atoi64(o[1]))
				if p < histLen {
					s.pos, s.anchored = p, p > ntrim
				} else {
					s.pos, s.anchored = histLen, ntrim < histLen
				}
			}
			if s.open != resolvable {
				if resolvable {
					fail("C09:resume-refused", "Watch failed although the resume token names a retained event", i)
				} else {
					fail("C09:resume-accepted-unknown-token", "Watch succeeded although the resume token names no retained event", i)
				}
			}
			streams = append(streams, s)
		case "trynext", "trynextc":
			if st.s < 0 || st.s >= len(streams) || !streams[st.s].open {
				break
			}
			s := streams[st.s]
			unexamined := func(upto int) (missing []int) {
				for j := s.pos; j < upto; j++ {
					if oScope(s.scope, hist[j]) {
						missing = append(missing, j)
					}
				}
				return
			}
			gap := func(missing []int, what string) {
				discarded := missing[0] < ntrim
				switch {
				case discarded && !s.anchored:
					fail(sigSilentSkip, fmt.Sprintf("stream %d (%v) opened without a reference event skipped events %v that retention had discarded, without ErrLostOplogPosition (%s)", st.s, s.scope, missing, what), i)
				case discarded:
					fail("C09:silent-skip", fmt.Sprintf("stream %d (%v) skipped discarded events %v without ErrLostOplogPosition (%s)", st.s, s.scope, missing, what), i)
				default:
					fail("C09:gap", fmt.Sprintf("stream %d (%v) skipped retained events %v (%s)", st.s, s.scope, missing, what), i)
				}
			}
			if s.ended != "" {
				// a closed / failed stream must not deliver anything
				if ob.res == "EV" || ob.res == "INVALIDATE" {
					fail("C09:delivery-after-end", fmt.Sprintf("stream %d delivered %s after %s", st.s, ob.res, s.ended), i)
				}
				if s.ended == "LOST" && ob.res != "LOST" {
					fail("C09:lost-not-sticky", fmt.Sprintf("stream %d: %s after LOST", st.s, ob.res), i)
				}
				break
			}
			if s.expectInv && ob.res != "INVALIDATE" {
				fail("C09:no-invalidate-after-drop", fmt.Sprintf("stream %d (%v) delivered the drop of its namespace; the next call returned %s instead of an invalidate event", st.s, s.scope, ob.res), i)
				if ob.res != "EV" {
					s.ended = "CLOSE" // whatever state it is in: later calls are not judged again
					break
				}
			}
			switch ob.res {
			case "EV":
				rk := ob.rank
				if rk < s.pos {
					fail("C09:duplicate-or-reordered", fmt.Sprintf("stream %d delivered event %d again or out of order (position %d)", st.s, rk, s.pos), i)
					break
				}
				if !oScope(s.scope, hist[rk]) {
					fail("C09:out-of-scope", fmt.Sprintf("stream %d (%v) delivered event %d of %s.%s", st.s, s.scope, rk, hist[rk].db, hist[rk].coll), i)
				}
				if ob.content.db != hist[rk].db || ob.content.coll != hist[rk].coll || ob.content.op != hist[rk].op {
					fail("C09:event-content", fmt.Sprintf("stream %d: decoded event %d differs from the oplog entry", st.s, rk), i)
				}
				if m := unexamined(rk); len(m) > 0 {
					gap(m, fmt.Sprintf("delivered %d next", rk))
				} else if s.anchored && ntrim > s.pos {
					// every skipped event was out of scope, but the stream could not know that
				}
				s.pos, s.anchored, s.lastRank = rk+1, true, rk
				s.delivered = append(s.delivered, rk)
				if oInvalidates(s.scope, hist[rk]) {
					s.expectInv = true
				}
			case "INVALIDATE":
				if !s.expectInv {
					fail("C09:spurious-invalidate", fmt.Sprintf("stream %d (%v) invalidated without a drop of its namespace", st.s, s.scope), i)
				}
				s.ended = "INVALIDATE"
			case "NOTHING":
				if st.kind == "trynextc" {
					fail("C09:cancel-ignored", "TryNext with a cancelled context and nothing to deliver returned without error", i)
				}
				if m := unexamined(histLen); len(m) > 0 {
					if m[0] >= ntrim {
						fail("C09:missed-available-event", fmt.Sprintf("stream %d (%v) reports nothing although events %v are committed and retained", st.s, s.scope, m), i)
					} else {
						gap(m, "reports nothing")
					}
				}
				s.pos = histLen
				if ntrim < histLen {
					s.anchored = true
				}
			case "LOST":
				if ntrim <= s.pos {
					if ntrim == s.pos && s.pos > 0 && s.anchored {
						fail(sigSpuriousLost, fmt.Sprintf("stream %d (%v) fails with ErrLostOplogPosition although no event after its position %d was discarded (only the already passed event %d was)", st.s, s.scope, s.pos, s.pos-1), i)
					} else {
						fail("C09:lost-without-trim", fmt.Sprintf("stream %d fails with ErrLostOplogPosition; position %d, discarded %d", st.s, s.pos, ntrim), i)
					}
				}
				s.ended = "LOST"
			case "ERR":
				if st.kind != "trynextc" {
					fail("C09:unexpected-error", fmt.Sprintf("stream %d: TryNext failed with an unexpected error", st.s), i)
				}
				s.ended = "ERR"
			case "CLOSED":
				fail("C09:closed-unexpectedly", fmt.Sprintf("stream %d reports closed without Close, invalidate or error", st.s), i)
				s.ended = "CLOSE"
			case "HANG":
				fail("C09:stall", fmt.Sprintf("stream %d: TryNext did not return within 5 s", st.s), i)
				s.ended = "CLOSE"
			default:
				fail("C09:bad-observation", ob.res, i)
			}
		case "close":
			if st.s >= 0 && st.s < len(streams) && streams[st.s].open && streams[st.s].ended == "" {
				streams[st.s].ended = "CLOSE"
			}
		}
		histLen, ntrim = ob.histLen, ob.ntrim
	}
	return fails
}

// judgeFresh executes the script (re-recording the events of every commit:
// removing steps changes what later commits append) and judges the run.
func judgeFresh(sc *sScript) [][3]string {
	for attempt := 0; ; attempt++ {
		run := newSRun(sc.min, sc.max, sc.always)
		for _, s := range sc.steps {
			run.step(s, true)
		}
		trace, hist, bad := run.trace, run.hist, run.epochBad
		run.close()
		if bad && attempt < 5 {
			continue
		}
		return judgeStreamTrace(sc, trace, hist)
	}
}

// shrinkStreamCase removes steps as long as a failure with the same signature
// remains (watch steps stay: stream numbers are positional).
func shrinkStreamCase(sc *sScript, sig string) (*sScript, [3]string) {
	has := func(c *sScript) ([3]string, bool) {
		for _, f := range judgeFresh(c) {
			if f[0] == sig {
				return f, true
			}
		}
		return [3]string{}, false
	}
	cur := &sScript{min: sc.min, max: sc.max, always: sc.always}
	for _, s := range sc.steps {
		c := *s
		cur.steps = append(cur.steps, &c)
	}
	best, ok := has(cur)
	if !ok {
		return sc, [3]string{sig, "not reproduced while shrinking", "0"}
	}
	if sc.min < sBig {
		return cur, best // retention-by-options cases sleep: not shrunk
	}
	for changed := true; changed; {
		changed = false
		for i := len(cur.steps) - 1; i >= 0; i-- {
			if cur.steps[i].kind == "watch" && i != len(cur.steps)-1 {
				continue
			}
			cand := &sScript{min: cur.min, max: cur.max, always: cur.always}
			for j, s := range cur.steps {
				if j != i {
					c := *s
					cand.steps = append(cand.steps, &c)
				}
			}
			if f, ok := has(cand); ok {
				cur, best, changed = cand, f, true
			}
		}
	}
	return cur, best
}

func oracleC09Delivery(r *rng, n int, st *oracleStats) []oracleFailure {
	st.Rule = "sequential scripts (commits through the driver API on 2 dbs x 2 collections incl. drops and multi-namespace transactions, retention trims, Watch at client/db/collection scope from now / resumeAfter / startAfter / startAtOperationTime, TryNext, Close) on the real engine; per stream the decoded events are compared with the scope-filtered history of local.oplog after the start position: once, in order, no gap unless ErrLostOplogPosition, invalidate after drop, resume continues; non-trivial = some stream delivered an event"
	var fails []oracleFailure
	seenSig := map[string]int{}
	type job struct {
		text  string
		fails [][3]string
		nt    bool
		dist  []string
	}
	const batch = 256
	for done := 0; done < n; done += batch {
		m := batch
		if n-done < m {
			m = n - done
		}
		seeds := make([]uint64, m)
		for i := range seeds {
			seeds[i] = r.u64()
		}
		jobs := make([]job, m)
		var wg sync.WaitGroup
		sem := make(chan struct{}, 32)
		for i := range seeds {
			wg.Add(1)
			go func(i int) {
				defer wg.Done()
				sem <- struct{}{}
				defer func() { <-sem }()
				text, _ := genStreamCase(newRng(seeds[i]), i < 3)
				c, _ := parseSx(text)
				sc, _ := parseStreamScript(c)
				// the script is executed again: the oracle judges this run
				var trace []sObs
				var hist []histEv
				for attempt := 0; attempt < 40; attempt++ {
					run := newSRun(sc.min, sc.max, sc.always)
					ok := true
					for _, s := range sc.steps {
						if _, status := run.step(s, false); status != sOK {
							ok = false
							break
						}
					}
					trace, hist = run.trace, run.hist
					bad := run.epochBad
					run.close()
					if ok && !bad {
						break
					}
				}
				j := job{text: text, fails: judgeStreamTrace(sc, trace, hist)}
				for _, o := range trace {
					if o.res == "EV" {
						j.nt = true
					}
					if o.kind == "trynext" {
						j.dist = append(j.dist, "result:"+o.res)
					}
				}
				jobs[i] = j
			}(i)
		}
		wg.Wait()
		for _, j := range jobs {
			st.Evaluations++
			if j.nt {
				st.Nontrivial++
			}
			for _, d := range j.dist {
				st.Dist[d]++
			}
			if len(st.Samples) < 2 {
				st.Samples = append(st.Samples, j.text)
			}
			for _, f := range j.fails {
				st.Dist["failure:"+f[0]]++
				seenSig[f[0]]++
				if seenSig[f[0]] > 3 { // a few witnesses per kind
					continue
				}
				c, _ := parseSx(j.text)
				sc, _ := parseStreamScript(c)
				small, sf := shrinkStreamCase(sc, f[0])
				fails = append(fails, oracleFailure{Property: "C09", Signature: f[0], What: sf[1], Family: "stream", Case: small.text(),
					Detail: map[string]string{"step": sf[2], "unshrunk_case": j.text}})
			}
		}
	}
	return fails
}
