package main

// fam_codec.go — property C06 (persist-and-reload identity).
//
// family `codec`  (model: coq/Model/Codec.v, coq/Model/File.v)
//   (enc <doc>)   bson.Marshal of a document           -> hex bytes | ERR
//   (dec xHEX)    bson.Unmarshal into bson.D            -> document | ERR
//   (file <ns>…)  lungo.BuildFile + bson.Marshal of a catalog (Go map order
//                 canonicalised), then bson.Unmarshal + File.BuildCatalog of
//                 those bytes                          -> hex bytes, catalog | ERR
// family `reload`
//   (reloadimg (img <ns>…) (hist …))  the catalog of a FileStore-backed engine
//                 after a generated history of driver API calls; run stores it
//                 with the real FileStore and loads it again   -> catalog | ERR
// family `reloadhist` (no model; replay vehicle of the oracle)
//   (reloadhist <op>…)  the oracle scenario on one history     -> OK | FAIL …
// oracle C06: history on engine A (FileStore), Close, Open engine B on the
//   same file: catalog dump and API dump must be identical; the history is
//   then continued on both (duplicate probes, TTL pass) with identical replies.

import (
	"bytes"
	"context"
	"encoding/hex"
	"fmt"
	"io"
	"math"
	"os"
	"path/filepath"
	"sort"
	"strconv"
	"strings"
	"time"

	"go.mongodb.org/mongo-driver/bson"
	"go.mongodb.org/mongo-driver/bson/primitive"
	"go.mongodb.org/mongo-driver/mongo"
	"go.mongodb.org/mongo-driver/mongo/options"
	"go.mongodb.org/mongo-driver/x/bsonx/bsoncore"

	"github.com/256dpi/lungo"
	"github.com/256dpi/lungo/bsonkit"
	"github.com/256dpi/lungo/mongokit"
)

// ---------------------------------------------------------------------------
// value generation: the shared pool plus everything the wire format can carry

var codecKeys = []string{"a", "b", "c", "_id", "0", "1", "x", "", "a.b", "$set", "é", "key with space", "kkkkkkkkkkkkkkkkkkkkkkkkkkkkkkkkkkkkkkkk"}
var codecSubtypes = []byte{0, 1, 2, 2, 3, 4, 5, 6, 7, 8, 9, 127, 128, 255}
var codecFloatBits = []uint64{0, 1 << 63, 0x7ff0000000000000, 0xfff0000000000000, 0x7ff8000000000000, 0x7ff8000000000001, 0xfff8000000000000, 0x7ff0000000000001, 0xffffffffffffffff, 1, 0x000fffffffffffff}
var codecDecBits = [][2]uint64{{0x7c00000000000000, 0}, {0x7800000000000000, 0}, {0xf800000000000000, 0}, {0x7e00000000000000, 5}, {0xffffffffffffffff, 0xffffffffffffffff}, {0, 0}, {0x6000000000000000, 1}, {0x3040000000000000, 0xffffffffffffffff}}

// codecBig: 70 kB strings (a length of three bytes) are drawn for the
// byte-level cases only, and not among the first cases of a run: those are
// also evaluated inside Coq, whose parser overflows its stack on a string
// literal of that size (the extracted model has no such limit).
var codecBig = false
var codecGenCount = 0

const codecBigAfter = 1600 // > the largest in-Coq sample of bin/checks.d/C06.json

func genCodecScalar(r *rng) interface{} {
	switch r.intn(16) {
	case 0:
		return primitive.Binary{Subtype: pick(r, codecSubtypes), Data: []byte(pick(r, []string{"", "", "a", "ab", "\x00", "\x00\x00\x00\x00", "abcde", "\xff\xfe\x00", strings.Repeat("z", 300)}))}
	case 1:
		return math.Float64frombits(pick(r, codecFloatBits))
	case 2:
		b := pick(r, codecDecBits)
		return primitive.NewDecimal128(b[0], b[1])
	case 3:
		return primitive.Timestamp{T: uint32(r.u64()), I: uint32(r.u64() >> uint(r.intn(33)))}
	case 4:
		return primitive.Regex{Pattern: pick(r, []string{"", "a", "^a.*b$", "é", "\xff"}), Options: pick(r, []string{"", "i", "im", "mi", "xsmi", "ii", "ui"})}
	case 5:
		if codecBig && r.chance(1, 60) {
			return strings.Repeat("s", 70000) // length needs three bytes
		}
		return pick(r, []string{"", "a", "a\x00b", "\x00", "\xff\xfe", "héllo", strings.Repeat("s", 300), "x.y"})
	case 6:
		return primitive.DateTime(int64(r.u64()))
	case 7:
		return int64(r.u64())
	case 8:
		return int32(r.u64())
	case 9:
		var o primitive.ObjectID
		for i := range o {
			o[i] = byte(r.u64())
		}
		return o
	case 10:
		return math.Float64frombits(r.u64())
	default:
		return genScalar(r)
	}
}

func genCodecValue(r *rng, depth int) interface{} {
	if depth <= 0 || r.chance(1, 2) {
		return genCodecScalar(r)
	}
	switch r.intn(5) {
	case 0:
		n := pick(r, []int{0, 0, 1, 2, 3, 11, 12}) // 11+: two-digit array keys
		a := make(bson.A, 0, n)
		for i := 0; i < n; i++ {
			a = append(a, genCodecValue(r, depth-1))
		}
		return a
	case 1:
		return genCodecDoc(r, depth-1)
	case 2:
		return bson.A{}
	case 3:
		return bson.D{}
	default:
		return genValue(r, depth)
	}
}

func genCodecDoc(r *rng, depth int) bson.D {
	n := r.intn(5)
	d := bson.D{}
	for i := 0; i < n; i++ {
		k := pick(r, codecKeys) // duplicate keys are legal in a bson.D
		d = append(d, bson.E{Key: k, Value: genCodecValue(r, depth)})
	}
	return d
}

// rarely: something bson.Marshal refuses (NUL in a key or in a regex)
func genUnencodable(r *rng) bson.D {
	d := genCodecDoc(r, 1)
	switch r.intn(3) {
	case 0:
		d = append(d, bson.E{Key: "a\x00b", Value: int32(1)})
	case 1:
		d = append(d, bson.E{Key: "r", Value: primitive.Regex{Pattern: "a\x00", Options: "i"}})
	default:
		d = append(d, bson.E{Key: "d", Value: bson.A{bson.D{{Key: "\x00", Value: nil}}}})
	}
	return d
}

func safeEnc(v interface{}) (s string) {
	defer func() {
		if p := recover(); p != nil {
			s = "ERR" // a BSON type lungo never stores (the model has no such value)
		}
	}()
	return enc(v)
}

func runEnc(d bson.D) string {
	b, err := bson.Marshal(d)
	if err != nil {
		return "ERR"
	}
	return "x" + hex.EncodeToString(b)
}

func runDec(b []byte) string {
	var d bson.D
	if err := bson.Unmarshal(b, &d); err != nil {
		return "ERR"
	}
	if d == nil {
		d = bson.D{}
	}
	return safeEnc(d)
}

func corrupt(r *rng, b []byte) []byte {
	c := append([]byte{}, b...)
	switch r.intn(6) {
	case 0: // truncate
		return c[:r.intn(len(c))]
	case 1: // extend
		return append(c, byte(r.u64()))
	case 2: // a length or any other byte
		c[r.intn(len(c))] = byte(r.u64())
		return c
	case 3:
		i := r.intn(len(c))
		c[i] ^= 1 << uint(r.intn(8))
		return c
	case 4: // drop a byte
		i := r.intn(len(c))
		return append(c[:i], c[i+1:]...)
	default: // small change of the first length byte
		c[0] += byte(r.intn(3)) - 1
		return c
	}
}

// ---------------------------------------------------------------------------
// catalogs as S-expressions:  (ns xDB xCOLL n|e (docs D…) (idx (xNAME D T|F N|D expiry) …))

type nsImage struct {
	db, coll string
	nilDocs  bool
	docs     []bson.D
	idx      []idxImage
}

type idxImage struct {
	name    string
	key     bson.D
	unique  bool
	partial *bson.D
	expiry  int64
}

func (n *nsImage) key() string { return n.db + "." + n.coll }

func sortImages(nss []nsImage) {
	sort.SliceStable(nss, func(i, j int) bool { return nss[i].key() < nss[j].key() })
	for i := range nss {
		ix := nss[i].idx
		sort.SliceStable(ix, func(a, b int) bool { return ix[a].name < ix[b].name })
	}
}

func encImages(nss []nsImage, withFlag bool) string {
	var sb strings.Builder
	for i, n := range nss {
		if i > 0 {
			sb.WriteString(" ")
		}
		sb.WriteString("(ns " + hx(n.db) + " " + hx(n.coll))
		if withFlag {
			if n.nilDocs {
				sb.WriteString(" n")
			} else {
				sb.WriteString(" e")
			}
		}
		sb.WriteString(" (docs")
		for _, d := range n.docs {
			sb.WriteString(" " + enc(d))
		}
		sb.WriteString(") (idx")
		for _, ix := range n.idx {
			sb.WriteString(" (" + hx(ix.name) + " " + enc(ix.key) + " ")
			if ix.unique {
				sb.WriteString("T ")
			} else {
				sb.WriteString("F ")
			}
			if ix.partial == nil {
				sb.WriteString("N")
			} else {
				sb.WriteString(enc(*ix.partial))
			}
			fmt.Fprintf(&sb, " %d)", ix.expiry)
		}
		sb.WriteString("))")
	}
	return sb.String()
}

func decImages(nss []*sx) []nsImage {
	var out []nsImage
	for _, n := range nss {
		l := n.list
		img := nsImage{db: unhx(l[1].atom), coll: unhx(l[2].atom), nilDocs: l[3].atom == "n"}
		for _, d := range l[4].list[1:] {
			img.docs = append(img.docs, decValue(d).(bson.D))
		}
		for _, x := range l[5].list[1:] {
			ix := idxImage{name: unhx(x.list[0].atom), key: decValue(x.list[1]).(bson.D), unique: x.list[2].atom == "T", expiry: atoi64(x.list[4].atom)}
			if x.list[3].isL {
				p := decValue(x.list[3]).(bson.D)
				ix.partial = &p
			}
			img.idx = append(img.idx, ix)
		}
		out = append(out, img)
	}
	return out
}

// imageOf dumps a real catalog (all fields of lungo.Catalog are exported).
func imageOf(c *lungo.Catalog) []nsImage {
	var out []nsImage
	for h, ns := range c.Namespaces {
		img := nsImage{db: h[0], coll: h[1], nilDocs: ns.Documents.List == nil}
		for _, d := range ns.Documents.List {
			img.docs = append(img.docs, *d)
		}
		for name, ix := range ns.Indexes {
			cfg := ix.Config()
			ii := idxImage{name: name, key: *cfg.Key, unique: cfg.Unique, expiry: int64(cfg.Expiry)}
			if cfg.Partial != nil {
				p := *cfg.Partial
				ii.partial = &p
			}
			img.idx = append(img.idx, ii)
		}
		out = append(out, img)
	}
	sortImages(out)
	return out
}

// catalogOf builds a real catalog from an image.
func catalogOf(nss []nsImage) (*lungo.Catalog, error) {
	cat := &lungo.Catalog{Namespaces: map[lungo.Handle]*mongokit.Collection{}}
	for _, n := range nss {
		coll := mongokit.NewCollection(false)
		var list bsonkit.List
		for i := range n.docs {
			d := n.docs[i]
			list = append(list, &d)
		}
		coll.Documents = bsonkit.NewSet(list)
		if !n.nilDocs && coll.Documents.List == nil {
			coll.Documents.List = bsonkit.List{}
		}
		for _, ix := range n.idx {
			key := ix.key
			index, err := mongokit.CreateIndex(mongokit.IndexConfig{Key: &key, Unique: ix.unique, Partial: ix.partial, Expiry: time.Duration(ix.expiry)})
			if err != nil {
				return nil, err
			}
			if ok, err := index.Build(list); err != nil || !ok {
				return nil, fmt.Errorf("index %q does not build", ix.name)
			}
			coll.Indexes[ix.name] = index
		}
		cat.Namespaces[lungo.Handle{n.db, n.coll}] = coll
	}
	return cat, nil
}

// canonFile re-orders what bson.Marshal leaves to Go map iteration: the
// namespaces by key and the indexes of each namespace by name.
func canonFile(raw []byte) ([]byte, error) {
	sorted := func(d bsoncore.Document) ([]bsoncore.Element, error) {
		es, err := d.Elements()
		if err != nil {
			return nil, err
		}
		sort.SliceStable(es, func(i, j int) bool { return es[i].Key() < es[j].Key() })
		return es, nil
	}
	build := func(es [][]byte) []byte { return bsoncore.BuildDocument(nil, es...) }
	top, err := bsoncore.Document(raw).Elements()
	if err != nil {
		return nil, err
	}
	var outTop [][]byte
	for _, te := range top {
		nsDoc, ok := te.Value().DocumentOK()
		if te.Key() != "namespaces" || !ok {
			outTop = append(outTop, te)
			continue
		}
		nss, err := sorted(nsDoc)
		if err != nil {
			return nil, err
		}
		var outNss [][]byte
		for _, ne := range nss {
			fields, err := ne.Value().Document().Elements()
			if err != nil {
				return nil, err
			}
			var outFields [][]byte
			for _, fe := range fields {
				ixDoc, ok := fe.Value().DocumentOK()
				if fe.Key() != "indexes" || !ok {
					outFields = append(outFields, fe)
					continue
				}
				ixs, err := sorted(ixDoc)
				if err != nil {
					return nil, err
				}
				var outIx [][]byte
				for _, e := range ixs {
					outIx = append(outIx, e)
				}
				outFields = append(outFields, bsoncore.AppendDocumentElement(nil, "indexes", build(outIx)))
			}
			outNss = append(outNss, bsoncore.AppendDocumentElement(nil, ne.Key(), build(outFields)))
		}
		outTop = append(outTop, bsoncore.AppendDocumentElement(nil, "namespaces", build(outNss)))
	}
	return build(outTop), nil
}

func runFile(nss []nsImage) string {
	cat, err := catalogOf(nss)
	if err != nil {
		return "BADGEN"
	}
	raw, err := bson.Marshal(lungo.BuildFile(cat))
	if err != nil {
		return "ERR"
	}
	canon, err := canonFile(raw)
	if err != nil {
		return "BADCANON"
	}
	var f lungo.File
	if err := bson.Unmarshal(raw, &f); err != nil {
		return "x" + hex.EncodeToString(canon) + " ERR"
	}
	back, err := f.BuildCatalog()
	if err != nil {
		return "x" + hex.EncodeToString(canon) + " ERR"
	}
	return "x" + hex.EncodeToString(canon) + " (cat" + sp(encImages(imageOf(back), false)) + ")"
}

func sp(s string) string {
	if s == "" {
		return ""
	}
	return " " + s
}

// ---- generated catalog images (family codec, `file` cases) ----

var filePartials = []bson.D{{}, {{Key: "a", Value: bson.D{{Key: "$gt", Value: int32(1)}}}}, {{Key: "b", Value: "x"}}, {{Key: "a", Value: bson.D{{Key: "$exists", Value: true}}}}}
var fileExpiries = []int64{0, 0, 1, 1000000000, 3600000000000, 1500000001, -1, math.MaxInt64, math.MinInt64, 86400000000000}

func genDirection(r *rng) interface{} {
	d := pick(r, []int64{1, 1, -1})
	switch r.intn(3) {
	case 0:
		return int32(d)
	case 1:
		return d
	default:
		return float64(d)
	}
}

func genFileImage(r *rng) []nsImage {
	var nss []nsImage
	used := map[string]bool{}
	n := 1 + r.intn(4)
	if r.chance(1, 15) {
		n = 0
	}
	for i := 0; i < n; i++ {
		img := nsImage{db: pick(r, []string{"d", "e", "db", "local", "a.b", "a"}), coll: pick(r, []string{"c", "oplog", "x.y", "b.c", "coll", "é"})}
		if used[img.key()] {
			continue
		}
		used[img.key()] = true
		nd := r.intn(4)
		for j := 0; j < nd; j++ {
			d := bson.D{{Key: "_id", Value: int32(j)}, {Key: "u", Value: int64(100 + j)}}
			d = append(d, genCodecDoc(r, 2)...)
			img.docs = append(img.docs, d)
		}
		img.nilDocs = nd == 0 && r.chance(1, 2)
		ni := r.intn(4)
		usedIx := map[string]bool{}
		for j := 0; j < ni; j++ {
			ix := idxImage{name: pick(r, []string{"_id_", "a_1", "u_1", "n", "a_1_b_-1", "", "idx.with.dots"})}
			if usedIx[ix.name] {
				continue
			}
			usedIx[ix.name] = true
			switch r.intn(5) {
			case 0:
				ix.key = bson.D{{Key: "_id", Value: genDirection(r)}}
				ix.unique = true
			case 1:
				ix.key = bson.D{{Key: "u", Value: genDirection(r)}}
				ix.unique = r.chance(2, 3)
			case 2:
				ix.key = bson.D{{Key: pick(r, []string{"a", "b", "a.b", "x"}), Value: genDirection(r)}}
			default:
				ix.key = bson.D{{Key: "a", Value: genDirection(r)}, {Key: pick(r, []string{"b", "u", "x.0"}), Value: genDirection(r)}}
			}
			if r.chance(1, 3) {
				p := append(bson.D{}, pick(r, filePartials)...)
				ix.partial = &p
			}
			ix.expiry = pick(r, fileExpiries)
			if len(ix.key) > 1 && ix.expiry > 0 {
				ix.expiry = 0
			}
			img.idx = append(img.idx, ix)
		}
		nss = append(nss, img)
	}
	sortImages(nss)
	return nss
}

// ---------------------------------------------------------------------------
// histories through the driver API

type hop struct {
	op       string // ins upd rep del idx dropidx dropcoll dropdb create
	db, coll string
	doc      bson.D // document / update / key
	filter   bson.D
	name     string // index name ("" = default)
	unique   bool
	partial  *bson.D
	ttl      int64 // expireAfterSeconds, -1 = none
}

func encHop(h hop) string {
	p := "N"
	if h.partial != nil {
		p = enc(*h.partial)
	}
	u := "F"
	if h.unique {
		u = "T"
	}
	return fmt.Sprintf("(%s %s %s %s %s %s %s %s %d)", h.op, hx(h.db), hx(h.coll), enc(orEmpty(h.doc)), enc(orEmpty(h.filter)), hx(h.name), u, p, h.ttl)
}

func orEmpty(d bson.D) bson.D {
	if d == nil {
		return bson.D{}
	}
	return d
}

func decHop(n *sx) hop {
	l := n.list
	h := hop{op: l[0].atom, db: unhx(l[1].atom), coll: unhx(l[2].atom), doc: decValue(l[3]).(bson.D), filter: decValue(l[4]).(bson.D), name: unhx(l[5].atom), unique: l[6].atom == "T", ttl: atoi64(l[8].atom)}
	if l[7].isL {
		p := decValue(l[7]).(bson.D)
		h.partial = &p
	}
	return h
}

var histDbs = []string{"db1", "db1", "db1", "db2", "db2", "d3"}
var histColls = []string{"c1", "c1", "c2", "c.d", "b.c"}
var histIds = []interface{}{int32(1), int32(2), int32(3), int64(4), "s", "t", 5.5, primitive.ObjectID{0, 0, 0, 0, 0, 0, 0, 0, 0, 0, 0, 7}, primitive.DateTime(9), true}

func genHistDoc(r *rng, seq int) bson.D {
	d := bson.D{{Key: "_id", Value: pick(r, histIds)}}
	if r.chance(4, 5) {
		d = append(d, bson.E{Key: "u", Value: pick(r, []interface{}{int32(seq), int64(seq % 4), float64(seq % 3), "u", nil})})
	}
	if r.chance(1, 2) {
		d = append(d, bson.E{Key: "a", Value: genCodecValue(r, 2)})
	}
	if r.chance(1, 2) {
		d = append(d, bson.E{Key: "b", Value: genCodecValue(r, 2)})
	}
	if r.chance(1, 3) {
		// dates around now: in the past by seconds, minutes or hours, or in the future
		off := pick(r, []int64{-5, -90, -7200, 3600, -400 * 86400})
		d = append(d, bson.E{Key: "t", Value: primitive.NewDateTimeFromTime(time.Now().Add(time.Duration(off) * time.Second))})
	}
	if r.chance(1, 4) {
		d = append(d, genCodecDoc(r, 2)...)
	}
	return d
}

func genHistory(r *rng, dotted bool) []hop {
	dbs := histDbs
	if dotted {
		dbs = []string{"a.b", "db1", "a.b", "x.y.z"}
	}
	n := 3 + r.intn(22)
	var hs []hop
	type nsName struct{ db, coll, name string }
	var created []nsName
	for i := 0; i < n; i++ {
		h := hop{db: pick(r, dbs), coll: pick(r, histColls), ttl: -1}
		switch k := r.intn(20); {
		case k < 8:
			h.op = "ins"
			h.doc = genHistDoc(r, i)
		case k < 10:
			h.op = "upd"
			h.filter = bson.D{{Key: "_id", Value: pick(r, histIds)}}
			switch r.intn(4) {
			case 0:
				h.doc = bson.D{{Key: "$set", Value: bson.D{{Key: pick(r, []string{"a", "b", "u", "n.m"}), Value: genCodecValue(r, 2)}}}}
			case 1:
				h.doc = bson.D{{Key: "$inc", Value: bson.D{{Key: "cnt", Value: genNumber(r)}}}}
			case 2:
				h.doc = bson.D{{Key: "$unset", Value: bson.D{{Key: pick(r, []string{"a", "b", "u"}), Value: ""}}}}
			default:
				h.doc = bson.D{{Key: "$push", Value: bson.D{{Key: "arr", Value: genCodecValue(r, 1)}}}}
			}
		case k < 11:
			h.op = "rep"
			h.filter = bson.D{{Key: "_id", Value: pick(r, histIds)}}
			h.doc = genHistDoc(r, i)[1:]
		case k < 13:
			h.op = "del"
			if r.chance(1, 4) {
				h.filter = bson.D{}
			} else {
				h.filter = bson.D{{Key: "_id", Value: pick(r, histIds)}}
			}
		case k < 17:
			h.op = "idx"
			h.unique = r.chance(1, 2)
			compound := r.chance(1, 3)
			if compound {
				h.doc = bson.D{{Key: pick(r, []string{"a", "u"}), Value: genDirection(r)}, {Key: pick(r, []string{"b", "t", "x.y"}), Value: genDirection(r)}}
			} else {
				h.doc = bson.D{{Key: pick(r, []string{"u", "u", "a", "t", "t", "b.c"}), Value: genDirection(r)}}
			}
			if r.chance(1, 3) {
				p := append(bson.D{}, pick(r, filePartials)...)
				h.partial = &p
			}
			if r.chance(1, 2) {
				h.ttl = pick(r, []int64{0, 0, 1, 60, 3600, 86400 * 365})
			}
			if r.chance(1, 3) {
				h.name = pick(r, []string{"custom", "my.index", "n2"})
			}
			def := h.name
			if def == "" {
				var segs []string
				for _, e := range h.doc {
					dir := "1"
					if fmt.Sprint(e.Value) == "-1" {
						dir = "-1"
					}
					segs = append(segs, e.Key, dir)
				}
				def = strings.Join(segs, "_")
			}
			created = append(created, nsName{h.db, h.coll, def})
		case k < 18:
			h.op = "dropidx"
			h.name = pick(r, []string{"custom", "u_1", "a_1", "t_1", "n2", "u_-1"})
			if len(created) > 0 && r.chance(3, 4) {
				c := pick(r, created)
				h.db, h.coll, h.name = c.db, c.coll, c.name
			}
		case k < 19:
			if r.chance(1, 2) {
				h.op = "dropcoll"
			} else {
				h.op = "dropdb"
			}
		default:
			h.op = "create"
		}
		hs = append(hs, h)
	}
	return hs
}

var bg = context.Background()

// outcome classes of one API call
func class(err error) string {
	switch {
	case err == nil:
		return "ok"
	case lungo.IsUniquenessError(err):
		return "dup"
	}
	return "err"
}

func applyHop(c lungo.IClient, h hop) (res string) {
	defer func() {
		if p := recover(); p != nil {
			res = "panic"
		}
	}()
	coll := c.Database(h.db).Collection(h.coll)
	switch h.op {
	case "ins":
		_, err := coll.InsertOne(bg, h.doc)
		return class(err)
	case "upd":
		r, err := coll.UpdateOne(bg, h.filter, h.doc)
		if err != nil {
			return class(err)
		}
		return fmt.Sprintf("ok:%d:%d", r.MatchedCount, r.ModifiedCount)
	case "rep":
		r, err := coll.ReplaceOne(bg, h.filter, h.doc)
		if err != nil {
			return class(err)
		}
		return fmt.Sprintf("ok:%d:%d", r.MatchedCount, r.ModifiedCount)
	case "del":
		r, err := coll.DeleteMany(bg, h.filter)
		if err != nil {
			return class(err)
		}
		return fmt.Sprintf("ok:%d", r.DeletedCount)
	case "idx":
		o := options.Index()
		if h.unique {
			o.SetUnique(true)
		}
		if h.partial != nil {
			o.SetPartialFilterExpression(*h.partial)
		}
		if h.ttl >= 0 {
			o.SetExpireAfterSeconds(int32(h.ttl))
		}
		if h.name != "" {
			o.SetName(h.name)
		}
		name, err := coll.Indexes().CreateOne(bg, mongo.IndexModel{Keys: h.doc, Options: o})
		if err != nil {
			return class(err)
		}
		return "ok:" + name
	case "dropidx":
		_, err := coll.Indexes().DropOne(bg, h.name)
		return class(err)
	case "dropcoll":
		return class(coll.Drop(bg))
	case "dropdb":
		return class(c.Database(h.db).Drop(bg))
	case "create":
		return class(c.Database(h.db).CreateCollection(bg, h.coll))
	}
	return "?"
}

// scratch directory: <verif>/.work/run (the harness binary lives in .work/bin)
func scratchDir() string {
	base := os.Getenv("VERIF_SCRATCH")
	if base == "" {
		exe, err := os.Executable()
		if err != nil {
			panic(err)
		}
		base = filepath.Join(filepath.Dir(filepath.Dir(exe)), "run")
	}
	if err := os.MkdirAll(base, 0o755); err != nil {
		panic(err)
	}
	d, err := os.MkdirTemp(base, "c06-")
	if err != nil {
		panic(err)
	}
	return d
}

func openFile(path string) (lungo.IClient, *lungo.Engine, error) {
	return lungo.Open(nil, lungo.Options{Store: lungo.NewFileStore(path, 0o666), ExpireInterval: time.Hour})
}

// ---------------------------------------------------------------------------
// canonical dumps for the oracle

// catalogText: the exact catalog (documents in natural order, index
// definitions with the expiry in nanoseconds).  With canonTime the oplog
// timestamps become ranks and wall-clock times 0, so that two engines that
// executed the same calls at different instants compare equal.
func catalogText(c *lungo.Catalog, canonTime bool) string {
	img := imageOf(c)
	if canonTime {
		for i := range img {
			if img[i].db == "local" && img[i].coll == "oplog" {
				rank := map[primitive.Timestamp]int{}
				var canon func(v interface{}) interface{}
				canon = func(v interface{}) interface{} {
					switch x := v.(type) {
					case primitive.Timestamp:
						if _, ok := rank[x]; !ok {
							rank[x] = len(rank) + 1
						}
						return primitive.Timestamp{T: 0, I: uint32(rank[x])}
					case bson.D:
						out := make(bson.D, len(x))
						for j, e := range x {
							if e.Key == "wallTime" {
								out[j] = bson.E{Key: e.Key, Value: primitive.DateTime(0)}
							} else {
								out[j] = bson.E{Key: e.Key, Value: canon(e.Value)}
							}
						}
						return out
					case bson.A:
						out := make(bson.A, len(x))
						for j, e := range x {
							out[j] = canon(e)
						}
						return out
					}
					return v
				}
				// Transaction.Drop of a database emits its "drop" events, and
				// Transaction.Expire its "delete" events, in Go map order of the
				// namespaces: runs of consecutive drop / delete events are sorted
				// by namespace and document key
				get := func(d bson.D, k string) interface{} {
					for _, e := range d {
						if e.Key == k {
							return e.Value
						}
					}
					return nil
				}
				docs := img[i].docs
				for a := 0; a < len(docs); {
					op := get(docs[a], "operationType")
					if op != "drop" && op != "delete" {
						a++
						continue
					}
					b := a
					for b < len(docs) && get(docs[b], "operationType") == op {
						b++
					}
					run := docs[a:b]
					key := func(d bson.D) string { return enc(get(d, "ns")) + enc(get(d, "documentKey")) }
					sort.SliceStable(run, func(x, y int) bool { return key(run[x]) < key(run[y]) })
					a = b
				}
				for j, d := range img[i].docs {
					img[i].docs[j] = canon(d).(bson.D)
				}
			}
		}
	}
	return encImages(img, false)
}

// apiText: what a client sees — databases, collections, documents in natural
// order, ListIndexes, and the change log local.oplog.
func apiText(c lungo.IClient) (s string) {
	defer func() {
		if p := recover(); p != nil {
			s = fmt.Sprintf("PANIC %v", p)
		}
	}()
	var sb strings.Builder
	dbs, err := c.ListDatabaseNames(bg, bson.D{})
	if err != nil {
		return "ERR listdbs"
	}
	sort.Strings(dbs)
	seenLocal := false
	for _, db := range dbs {
		if db == "local" {
			seenLocal = true
		}
	}
	if !seenLocal {
		dbs = append(dbs, "local")
	}
	for _, db := range dbs {
		colls, err := c.Database(db).ListCollectionNames(bg, bson.D{})
		if err != nil {
			return "ERR listcolls"
		}
		if db == "local" {
			colls = []string{"oplog"}
		}
		sort.Strings(colls)
		for _, cl := range colls {
			sb.WriteString("[" + hx(db) + " " + hx(cl) + " docs")
			cur, err := c.Database(db).Collection(cl).Find(bg, bson.D{})
			if err != nil {
				return "ERR find"
			}
			var docs []bson.D
			if err := cur.All(bg, &docs); err != nil {
				return "ERR all"
			}
			for _, d := range docs {
				if db == "local" {
					// wall-clock fields are compared through catalogText
				}
				sb.WriteString(" " + enc(d))
			}
			sb.WriteString(" idx")
			icur, err := c.Database(db).Collection(cl).Indexes().List(bg)
			if err != nil {
				return "ERR listidx"
			}
			var specs []bson.D
			if err := icur.All(bg, &specs); err != nil {
				return "ERR allidx"
			}
			for _, d := range specs {
				sb.WriteString(" " + enc(d))
			}
			sb.WriteString("]")
		}
	}
	return sb.String()
}

// the catalog a dotted database name is KNOWN to reload as: every handle is
// re-split at the first dot of "db.coll" (DESIGN.md section 9, row 7)
func resplit(nss []nsImage) []nsImage {
	out := make([]nsImage, len(nss))
	copy(out, nss)
	for i := range out {
		k := out[i].key()
		j := strings.IndexByte(k, '.')
		out[i].db, out[i].coll = k[:j], k[j+1:]
	}
	sortImages(out)
	return out
}

func hasDottedDb(nss []nsImage) bool {
	for _, n := range nss {
		if strings.Contains(n.db, ".") {
			return true
		}
	}
	return false
}

// probes: continue the history after the reload point — for every collection
// and every document re-insert a copy under a new _id (violates exactly the
// unique indexes that cover it), insert a fresh document, then one TTL pass.
func genProbes(r *rng, img []nsImage) []hop {
	var ps []hop
	for _, n := range img {
		if n.db == "local" {
			continue
		}
		for j, d := range n.docs {
			if j >= 3 {
				break
			}
			cp := append(bson.D{}, d...)
			ps = append(ps, hop{op: "ins", db: n.db, coll: n.coll, doc: cp, ttl: -1}) // duplicate _id
			cp2 := append(bson.D{}, d...)
			for k := range cp2 {
				if cp2[k].Key == "_id" {
					cp2[k].Value = fmt.Sprintf("probe-%d", j)
				}
			}
			ps = append(ps, hop{op: "ins", db: n.db, coll: n.coll, doc: cp2, ttl: -1}) // same secondary keys
		}
		ps = append(ps, hop{op: "ins", db: n.db, coll: n.coll, doc: bson.D{{Key: "_id", Value: "fresh"}, {Key: "u", Value: "fresh-u"}, {Key: "a", Value: int32(7)}}, ttl: -1})
		ps = append(ps, hop{op: "upd", db: n.db, coll: n.coll, filter: bson.D{{Key: "_id", Value: "fresh"}}, doc: bson.D{{Key: "$set", Value: bson.D{{Key: "u", Value: pick(r, []interface{}{int32(1), int64(0), "u", nil})}}}}, ttl: -1})
	}
	ps = append(ps, genHistory(r, false)[:3]...)
	return ps
}

func expirePass(e *lungo.Engine) (res string) {
	defer func() {
		if p := recover(); p != nil {
			res = "panic"
		}
	}()
	txn, err := e.Begin(nil, true)
	if err != nil {
		return "err-begin"
	}
	if err := txn.Expire(); err != nil {
		e.Abort(txn)
		return "err-expire"
	}
	if err := e.Commit(txn); err != nil {
		return "err-commit"
	}
	return "ok"
}

func copyFile(src, dst string) error {
	in, err := os.Open(src)
	if os.IsNotExist(err) {
		return nil // nothing committed yet: both engines start empty
	} else if err != nil {
		return err
	}
	defer in.Close()
	out, err := os.Create(dst)
	if err != nil {
		return err
	}
	defer out.Close()
	_, err = io.Copy(out, in)
	return err
}

type scenarioResult struct {
	signature string // "" = the property held
	what      string
	diff      string
	labels    []string
	imageA    []nsImage
}

func firstDiff(a, b string) string {
	i := 0
	for i < len(a) && i < len(b) && a[i] == b[i] {
		i++
	}
	lo := i - 60
	if lo < 0 {
		lo = 0
	}
	cut := func(s string) string {
		hi := i + 120
		if hi > len(s) {
			hi = len(s)
		}
		return s[lo:hi]
	}
	return fmt.Sprintf("at %d: A=…%s… B=…%s…", i, cut(a), cut(b))
}

// scenario runs one history.  Engine A executes it on a FileStore.  The file
// is copied, A continues with the probes and is closed.  Engine B0 is opened
// on A's file (after the probes), engine B on the copy (the reload point):
//
//	A before probes  ==  B            (reload identity)
//	probes on A      ==  probes on B  (same constraints enforced)
//	A after probes   ==  B0  and  == B after probes (modulo clock values)
func scenario(hs []hop, r *rng) (res scenarioResult) {
	dir := scratchDir()
	defer os.RemoveAll(dir)
	f1, f2 := filepath.Join(dir, "a.bson"), filepath.Join(dir, "b.bson")
	cA, eA, err := openFile(f1)
	if err != nil {
		return scenarioResult{signature: "C06:harness", what: "cannot open a fresh file store: " + err.Error()}
	}
	closedA := false
	defer func() {
		if !closedA {
			eA.Close()
		}
	}()
	for _, h := range hs {
		out := applyHop(cA, h)
		res.labels = append(res.labels, "op:"+h.op+":"+strings.SplitN(out, ":", 2)[0])
	}
	res.imageA = imageOf(eA.Catalog())
	catA, apiA := catalogText(eA.Catalog(), false), apiText(cA)
	entA := entriesText(eA.Catalog())
	if err := copyFile(f1, f2); err != nil {
		res.signature, res.what = "C06:harness", "copy failed: "+err.Error()
		return
	}
	probes := genProbes(r, res.imageA)
	var outA []string
	for _, p := range probes {
		outA = append(outA, applyHop(cA, p))
	}
	outA = append(outA, "expire:"+expirePass(eA))
	catA2, catA2c, apiA2 := catalogText(eA.Catalog(), false), catalogText(eA.Catalog(), true), ""
	_ = apiA2
	entA2 := entriesText(eA.Catalog())
	eA.Close()
	closedA = true

	dotted := hasDottedDb(res.imageA)
	if dotted {
		res.labels = append(res.labels, "dotted-db")
	}
	// literal close / open on the same file
	_, eB0, err := openFile(f1)
	if err != nil {
		if lungo.IsUniquenessError(err) && dotted {
			res.signature, res.what = "C06:dotted-database-name", "two namespaces share one file key; the file no longer loads: "+err.Error()
			return
		}
		res.signature, res.what = "C06:reload-error", "Open on the file written by the closed engine fails: "+err.Error()
		return
	}
	catB0 := catalogText(eB0.Catalog(), false)
	entB0 := entriesText(eB0.Catalog())
	eB0.Close()
	// the reload point
	cB, eB, err := openFile(f2)
	if err != nil {
		res.signature, res.what = "C06:reload-error", "Open on the file written by the engine fails: "+err.Error()
		return
	}
	defer eB.Close()
	catB, apiB := catalogText(eB.Catalog(), false), apiText(cB)
	if catA != catB || apiA != apiB {
		if dotted && encImages(resplit(res.imageA), false) == catB {
			res.signature = "C06:dotted-database-name"
			res.what = "a database name containing '.' reloads under another handle (namespace key split at the first dot)"
			res.diff = firstDiff(catA, catB)
			return
		}
		res.signature, res.what = "C06:reload-differs", "the reopened engine does not hold the database that was closed"
		if catA != catB {
			res.diff = "catalog " + firstDiff(catA, catB)
		} else {
			res.diff = "api " + firstDiff(apiA, apiB)
		}
		return
	}
	if catA2 != catB0 {
		res.signature, res.what, res.diff = "C06:reload-differs", "the reopened engine does not hold the database that was closed (after the continuation)", "catalog "+firstDiff(catA2, catB0)
		return
	}
	// the rebuilt index ENTRIES equal the original ones modulo the renumbering
	// of the document objects (Coq: ReloadProofs.cat_equiv / C06_load_equivalent)
	if entB := entriesText(eB.Catalog()); entA != entB {
		res.signature, res.what, res.diff = "C06:reload-entries-differ", "the indexes rebuilt on load do not hold the entries the stored database had", "entries "+firstDiff(entA, entB)
		return
	}
	if entA2 != entB0 {
		res.signature, res.what, res.diff = "C06:reload-entries-differ", "the indexes rebuilt on load do not hold the entries the stored database had (after the continuation)", "entries "+firstDiff(entA2, entB0)
		return
	}
	var outB []string
	for _, p := range probes {
		outB = append(outB, applyHop(cB, p))
	}
	outB = append(outB, "expire:"+expirePass(eB))
	for i := range outA {
		res.labels = append(res.labels, "probe:"+strings.SplitN(outA[i], ":", 2)[0])
		if outA[i] != outB[i] {
			res.signature, res.what = "C06:continuation-differs", "the same call is answered differently after the reload"
			what := "expire pass"
			if i < len(probes) {
				what = encHop(probes[i])
			}
			res.diff = fmt.Sprintf("%s: before reload %s, after reload %s", what, outA[i], outB[i])
			return
		}
	}
	if catB2c := catalogText(eB.Catalog(), true); catA2c != catB2c {
		res.signature, res.what, res.diff = "C06:continuation-differs", "continuing the history gives a different database after the reload", "catalog "+firstDiff(catA2c, catB2c)
		return
	}
	if entB2 := entriesText(eB.Catalog()); entA2 != entB2 {
		res.signature, res.what, res.diff = "C06:continuation-differs", "continuing the history gives different index entries after the reload", "entries "+firstDiff(entA2, entB2)
		return
	}
	return
}

func encHistory(tag string, hs []hop) string {
	var sb strings.Builder
	sb.WriteString("(" + tag)
	for _, h := range hs {
		sb.WriteString(" " + encHop(h))
	}
	sb.WriteString(")")
	return sb.String()
}

func decHistory(c *sx) []hop {
	var hs []hop
	for _, n := range c.list[1:] {
		hs = append(hs, decHop(n))
	}
	return hs
}

// entriesText: every index entry of every namespace of a real catalog (read
// through the VerifEntries hook), each entry rendered through the POSITION of
// the document it points to in the natural order — so that two catalogs whose
// documents are different Go objects compare equal exactly when their entry
// sets are equal modulo that renumbering.  -1 = the entry points to a
// document that is not in the collection.  Namespaces by key, indexes by name,
// entries by (position, key text).
func entriesText(c *lungo.Catalog) string {
	type nsk struct {
		h   lungo.Handle
		key string
	}
	var hs []nsk
	for h := range c.Namespaces {
		hs = append(hs, nsk{h, h[0] + "." + h[1]})
	}
	sort.SliceStable(hs, func(i, j int) bool { return hs[i].key < hs[j].key })
	var sb strings.Builder
	sb.WriteString("(ent")
	for _, k := range hs {
		coll := c.Namespaces[k.h]
		pos := map[bsonkit.Doc]int{}
		for i, d := range coll.Documents.List {
			pos[d] = i
		}
		names := make([]string, 0, len(coll.Indexes))
		for n := range coll.Indexes {
			names = append(names, n)
		}
		sort.Strings(names)
		sb.WriteString(" (" + hx(k.h[0]) + " " + hx(k.h[1]) + " (")
		for i, n := range names {
			if i > 0 {
				sb.WriteString(" ")
			}
			type pe struct {
				p int
				s string
			}
			var es []pe
			for _, e := range coll.Indexes[n].VerifBase().VerifEntries() {
				var ks []string
				for _, kv := range e.Keys {
					ks = append(ks, enc(kv))
				}
				p, ok := pos[e.Doc]
				if !ok {
					p = -1
				}
				es = append(es, pe{p, "(" + strings.Join(ks, " ") + ")"})
			}
			sort.SliceStable(es, func(i, j int) bool {
				if es[i].p != es[j].p {
					return es[i].p < es[j].p
				}
				return es[i].s < es[j].s
			})
			sb.WriteString("(" + hx(n))
			for _, e := range es {
				sb.WriteString(" (" + strconv.Itoa(e.p) + " " + e.s + ")")
			}
			sb.WriteString(")")
		}
		sb.WriteString("))")
	}
	sb.WriteString(")")
	return sb.String()
}

// storeLoad: the real FileStore on a catalog image.
func storeLoad(nss []nsImage, withEntries bool) string {
	cat, err := catalogOf(nss)
	if err != nil {
		return "BADGEN"
	}
	dir := scratchDir()
	defer os.RemoveAll(dir)
	st := lungo.NewFileStore(filepath.Join(dir, "s.bson"), 0o666)
	if err := st.Store(cat); err != nil {
		return "ERR"
	}
	back, err := st.Load()
	if err != nil {
		return "ERR"
	}
	out := "(cat" + sp(encImages(imageOf(back), false)) + ")"
	if withEntries {
		// the index ENTRIES the real BuildCatalog rebuilt (model: Reload.load)
		out += " " + entriesText(back)
	}
	return out
}

// ---------------------------------------------------------------------------

func init() {
	register(&family{
		name: "codec",
		gen: func(r *rng) string {
			codecGenCount++
			codecBig = codecGenCount > codecBigAfter
			defer func() { codecBig = false }()
			switch k := r.intn(20); {
			case k < 9:
				if r.chance(1, 25) {
					return "(enc " + enc(genUnencodable(r)) + ")"
				}
				return "(enc " + enc(genCodecDoc(r, 3)) + ")"
			case k < 15:
				b, err := bson.Marshal(genCodecDoc(r, 3))
				if err != nil {
					panic(err)
				}
				if r.chance(1, 4) {
					b = corrupt(r, b)
				}
				return "(dec x" + hex.EncodeToString(b) + ")"
			default:
				return "(file" + sp(encImages(genFileImage(r), true)) + ")"
			}
		},
		run: func(c *sx) string {
			switch c.list[0].atom {
			case "enc":
				return runEnc(decValue(c.list[1]).(bson.D))
			case "dec":
				return runDec([]byte(unhx(c.list[1].atom)))
			case "file":
				return runFile(decImages(c.list[1:]))
			}
			return "BAD-CASE"
		},
		classify: func(c *sx, obs string) ([]string, bool) {
			tag := c.list[0].atom
			labels := []string{"case:" + tag}
			if strings.HasSuffix(obs, "ERR") {
				labels = append(labels, tag+":ERR")
			} else {
				labels = append(labels, tag+":ok")
			}
			switch tag {
			case "enc":
				var walk func(v interface{})
				walk = func(v interface{}) {
					k := kindOf(v)
					if b, ok := v.(primitive.Binary); ok {
						k = fmt.Sprintf("binary:%d", b.Subtype)
					}
					labels = append(labels, "type:"+k)
					switch x := v.(type) {
					case bson.D:
						for _, e := range x {
							walk(e.Value)
						}
					case bson.A:
						for _, e := range x {
							walk(e)
						}
					}
				}
				d := decValue(c.list[1]).(bson.D)
				for _, e := range d {
					walk(e.Value)
				}
				return labels, len(d) > 0
			case "dec":
				return labels, len(c.list[1].atom) > 11
			default:
				return labels, len(c.list) > 1
			}
		},
	})

	register(&family{
		name: "reload",
		gen: func(r *rng) string {
			// the history runs on a real FileStore-backed engine; its final
			// catalog is the case (the history is kept for the reader)
			hs := genHistory(r, r.chance(1, 12))
			dir := scratchDir()
			defer os.RemoveAll(dir)
			c, e, err := openFile(filepath.Join(dir, "g.bson"))
			if err != nil {
				panic(err)
			}
			for _, h := range hs {
				applyHop(c, h)
			}
			img := imageOf(e.Catalog())
			e.Close()
			// reloadix: the model reloads with the REAL index builder and the
			// rebuilt index entries are compared too; reloadimg: the catalog only
			tag := "reloadix"
			if r.chance(1, 4) {
				tag = "reloadimg"
			}
			return "(" + tag + " (img" + sp(encImages(img, true)) + ") " + encHistory("hist", hs) + ")"
		},
		run: func(c *sx) string {
			return storeLoad(decImages(c.list[1].list[1:]), c.list[0].atom == "reloadix")
		},
		classify: func(c *sx, obs string) ([]string, bool) {
			img := decImages(c.list[1].list[1:])
			labels := []string{fmt.Sprintf("namespaces:%d", len(img)), "case:" + c.list[0].atom}
			docs, idx := 0, 0
			for _, n := range img {
				docs += len(n.docs)
				for _, ix := range n.idx {
					idx++
					l := "index:"
					if ix.unique {
						l += "unique,"
					}
					if ix.partial != nil {
						l += "partial,"
					}
					if ix.expiry > 0 {
						l += "ttl,"
					}
					if len(ix.key) > 1 {
						l += "compound,"
					}
					labels = append(labels, l)
				}
				if n.nilDocs {
					labels = append(labels, "nil-documents")
				}
			}
			if hasDottedDb(img) {
				labels = append(labels, "dotted-db")
			}
			if len(c.list) > 2 {
				for _, h := range c.list[2].list[1:] {
					labels = append(labels, "op:"+h.list[0].atom)
				}
			}
			if obs == "ERR" {
				labels = append(labels, "load:ERR")
			}
			return labels, docs+idx > 0
		},
	})

	register(&family{
		name: "reloadhist",
		gen:  func(r *rng) string { return encHistory("reloadhist", genHistory(r, r.chance(1, 12))) },
		run: func(c *sx) string {
			res := scenario(decHistory(c), newRng(uint64(len(c.list))))
			if res.signature == "" {
				return "OK"
			}
			return "FAIL " + res.signature + " " + res.what + " " + res.diff
		},
	})

	registerOracle(&oracle{prop: "C06", name: "reload-identity", run: oracleC06})
}

// oracleC06: n counts codec round trips; one reload scenario per 100 of them.
func oracleC06(r *rng, n int, st *oracleStats) []oracleFailure {
	st.Rule = "(1) documents from the full value pool: bson.Unmarshal(bson.Marshal(d)) == d for every d the driver API can store (regex options sorted, no empty subtype-2 binary: bsonkit.Transform normalises both on the way in); (2) one history per 100 round trips of 3–24 driver calls (insert/update/replace/delete with all value types, indexes unique × partial × TTL incl. 0 × compound × custom name, drops, 3 databases × 4 collections) on a FileStore engine, Close, Open on the same file: identical catalog (documents in natural order, index definitions, oplog), identical API dump (Find, ListIndexes, local.oplog), identical index entries modulo the renumbering of the document objects (every entry rendered through the position of the document it points to), identical replies to duplicate probes and a TTL pass afterwards and identical entries after them; non-trivial = the reloaded catalog holds at least one document and one secondary index"
	var fails []oracleFailure
	seenSig := map[string]int{}
	fail := func(f oracleFailure) {
		seenSig[f.Signature]++
		if seenSig[f.Signature] <= 3 {
			fails = append(fails, f)
		}
	}
	scenarios := n / 100
	if scenarios < 1 {
		scenarios = 1
	}
	for i := 0; i < n; i++ {
		codecBig = true
		d := normalise(genCodecDoc(r, 3)).(bson.D)
		codecBig = false
		st.Evaluations++
		b, err := bson.Marshal(d)
		if err != nil {
			fail(oracleFailure{Property: "C06", Signature: "C06:marshal-error", What: "a storable document does not marshal", Family: "codec", Case: "(enc " + enc(d) + ")"})
			continue
		}
		var back bson.D
		if err := bson.Unmarshal(b, &back); err != nil || safeEnc(orEmpty(back)) != enc(d) {
			fail(oracleFailure{Property: "C06", Signature: "C06:codec-round-trip", What: "bson.Unmarshal(bson.Marshal(d)) differs from d", Family: "codec", Case: "(dec x" + hex.EncodeToString(b) + ")", Detail: enc(d)})
		}
		if len(d) > 0 {
			st.Nontrivial++
		}
		st.Dist["roundtrip"]++
	}
	for i := 0; i < scenarios; i++ {
		hs := genHistory(r, i%10 == 9)
		text := encHistory("reloadhist", hs)
		res := scenario(hs, newRng(uint64(len(hs)+1)))
		st.Evaluations++
		for _, l := range res.labels {
			st.Dist[l]++
		}
		docs, idx := 0, 0
		for _, ns := range res.imageA {
			if ns.db != "local" {
				docs += len(ns.docs)
				for _, ix := range ns.idx {
					if ix.name != "_id_" {
						idx++
					}
				}
			}
		}
		if docs > 0 && idx > 0 {
			st.Nontrivial++
		}
		if len(st.Samples) < 2 {
			st.Samples = append(st.Samples, text)
		}
		if res.signature != "" {
			st.Dist["fail:"+res.signature]++
			fail(oracleFailure{Property: "C06", Signature: res.signature, What: res.what, Family: "reloadhist", Case: text, Detail: res.diff})
		} else {
			st.Dist["scenario:identical"]++
		}
	}
	// retention: the last commit before Close trims the change log (small size
	// limits, events older than the current second); the reloaded change log is
	// the trimmed one that was visible, not the one the transaction started with
	for k := 0; k < 1+n/20000 && k < 4; k++ {
		st.Dist["retention-scenarios"]++
		if sig, what := reloadRetentionScenario(r); sig != "" {
			fail(oracleFailure{Property: "C06", Signature: sig, What: what})
		}
	}
	return fails
}

func reloadRetentionScenario(r *rng) (string, string) {
	dir, err := os.MkdirTemp("", "verif-reload-ret-")
	if err != nil {
		return "", ""
	}
	defer os.RemoveAll(dir)
	path := filepath.Join(dir, "store.bson")
	opts := lungo.Options{Store: lungo.NewFileStore(path, 0666), MinOplogSize: 1 + r.intn(2), MaxOplogSize: 3, MinOplogAge: time.Nanosecond, MaxOplogAge: time.Nanosecond}
	engine, err := lungo.CreateEngine(opts)
	if err != nil {
		return "C06:reload-error", "CreateEngine failed: " + err.Error()
	}
	coll := lungo.NewClient(engine).Database("db").Collection("c")
	ctx := context.Background()
	for k := 0; k < 6+r.intn(4); k++ {
		coll.InsertOne(ctx, bson.D{{Key: "_id", Value: int32(k)}})
	}
	time.Sleep(1100 * time.Millisecond)
	coll.UpdateOne(ctx, bson.D{{Key: "_id", Value: int32(0)}}, bson.D{{Key: "$set", Value: bson.D{{Key: "v", Value: int32(1)}}}})
	visible := fsDumpFull(engine.Catalog())
	events := 0
	if o := engine.Catalog().Namespaces[lungo.Oplog]; o != nil {
		events = len(o.Documents.List)
	}
	engine.Close()
	opts.Store = lungo.NewFileStore(path, 0666)
	engine2, err := lungo.CreateEngine(opts)
	if err != nil {
		return "C06:reload-error", "reopening the store failed: " + err.Error()
	}
	defer engine2.Close()
	if events > 4 {
		return "", "" // nothing was trimmed (clock did not advance): scenario without force
	}
	if reloaded := fsDumpFull(engine2.Catalog()); reloaded != visible {
		return "C06:reload-differs-after-trim", fmt.Sprintf("after a commit that trimmed the change log (%d events visible) the reloaded database differs from the visible one", events)
	}
	return "", ""
}

// normalise maps a generated value to what the driver API stores: lungo passes
// every document through bsonkit.Transform (Marshal + Unmarshal) on the way in.
func normalise(v interface{}) interface{} {
	switch x := v.(type) {
	case bson.D:
		out := make(bson.D, len(x))
		for i, e := range x {
			out[i] = bson.E{Key: e.Key, Value: normalise(e.Value)}
		}
		return out
	case bson.A:
		out := make(bson.A, len(x))
		for i, e := range x {
			out[i] = normalise(e)
		}
		return out
	case primitive.Regex:
		o := []byte(x.Options)
		sort.Slice(o, func(i, j int) bool { return o[i] < o[j] })
		return primitive.Regex{Pattern: x.Pattern, Options: string(o)}
	case primitive.Binary:
		if x.Subtype == 2 && len(x.Data) == 0 {
			return primitive.Binary{Subtype: 2, Data: []byte{0, 0, 0, 0}}
		}
		if x.Data == nil {
			return primitive.Binary{Subtype: x.Subtype, Data: []byte{}}
		}
	}
	return v
}

var _ = bytes.Equal
