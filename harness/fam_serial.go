package main

// fam_serial.go — family `serial` (C04): free-running goroutines (no hooks)
// issue read-modify-writes (FindOneAndUpdate {$inc}), multi-document
// transfers in session transactions and plain reads against one engine.
// Every call records a global tick at invocation and at return; the commit
// order is read from local.oplog (every write tags its documents with its
// operation id).  The recorded history goes into the case text; the Coq side
// (Model/SerialRun.v) replays the writes one at a time in log order and
// requires every returned value, the final contents, the real-time order and
// a commit prefix for every read.  The observable of the Go side is the
// verdict of the model-free checks below (oracle C04).
//
// Accounts 0..k/2-1 ("counters") only receive $inc 1, accounts k/2..k-1
// ("balances", initially 100) only take part in transfers.

import (
	"errors"
	"context"
	"fmt"
	"sort"
	"strconv"
	"strings"
	"sync"
	"sync/atomic"
	"time"

	"go.mongodb.org/mongo-driver/bson"
	"go.mongodb.org/mongo-driver/mongo/options"

	"github.com/256dpi/lungo"
	"github.com/256dpi/lungo/bsonkit"
)

type sop struct {
	kind     string // inc xfer read
	g        int
	id       int64 // operation id (tag)
	i, j     int
	amt      int64
	inv, ret int64
	old      int64   // inc: value before
	vi, vj   int64   // xfer: values read inside the transaction
	vals     []int64 // read
	pos      int     // position in the change log (writes), -1 = not found
	err      string
	claimT   int64 // > 0: this increment was a claim (sorted find-one-and-update of the first counter below claimT)
}

type shistory struct {
	k      int
	init   []int64
	ops    []*sop
	final  []int64
	writes []*sop // in log order
}

func runSerial(seed uint64, g, n, k int) (*shistory, string) {
	r := newRng(seed)
	client, engine, err := lungo.Open(nil, lungo.Options{Store: lungo.NewMemoryStore(), ExpireInterval: time.Hour,
		MinOplogSize: 1 << 20, MaxOplogSize: 1 << 21})
	if err != nil {
		return nil, "OPEN-ERROR"
	}
	defer engine.Close()
	coll := client.Database("bank").Collection("acc")
	h := &shistory{k: k}
	for i := 0; i < k; i++ {
		v := int64(0)
		if i >= k/2 {
			v = 100
		}
		h.init = append(h.init, v)
		if _, err := coll.InsertOne(nil, bson.M{"_id": int32(i), "v": v, "op": int64(0)}); err != nil {
			return nil, "SETUP-ERROR"
		}
	}
	var tick, opid atomic.Int64
	// scripts drawn up front from the PRNG
	scripts := make([][]*sop, g)
	for a := 0; a < g; a++ {
		for x := 0; x < n; x++ {
			o := &sop{g: a, pos: -1}
			switch c := r.intn(10); {
			case c < 1 || c < 2 && a%2 == 0:
				// claim: increment the FIRST counter (in _id order) whose value is below a
				// threshold — a sorted find-one-and-update whose filter depends on what
				// concurrent writers change
				o.kind, o.amt = "claim", pick(r, []int64{2, 3, 5, 8, 13, 1000})
			case c < 5:
				o.kind, o.i = "inc", r.intn(k/2)
			case c < 8:
				o.kind = "xfer"
				o.i = k/2 + r.intn(k-k/2)
				o.j = k/2 + r.intn(k-k/2)
				if o.j == o.i {
					o.j = k/2 + (o.i-k/2+1)%(k-k/2)
				}
				o.amt = int64(1 + r.intn(5))
			default:
				o.kind = "read"
			}
			scripts[a] = append(scripts[a], o)
		}
	}
	type accDoc struct {
		ID int32 `bson:"_id"`
		V  int64 `bson:"v"`
	}
	var wg sync.WaitGroup
	start := make(chan struct{})
	for a := 0; a < g; a++ {
		wg.Add(1)
		go func(ops []*sop) {
			defer wg.Done()
			<-start
			for _, o := range ops {
				func() {
					defer func() {
						if p := recover(); p != nil {
							o.err = fmt.Sprint("panic: ", p)
							o.ret = tick.Add(1)
						}
					}()
					o.id = opid.Add(1)
					o.inv = tick.Add(1)
					switch o.kind {
					case "inc":
						var d accDoc
						err := coll.FindOneAndUpdate(nil, bson.M{"_id": int32(o.i)},
							bson.M{"$inc": bson.M{"v": int64(1)}, "$set": bson.M{"op": o.id}}).Decode(&d)
						if err != nil {
							o.err = err.Error()
						}
						o.old = d.V
					case "claim":
						var d accDoc
						err := coll.FindOneAndUpdate(nil,
							bson.D{{Key: "_id", Value: bson.D{{Key: "$lt", Value: int32(k / 2)}}}, {Key: "v", Value: bson.D{{Key: "$lt", Value: o.amt}}}},
							bson.M{"$inc": bson.M{"v": int64(1)}, "$set": bson.M{"op": o.id}},
							options.FindOneAndUpdate().SetSort(bson.D{{Key: "_id", Value: int32(1)}})).Decode(&d)
						switch {
						case errors.Is(err, lungo.ErrNoDocuments):
							o.kind = "claimnone"
						case err != nil:
							o.err = err.Error()
						default:
							// from here on it is an increment of the counter it returned
							o.kind, o.claimT, o.i, o.old = "inc", o.amt, int(d.ID), d.V
						}
					case "xfer":
						sess, err := client.StartSession()
						if err != nil {
							o.err = err.Error()
							break
						}
						_, err = sess.WithTransaction(context.Background(), func(sc lungo.ISessionContext) (interface{}, error) {
							var a, b accDoc
							if err := coll.FindOne(sc, bson.M{"_id": int32(o.i)}).Decode(&a); err != nil {
								return nil, err
							}
							if err := coll.FindOne(sc, bson.M{"_id": int32(o.j)}).Decode(&b); err != nil {
								return nil, err
							}
							o.vi, o.vj = a.V, b.V
							if _, err := coll.UpdateOne(sc, bson.M{"_id": int32(o.i)}, bson.M{"$inc": bson.M{"v": -o.amt}, "$set": bson.M{"op": o.id}}); err != nil {
								return nil, err
							}
							if _, err := coll.UpdateOne(sc, bson.M{"_id": int32(o.j)}, bson.M{"$inc": bson.M{"v": o.amt}, "$set": bson.M{"op": o.id}}); err != nil {
								return nil, err
							}
							return nil, nil
						})
						sess.EndSession(nil)
						if err != nil {
							o.err = err.Error()
						}
					case "read":
						cur, err := coll.Find(nil, bson.M{}, options.Find().SetSort(bson.M{"_id": 1}))
						if err != nil {
							o.err = err.Error()
							break
						}
						var docs []accDoc
						if err := cur.All(nil, &docs); err != nil {
							o.err = err.Error()
							break
						}
						for _, d := range docs {
							o.vals = append(o.vals, d.V)
						}
					}
					o.ret = tick.Add(1)
				}()
			}
		}(scripts[a])
	}
	close(start)
	done := make(chan struct{})
	go func() { wg.Wait(); close(done) }()
	select {
	case <-done:
	case <-time.After(30 * time.Second):
		return nil, "HANG"
	}
	for _, s := range scripts {
		h.ops = append(h.ops, s...)
	}
	// final contents and commit order
	txn, err := engine.Begin(nil, false)
	if err != nil {
		return nil, "BEGIN-ERROR"
	}
	cat := txn.Catalog()
	h.final = make([]int64, k)
	if ns := cat.Namespaces[lungo.Handle{"bank", "acc"}]; ns != nil {
		for _, d := range ns.Documents.List {
			id, _ := bsonkit.Get(d, "_id").(int32)
			v, _ := bsonkit.Get(d, "v").(int64)
			if int(id) < k {
				h.final[id] = v
			}
		}
	}
	byID := map[int64]*sop{}
	for _, o := range h.ops {
		byID[o.id] = o
	}
	for _, ev := range cat.Namespaces[lungo.Oplog].Documents.List {
		if t, _ := bsonkit.Get(ev, "operationType").(string); t != "update" {
			continue
		}
		id, _ := bsonkit.Get(ev, "fullDocument.op").(int64)
		o := byID[id]
		if o == nil {
			return h, fmt.Sprintf("UNKNOWN-LOG-ENTRY op=%d", id)
		}
		if o.pos < 0 {
			o.pos = len(h.writes)
			h.writes = append(h.writes, o)
		}
	}
	return h, serialModelFree(h)
}

// serialModelFree: the model-free part of C04 (no reference model involved).
func serialModelFree(h *shistory) string {
	k := h.k
	for _, o := range h.ops {
		if o.err != "" {
			return "CALL-ERROR " + o.kind + ": " + strings.ReplaceAll(o.err, " ", "_")
		}
		if o.kind == "inc" && o.claimT > 0 && (o.old >= o.claimT || o.i < 0 || o.i >= k/2) {
			return fmt.Sprintf("CLAIM-FILTER-VIOLATED a claim below %d returned counter %d with value %d", o.claimT, o.i, o.old)
		}
		if o.kind != "read" && o.kind != "claimnone" && o.pos < 0 {
			return fmt.Sprintf("MISSING-COMMIT %s op=%d", o.kind, o.id)
		}
	}
	// no lost update: every counter equals the number of its increments, and
	// the values returned by the increments of one counter are 0..n-1, each once
	cnt := make([]int64, k)
	seen := make([]map[int64]bool, k)
	for i := range seen {
		seen[i] = map[int64]bool{}
	}
	for _, o := range h.ops {
		if o.kind == "inc" {
			cnt[o.i]++
			if seen[o.i][o.old] {
				return fmt.Sprintf("LOST-UPDATE two increments of counter %d both returned %d", o.i, o.old)
			}
			seen[o.i][o.old] = true
		}
	}
	for i := 0; i < k/2; i++ {
		if h.final[i] != cnt[i] {
			return fmt.Sprintf("LOST-UPDATE counter %d is %d after %d increments", i, h.final[i], cnt[i])
		}
		for v := int64(0); v < cnt[i]; v++ {
			if !seen[i][v] {
				return fmt.Sprintf("LOST-UPDATE counter %d: no increment returned %d", i, v)
			}
		}
	}
	// conservation of transferred amounts, at the end and in every read
	total := int64(0)
	for i := k / 2; i < k; i++ {
		total += h.init[i]
	}
	sum := func(v []int64) int64 {
		s := int64(0)
		for i := k / 2; i < k && i < len(v); i++ {
			s += v[i]
		}
		return s
	}
	if sum(h.final) != total {
		return fmt.Sprintf("NOT-CONSERVED final balances sum to %d, not %d", sum(h.final), total)
	}
	net := make([]int64, k)
	for _, o := range h.ops {
		if o.kind == "xfer" {
			net[o.i] -= o.amt
			net[o.j] += o.amt
		}
	}
	for i := k / 2; i < k; i++ {
		if h.final[i] != h.init[i]+net[i] {
			return fmt.Sprintf("LOST-UPDATE balance %d is %d, expected %d", i, h.final[i], h.init[i]+net[i])
		}
	}
	for _, o := range h.ops {
		if o.kind == "read" {
			if len(o.vals) != k {
				return fmt.Sprintf("TORN-READ %d documents", len(o.vals))
			}
			if sum(o.vals) != total {
				return fmt.Sprintf("TORN-READ balances sum to %d, not %d", sum(o.vals), total)
			}
		}
	}
	// real time, per counter: an increment that returned before another was
	// issued returned the smaller value; reads are bracketed by the increments
	// that finished before / started after them; later reads never go back
	var reads []*sop
	for _, o := range h.ops {
		if o.kind == "read" {
			reads = append(reads, o)
		}
	}
	for _, a := range h.ops {
		if a.kind != "inc" {
			continue
		}
		for _, b := range h.ops {
			if b.kind == "inc" && b.i == a.i && a.ret < b.inv && !(a.old < b.old) {
				return fmt.Sprintf("REAL-TIME increment of counter %d returning %d finished before the one returning %d was issued", a.i, a.old, b.old)
			}
		}
		for _, r := range reads {
			if a.ret < r.inv && r.vals[a.i] < a.old+1 {
				return fmt.Sprintf("STALE-READ counter %d read as %d after an increment to %d had returned", a.i, r.vals[a.i], a.old+1)
			}
			if r.ret < a.inv && r.vals[a.i] > a.old {
				return fmt.Sprintf("FUTURE-READ counter %d read as %d before the increment from %d was issued", a.i, r.vals[a.i], a.old)
			}
		}
	}
	for _, r1 := range reads {
		for _, r2 := range reads {
			if r1.ret < r2.inv {
				for i := 0; i < k/2; i++ {
					if r2.vals[i] < r1.vals[i] {
						return fmt.Sprintf("REAL-TIME a later read saw counter %d go back from %d to %d", i, r1.vals[i], r2.vals[i])
					}
				}
			}
		}
	}
	// the commit order respects real time (writes)
	maxInv, maxInvOp := int64(-1), (*sop)(nil)
	for _, w := range h.writes {
		if maxInv > w.ret {
			return fmt.Sprintf("REAL-TIME op %d is logged after op %d although it returned before that one was issued", w.id, maxInvOp.id)
		}
		if w.inv > maxInv {
			maxInv, maxInvOp = w.inv, w
		}
	}
	return "ok"
}

func (h *shistory) text() string {
	var sb strings.Builder
	ints := func(v []int64) string {
		var p []string
		for _, x := range v {
			p = append(p, strconv.FormatInt(x, 10))
		}
		return strings.Join(p, " ")
	}
	fmt.Fprintf(&sb, "(k %d) (init %s) (writes", h.k, ints(h.init))
	for _, w := range h.writes {
		if w.kind == "inc" && w.claimT > 0 {
			fmt.Fprintf(&sb, " (claim %d %d %d %d %d)", w.claimT, w.i, w.old, w.inv, w.ret)
		} else if w.kind == "inc" {
			fmt.Fprintf(&sb, " (inc %d 1 %d %d %d)", w.i, w.old, w.inv, w.ret)
		} else {
			fmt.Fprintf(&sb, " (xfer %d %d %d %d %d %d %d)", w.i, w.j, w.amt, w.vi, w.vj, w.inv, w.ret)
		}
	}
	sb.WriteString(") (reads")
	var reads []*sop
	for _, o := range h.ops {
		if o.kind == "read" && len(o.vals) == h.k {
			reads = append(reads, o)
		}
	}
	sort.Slice(reads, func(i, j int) bool { return reads[i].inv < reads[j].inv })
	for _, r := range reads {
		fmt.Fprintf(&sb, " (read %d %d %s)", r.inv, r.ret, ints(r.vals))
	}
	fmt.Fprintf(&sb, ") (final %s)", ints(h.final))
	return sb.String()
}

const serialPackSep = " ==> "

func serialParams(c *sx) (seed uint64, g, n, k int) {
	g, n, k = 8, 100, 6
	for _, p := range c.list[1:] {
		if !p.isL || len(p.list) < 2 {
			continue
		}
		v, _ := strconv.ParseUint(p.list[1].atom, 10, 64)
		switch p.list[0].atom {
		case "seed":
			seed = v
		case "g":
			g = int(v)
		case "n":
			n = int(v)
		case "k":
			k = int(v)
		}
	}
	if k < 4 {
		k = 4
	}
	return
}

func serialPacked(c *sx) string {
	seed, g, n, k := serialParams(c)
	h, verdict := runSerial(seed, g, n, k)
	if h == nil {
		return verdict
	}
	return fmt.Sprintf("(serial (seed %d) (g %d) (n %d) %s)", seed, g, n, h.text()) + serialPackSep + verdict
}

func init() {
	register(&family{
		name: "serial",
		gen: func(r *rng) string {
			g := 3 + r.intn(6)
			n := 60 + r.intn(141)
			if r.chance(1, 3) {
				g, n = 3+r.intn(2), 15+r.intn(20) // short histories (also the ones evaluated inside Coq)
			}
			k := 2 * (2 + r.intn(2))
			return fmt.Sprintf("(serial (seed %d) (g %d) (n %d) (k %d))", r.u64()%1000000007, g, n, k)
		},
		// in a worker process: a fatal runtime error of the engine under test must not take the harness down
		run: func(c *sx) string { return engineViaWorker(showSx(c)) },
		rewrite: func(c *sx, packed string) (string, string) {
			i := strings.Index(packed, serialPackSep)
			if i < 0 {
				return "", packed
			}
			return packed[:i], packed[i+len(serialPackSep):]
		},
		classify: func(c *sx, obs string) ([]string, bool) {
			labels := []string{"verdict:" + strings.SplitN(obs, " ", 2)[0]}
			nw, nr := 0, 0
			for _, p := range c.list[1:] {
				if p.isL && len(p.list) > 0 {
					switch p.list[0].atom {
					case "writes":
						nw = len(p.list) - 1
					case "reads":
						nr = len(p.list) - 1
					case "g":
						labels = append(labels, "goroutines:"+p.list[1].atom)
					}
				}
			}
			labels = append(labels, fmt.Sprintf("writes:%d", 100*(nw/100)), fmt.Sprintf("reads:%d", 50*(nr/50)))
			return labels, nw > 1
		},
	})
}
