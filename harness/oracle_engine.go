package main

// oracle_engine.go — model-free oracles of C16 and C04 on the real code.
//
// C16:  (1) the two-goroutine schedule of the Engine.mutex / Session.mutex
//           inversion, driven deterministically through the verif hooks, in
//           its variants (Commit/Abort/End × Begin/useTransaction);
//       (2) controller-scheduled random scenarios (the generator of family
//           `engine`) judged only by the epilogue: nobody hangs, a probe write
//           proceeds, Close returns, later calls return ErrEngineClosed, the
//           goroutine count is back at the baseline;
//       (3) free-running stress with shared sessions, cancelled contexts,
//           failing / panicking stores and callbacks, followed by the same epilogue.
// C04:  free-running histories judged by serialModelFree (fam_serial.go).

import (
	"context"
	"encoding/json"
	"fmt"
	"runtime"
	"strings"
	"sync"
	"time"

	"github.com/256dpi/lungo"
)

type c16Detail struct {
	Kind     string   `json:"kind"` // schedule | scenario | stress
	Variant  string   `json:"variant,omitempty"`
	Case     string   `json:"case,omitempty"`
	Seed     uint64   `json:"seed,omitempty"`
	Schedule []string `json:"schedule,omitempty"`
	Verdict  string   `json:"verdict"`
}

// lockOrderSchedule runs: A = sess.<closer>() parked right after taking
// Session.mutex; B = a write Begin whose context carries the session; then A
// is released.  Returns "ok" or a description of who is stuck.
func lockOrderSchedule(closer, opener string) (string, []string) {
	engineScenarioMu.Lock()
	defer engineScenarioMu.Unlock()
	client, engine, err := lungo.Open(nil, lungo.Options{Store: lungo.NewMemoryStore(), ExpireInterval: time.Hour})
	if err != nil {
		return "OPEN-ERROR", nil
	}
	s, _ := client.StartSession()
	sess := s.(*lungo.Session)
	if err := sess.StartTransaction(); err != nil {
		return "SETUP-ERROR", nil
	}
	point := map[string]string{"commit": "session.commit.locked", "abort": "session.abort.locked", "end": "session.end.locked"}[closer]
	park := make(chan struct{})
	reached := make(chan struct{}, 1)
	var aGid uint64
	var mu sync.Mutex
	lungo.SetVerifHook(func(name string, info lungo.VerifInfo) {
		mu.Lock()
		mine := info.Goroutine == aGid && info.Engine == engine
		mu.Unlock()
		if mine && name == point {
			reached <- struct{}{}
			<-park
		}
	})
	defer lungo.SetVerifHook(nil)
	schedule := []string{
		"main: sess.StartTransaction() returns (the session holds the write transaction)",
		"A: sess." + map[string]string{"commit": "CommitTransaction", "abort": "AbortTransaction", "end": "EndSession"}[closer] + "(): takes Session.mutex, parked at hook " + point,
	}
	aDone, bDone := make(chan struct{}), make(chan struct{})
	var bTxn *lungo.Transaction
	go func() {
		defer func() { _ = recover() }()
		mu.Lock()
		aGid = lungo.VerifGoroutineID()
		mu.Unlock()
		defer close(aDone)
		switch closer {
		case "commit":
			_ = sess.CommitTransaction(nil)
		case "abort":
			_ = sess.AbortTransaction(nil)
		default:
			sess.EndSession(nil)
		}
	}()
	select {
	case <-reached:
	case <-time.After(5 * time.Second):
		return "SETUP-HANG", schedule
	}
	bGid := make(chan uint64, 1)
	go func() {
		defer func() { _ = recover() }()
		defer close(bDone)
		bGid <- lungo.VerifGoroutineID()
		ctx := lungo.VerifSessionContext(nil, sess)
		if opener == "begin" {
			bTxn, _ = engine.Begin(ctx, true)
		} else {
			_, _ = lungo.VerifUseTransaction(ctx, engine, true, func(t *lungo.Transaction) (interface{}, error) { return nil, nil })
		}
	}()
	gb := <-bGid
	// wait until B cannot run any more (blocked on a mutex / the token) or has finished
	deadline := time.Now().Add(5 * time.Second)
	for {
		st, ok := goroutineStates()[gb]
		if !ok || (!goroutineActive(st) && st != "chan send") {
			break
		}
		if time.Now().After(deadline) {
			break
		}
		runtime.Gosched()
	}
	if opener == "begin" {
		schedule = append(schedule, "B: engine.Begin(ctx carrying sess, true): runs until it blocks")
	} else {
		schedule = append(schedule, "B: useTransaction(ctx carrying sess, engine, true, fn): runs until it blocks")
	}
	schedule = append(schedule, "A: released from the hook: calls engine.Commit/Abort, needs Engine.mutex")
	close(park)
	stuck := []string{}
	select {
	case <-aDone:
	case <-time.After(3 * time.Second):
		stuck = append(stuck, "A")
	}
	select {
	case <-bDone:
	case <-time.After(3 * time.Second):
		stuck = append(stuck, "B")
	}
	if len(stuck) > 0 {
		return "DEADLOCK " + strings.Join(stuck, "+") + " never return", schedule
	}
	if bTxn != nil {
		if _, ok := timed(2*time.Second, func() { engine.Abort(bTxn) }); !ok {
			return "HANG Abort of B's transaction", schedule
		}
		if p := takeTimedPanic(); p != "" {
			return "PANIC in Abort: " + p, schedule
		}
	}
	lungo.SetVerifHook(nil)
	v, _ := engineEpilogue(engine, runtime.NumGoroutine()-1)
	return v, schedule
}

// engineStress: free-running goroutines (no hooks), shared sessions, faults.
func engineStress(seed uint64, g, n int) string {
	engineScenarioMu.Lock()
	defer engineScenarioMu.Unlock()
	base := runtime.NumGoroutine()
	store := &faultStore{inner: lungo.NewMemoryStore()}
	client, engine, err := lungo.Open(nil, lungo.Options{Store: store, ExpireInterval: 2 * time.Millisecond})
	if err != nil {
		return "OPEN-ERROR"
	}
	nsess := 2
	var sessMu sync.Mutex
	sess := make([]*lungo.Session, nsess)
	for i := range sess {
		s, _ := client.StartSession()
		sess[i] = s.(*lungo.Session)
	}
	getSess := func(i int) *lungo.Session {
		sessMu.Lock()
		defer sessMu.Unlock()
		return sess[i]
	}
	var wg sync.WaitGroup
	for a := 0; a < g; a++ {
		wg.Add(1)
		r := newRng(seed*1000003 + uint64(a))
		go func() {
			defer wg.Done()
			ctx, cancel := context.WithCancel(context.Background())
			defer cancel()
			act := &eactor{ctx: ctx, cancel: cancel}
			ct := &econtroller{engine: engine, client: client, store: store}
			for x := 0; x < n; x++ {
				ct.sess = []*lungo.Session{getSess(0), getSess(1)}
				var script []eop
				si := r.intn(nsess)
				cb := pick(r, []string{"ok", "ok", "err", "panic"})
				switch r.intn(10) {
				case 0:
					script = []eop{{kind: "begin", lock: true, cs: si - r.intn(2)*(si+1)}, {kind: "write", w: 1}, {kind: "commit"}, {kind: "abort"}}
				case 1:
					script = []eop{{kind: "sstart", s: si}, {kind: "swrite", s: si, w: 2}, {kind: pick(r, []string{"scommit", "sabort"}), s: si}, {kind: "sabort", s: si}}
				case 2:
					script = []eop{{kind: "wtx", s: si, w: 3, cb: cb}}
				case 3:
					script = []eop{{kind: "use", cs: si, w: 4, cb: cb}}
				case 4:
					script = []eop{{kind: "use", cs: -1, w: 5, cb: cb}}
				case 5:
					script = []eop{{kind: "scommit", s: si}}
				case 6:
					script = []eop{{kind: "begin", lock: false, cs: -1}, {kind: "abort"}, {kind: "watch"}, {kind: "unwatch"}}
				case 7:
					if r.chance(1, 3) {
						store.failNext.Store(true)
					} else if r.chance(1, 2) {
						store.panicNext.Store(true)
					}
					script = []eop{{kind: "use", cs: -1, w: 6, cb: "ok"}}
				case 8:
					// cancel the context of a begin that may be waiting
					c2, cancel2 := context.WithTimeout(ctx, time.Duration(r.intn(200))*time.Microsecond)
					act.ctx = c2
					script = []eop{{kind: "begin", lock: true, cs: -1}, {kind: "write", w: 7}, {kind: "commit"}, {kind: "abort"}}
					for _, o := range script {
						ct.exec(act, o)
					}
					cancel2()
					act.ctx = ctx
					script = nil
				default:
					// end a session and replace it (a late start on the ended session must abort)
					if r.chance(1, 4) {
						s, _ := client.StartSession()
						sessMu.Lock()
						old := sess[si]
						sess[si] = s.(*lungo.Session)
						sessMu.Unlock()
						old.EndSession(nil)
					} else {
						script = []eop{{kind: "sabort", s: si}}
					}
				}
				for _, o := range script {
					ct.exec(act, o)
				}
				if act.cur != nil {
					ct.exec(act, eop{kind: "abort"})
				}
			}
		}()
	}
	done := make(chan struct{})
	go func() { wg.Wait(); close(done) }()
	select {
	case <-done:
	case <-time.After(10 * time.Second):
		return "HANG goroutines stuck in free-running stress"
	}
	for i := 0; i < nsess; i++ {
		getSess(i).EndSession(nil)
	}
	v, _ := engineEpilogueOpt(engine, base, false) // the expiry goroutine (2ms) may be inside a write
	return v
}

func c16Signature(verdict string) string {
	w := strings.SplitN(verdict, " ", 2)[0]
	return "c16:" + strings.ToLower(w)
}

func oracleC16(r *rng, n int, st *oracleStats) []oracleFailure {
	st.Rule = "the Engine.mutex/Session.mutex schedule in 6 variants (hook-driven); n controller-scheduled scenarios of the engine generator with one injected fault, judged by the epilogue (no hang, probe write proceeds, Close returns, later calls return ErrEngineClosed, goroutines back at the baseline); n/25 free-running stress rounds of 8 goroutines x 150 operations with shared sessions and faults; non-trivial = at least two actors contended"
	var fails []oracleFailure
	add := func(d c16Detail, what string) {
		if len(fails) < 10 {
			fails = append(fails, oracleFailure{Property: "C16", Signature: c16Signature(d.Verdict), What: what, Detail: d})
		}
	}
	for _, closer := range []string{"commit", "abort", "end"} {
		for _, opener := range []string{"begin", "use"} {
			v, sched := lockOrderSchedule(closer, opener)
			st.Evaluations++
			st.Nontrivial++
			st.Dist["schedule:"+strings.SplitN(v, " ", 2)[0]]++
			if len(st.Samples) < 2 {
				st.Samples = append(st.Samples, "schedule "+closer+"/"+opener+" => "+v)
			}
			if v != "ok" {
				add(c16Detail{Kind: "schedule", Variant: closer + "/" + opener, Schedule: sched, Verdict: v},
					"two goroutines sharing one session deadlock: Session."+closer+" holds Session.mutex and needs Engine.mutex while Engine.Begin holds Engine.mutex and needs Session.mutex")
			}
		}
	}
	for i := 0; i < n; i++ {
		sc := genEngineScenario(r)
		packed := engineViaWorker(fmt.Sprintf("(engine %s (trace) (res) (seed %d))", sc.header(), r.u64()%1000000007))
		st.Evaluations++
		text, verdict := packed, packed
		if j := strings.Index(packed, enginePackSep); j >= 0 {
			text, verdict = packed[:j], packed[j+len(enginePackSep):]
		}
		if strings.Contains(text, "blk") {
			st.Nontrivial++
		}
		st.Dist["scenario:"+strings.SplitN(verdict, " ", 2)[0]]++
		if len(st.Samples) < 3 {
			st.Samples = append(st.Samples, text[:min(len(text), 300)]+" => "+verdict)
		}
		if verdict != "ok" {
			add(c16Detail{Kind: "scenario", Case: text, Verdict: verdict}, "scheduled scenario ends with "+verdict)
		}
	}
	for i := 0; i < n/25+1; i++ {
		seed := r.u64() % 1000000007
		v := engineViaWorker(fmt.Sprintf("(stress %d 8 150)", seed))
		if j := strings.Index(v, enginePackSep); j >= 0 {
			v = v[j+len(enginePackSep):]
		}
		st.Evaluations++
		st.Nontrivial++
		st.Dist["stress:"+strings.SplitN(v, " ", 2)[0]]++
		if v != "ok" {
			add(c16Detail{Kind: "stress", Seed: seed, Verdict: v}, "free-running stress ends with "+v)
			if strings.HasPrefix(v, "HANG") {
				break // the stuck goroutines hold the scenario lock's engine; further rounds add nothing
			}
		}
	}
	return fails
}

func oracleC04(r *rng, n int, st *oracleStats) []oracleFailure {
	st.Rule = "n free-running histories (3-8 goroutines x 60-200 calls: FindOneAndUpdate $inc, two-document transfers in WithTransaction, Find of all accounts); model-free checks: counters = number of increments and the returned values are 0..n-1 each once (no lost update), balances conserved at the end and in every read (no torn read), per-counter real-time order of increments, reads bracketed by finished / not yet issued increments, later reads never go back, log order respects real time"
	var fails []oracleFailure
	for i := 0; i < n; i++ {
		seed := r.u64() % 1000000007
		g, nn, k := 3+r.intn(6), 60+r.intn(141), 2*(2+r.intn(2))
		packed := engineViaWorker(fmt.Sprintf("(serial (seed %d) (g %d) (n %d) (k %d))", seed, g, nn, k))
		t, v := "", packed
		if j := strings.Index(packed, serialPackSep); j >= 0 {
			t, v = packed[:j], packed[j+len(serialPackSep):]
		}
		st.Evaluations++
		st.Dist["verdict:"+strings.SplitN(v, " ", 2)[0]]++
		if strings.Count(t, "(inc ")+strings.Count(t, "(xfer ") > 1 {
			st.Nontrivial++
		}
		if len(st.Samples) < 2 && t != "" {
			st.Samples = append(st.Samples, t[:min(len(t), 260)]+"...) => "+v)
		}
		if v != "ok" && len(fails) < 10 {
			fails = append(fails, oracleFailure{Property: "C04", Signature: "c04:" + strings.ToLower(strings.SplitN(v, " ", 2)[0]), What: v,
				Family: "serial", Case: fmt.Sprintf("(serial (seed %d) (g %d) (n %d) (k %d))", seed, g, nn, k),
				Detail: map[string]interface{}{"seed": seed, "g": g, "n": nn, "k": k, "verdict": v}})
		}
	}
	return fails
}

func init() {
	registerOracle(&oracle{prop: "C16", name: "engine-liveness", run: oracleC16})
	registerOracle(&oracle{prop: "C04", name: "serial-model-free", run: oracleC04})
	replayers["C16"] = func(f oracleFailure) (string, bool) {
		b, _ := json.Marshal(f.Detail)
		var d c16Detail
		_ = json.Unmarshal(b, &d)
		switch d.Kind {
		case "schedule":
			p := strings.SplitN(d.Variant, "/", 2)
			v, sched := lockOrderSchedule(p[0], p[1])
			return strings.Join(sched, "\n") + "\n=> " + v, v != "ok"
		case "scenario":
			c, err := parseSx(d.Case)
			if err != nil {
				return "bad case", false
			}
			// the recorded decisions are followed as far as they stay possible
			for try := 0; try < 20; try++ {
				packed := engineViaWorker(showSx(c))
				if !strings.HasSuffix(packed, enginePackSep+"ok") {
					return strings.ReplaceAll(packed, " (r ", "\n(r "), true
				}
			}
			return "20 re-executions of the recorded schedule end ok", false
		case "stress":
			for try := 0; try < 5; try++ {
				v := engineViaWorker(fmt.Sprintf("(stress %d 8 150)", d.Seed+uint64(try)))
				if j := strings.Index(v, enginePackSep); j >= 0 {
					v = v[j+len(enginePackSep):]
				}
				if v != "ok" {
					return "stress seed " + fmt.Sprint(d.Seed+uint64(try)) + " => " + v, true
				}
			}
			return "5 stress rounds end ok", false
		}
		return "unknown detail kind", false
	}
	replayers["C04"] = func(f oracleFailure) (string, bool) {
		c, err := parseSx(f.Case)
		if err != nil {
			return "bad case", false
		}
		seed, g, n, k := serialParams(c)
		for try := 0; try < 10; try++ {
			v := engineViaWorker(fmt.Sprintf("(serial (seed %d) (g %d) (n %d) (k %d))", seed+uint64(try), g, n, k))
			if j := strings.Index(v, serialPackSep); j >= 0 {
				v = v[j+len(serialPackSep):]
			}
			if v != "ok" {
				return v, true
			}
		}
		return "10 re-executions end ok", false
	}
}
