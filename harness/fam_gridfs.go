package main

// fam_gridfs.go — family `gridfs`: scripts of upload / bucket / download
// operations on the REAL lungo bucket (memory store, no server), observables
// rendered exactly as coq/Model/Gridfs.v (run_gridfs) renders them; and the
// model-free oracle of C18 (download == upload, scripts vs bytes.Reader, chunk
// layout, nothing left behind after abort / delete).
//
// Case: (gridfs B tracked seed op ...)
//   B        upload buffer size of every upload stream of the case (16777216
//            unless /repo provides the verif constructor VerifOpenUploadStream)
//   tracked  0/1: Bucket.EnableTracking()
//   seed     byte i of the content stream is (seed + 131*i + i/251) mod 256
//   ops      (open f cs) (w off len) (close) (suspend) (resume) (abort)
//            (claim f) (delete f) (cleanup) (dump f)
//            (dopen f) (r n) (seek off whence) (skip n) (dclose)

import (
	"bytes"
	"context"
	"encoding/hex"
	"encoding/json"
	"errors"
	"fmt"
	"io"
	"os"
	"os/exec"
	"runtime/debug"
	"sort"
	"strconv"
	"strings"
	"sync"
	"time"

	"go.mongodb.org/mongo-driver/bson"
	"go.mongodb.org/mongo-driver/bson/primitive"
	"go.mongodb.org/mongo-driver/mongo"
	"go.mongodb.org/mongo-driver/mongo/gridfs"
	"go.mongodb.org/mongo-driver/mongo/options"

	"github.com/256dpi/lungo"
)

const realUploadBuffer = int(gridfs.UploadBufferSize)

// the add-only hook /repo/bucket_verif.go (build tag verif); detected at run
// time so that the harness builds with and without it
type verifOpener interface {
	VerifOpenUploadStream(ctx context.Context, id interface{}, name string, chunkSize, bufSize int) (*lungo.UploadStream, error)
}

func gfsHookAvailable() bool {
	_, ok := interface{}((*lungo.Bucket)(nil)).(verifOpener)
	return ok
}

func gfsCByte(seed, i int64) byte { return byte((seed + 131*i + i/251) % 256) }

func gfsCBytes(seed, off, n int64) []byte {
	out := make([]byte, n)
	for i := int64(0); i < n; i++ {
		out[i] = gfsCByte(seed, off+i)
	}
	return out
}

func gfsFileID(f int64) primitive.ObjectID {
	var o primitive.ObjectID
	o[0] = 0x47
	o[10] = byte(f >> 8)
	o[11] = byte(f)
	return o
}

func gfsErr(err error) string {
	switch {
	case err == nil:
		return "ok"
	case errors.Is(err, gridfs.ErrStreamClosed):
		return "ECLOSED"
	case errors.Is(err, io.EOF):
		return "EOF"
	case errors.Is(err, lungo.ErrNegativePosition):
		return "ENEG"
	case errors.Is(err, lungo.ErrFileNotFound):
		return "ENOTFOUND"
	case errors.Is(err, mongo.ErrNoDocuments):
		return "ENODOC"
	case errors.Is(err, lungo.ErrUploadInProgress):
		return "EINPROGRESS"
	case errors.Is(err, gridfs.ErrWrongIndex):
		return "EWRONGINDEX"
	case errors.Is(err, gridfs.ErrWrongSize):
		return "EWRONGSIZE"
	}
	return "ERR"
}

func gfsChecksum(b []byte) int {
	a := 7
	for _, x := range b {
		a = (a*31 + int(x) + 1) % 65521
	}
	return a
}

// one in-memory lungo with one bucket
type gfsEnv struct {
	ctx     context.Context
	engine  *lungo.Engine
	bucket  *lungo.Bucket
	B       int
	tracked bool
	up      *lungo.UploadStream
	upCS    int
	down    *lungo.DownloadStream
}

// Every production upload stream allocates a 16 MiB buffer that is garbage
// right after the case; with the default GC target (live heap of a few MB)
// each allocation triggers a collection. Collect by memory limit instead.
var gfsGCOnce sync.Once

func gfsTuneGC() {
	gfsGCOnce.Do(func() {
		debug.SetGCPercent(-1)
		debug.SetMemoryLimit(1 << 30)
	})
}

func newGfsEnv(B int, tracked bool) *gfsEnv {
	gfsTuneGC()
	client, engine, err := lungo.Open(nil, lungo.Options{Store: lungo.NewMemoryStore()})
	if err != nil {
		panic(err)
	}
	b := lungo.NewBucket(client.Database("verif"))
	if tracked {
		b.EnableTracking()
	}
	return &gfsEnv{ctx: context.Background(), engine: engine, bucket: b, B: B, tracked: tracked}
}

func (e *gfsEnv) close() { e.engine.Close() }

// open an upload stream with chunk size cs and the case's buffer size
func (e *gfsEnv) openUpload(f int64, cs int) (*lungo.UploadStream, error) {
	if vo, ok := interface{}(e.bucket).(verifOpener); ok {
		return vo.VerifOpenUploadStream(e.ctx, gfsFileID(f), "f"+strconv.FormatInt(f, 10), cs, e.B)
	}
	if e.B != realUploadBuffer {
		return nil, fmt.Errorf("no verif hook: buffer size is fixed")
	}
	return e.bucket.OpenUploadStreamWithID(e.ctx, gfsFileID(f), "f"+strconv.FormatInt(f, 10), options.GridFSUpload().SetChunkSizeBytes(int32(cs)))
}

func (e *gfsEnv) chunksOf(f int64) []lungo.BucketChunk {
	csr, err := e.bucket.GetChunksCollection(e.ctx).Find(e.ctx, bson.M{"files_id": gfsFileID(f)})
	if err != nil {
		panic(err)
	}
	var chunks []lungo.BucketChunk
	if err := csr.All(e.ctx, &chunks); err != nil {
		panic(err)
	}
	sort.SliceStable(chunks, func(i, j int) bool { return chunks[i].Num < chunks[j].Num })
	return chunks
}

func (e *gfsEnv) fileOf(f int64) *lungo.BucketFile {
	var file lungo.BucketFile
	err := e.bucket.GetFilesCollection(e.ctx).FindOne(e.ctx, bson.M{"_id": gfsFileID(f)}).Decode(&file)
	if err != nil {
		return nil
	}
	return &file
}

func (e *gfsEnv) markerOf(f int64) *lungo.BucketMarker {
	var m lungo.BucketMarker
	err := e.bucket.GetMarkersCollection(e.ctx).FindOne(e.ctx, bson.M{"files_id": gfsFileID(f)}).Decode(&m)
	if err != nil {
		return nil
	}
	return &m
}

func (e *gfsEnv) dump(f int64) string {
	var sb strings.Builder
	sb.WriteString("D[")
	for i, c := range e.chunksOf(f) {
		if i > 0 {
			sb.WriteString(",")
		}
		fmt.Fprintf(&sb, "%d:%d:%d", c.Num, len(c.Data), gfsChecksum(c.Data))
	}
	sb.WriteString("|file:")
	if file := e.fileOf(f); file != nil {
		fmt.Fprintf(&sb, "%d:%d", file.Length, file.ChunkSize)
	} else {
		sb.WriteString("-")
	}
	sb.WriteString("|marker:")
	if m := e.markerOf(f); m != nil {
		fmt.Fprintf(&sb, "%s:%d:%d", m.State, m.Length, m.ChunkSize)
	} else {
		sb.WriteString("-")
	}
	sb.WriteString("]")
	return sb.String()
}

// gfsGuarded runs fn with panic capture; with a watchdog when mayHang.
func gfsGuarded(mayHang bool, fn func() string) (res string, stop bool) {
	run := func() (s string, stop bool) {
		defer func() {
			if p := recover(); p != nil {
				s, stop = "PANIC", true
			}
		}()
		return fn(), false
	}
	if !mayHang {
		return run()
	}
	type out struct {
		s    string
		stop bool
	}
	ch := make(chan out, 1)
	go func() {
		s, st := run()
		ch <- out{s, st}
	}()
	select {
	case o := <-ch:
		return o.s, o.stop
	case <-time.After(1500 * time.Millisecond):
		return "HANG", true
	}
}

func gfsNumOrErr(n int64, err error) string {
	if err != nil {
		return gfsErr(err)
	}
	return strconv.FormatInt(n, 10)
}

// step runs one operation; returns its observable and whether the case stops
func (e *gfsEnv) step(seed int64, op *sx) (string, bool) {
	arg := func(i int) int64 { return atoi64(op.list[i].atom) }
	switch op.list[0].atom {
	case "open":
		f, cs := arg(1), int(arg(2))
		s, err := e.openUpload(f, cs)
		if err != nil {
			// no stream: the client has nothing to write to
			e.up = nil
			return "o:" + gfsErr(err), false
		}
		e.up, e.upCS = s, cs
		return "o", false
	case "w":
		if e.up == nil {
			return "w:NOSTREAM", false
		}
		data := gfsCBytes(seed, arg(1), arg(2))
		s, stop := gfsGuarded(e.upCS > e.B, func() string {
			n, err := e.up.Write(data)
			return gfsNumOrErr(int64(n), err)
		})
		return "w:" + s, stop
	case "close":
		if e.up == nil {
			return "c:NOSTREAM", false
		}
		s, stop := gfsGuarded(false, func() string { return gfsErr(e.up.Close()) })
		return "c:" + s, stop
	case "suspend":
		if e.up == nil {
			return "s:NOSTREAM", false
		}
		s, stop := gfsGuarded(false, func() string { return gfsNumOrErr(e.up.Suspend()) })
		return "s:" + s, stop
	case "resume":
		if e.up == nil {
			return "u:NOSTREAM", false
		}
		s, stop := gfsGuarded(false, func() string { return gfsNumOrErr(e.up.Resume()) })
		return "u:" + s, stop
	case "abort":
		if e.up == nil {
			return "a:NOSTREAM", false
		}
		s, stop := gfsGuarded(false, func() string { return gfsErr(e.up.Abort()) })
		return "a:" + s, stop
	case "claim":
		s, _ := gfsGuarded(false, func() string { return gfsErr(e.bucket.ClaimUpload(e.ctx, gfsFileID(arg(1)))) })
		return "cl:" + s, false
	case "delete":
		s, _ := gfsGuarded(false, func() string { return gfsErr(e.bucket.Delete(e.ctx, gfsFileID(arg(1)))) })
		return "d:" + s, false
	case "cleanup":
		// a negative age: every marker is older than now-age, whatever the clock resolution
		s, _ := gfsGuarded(false, func() string { return gfsErr(e.bucket.Cleanup(e.ctx, -time.Hour)) })
		return "cu:" + s, false
	case "dump":
		return e.dump(arg(1)), false
	case "dopen":
		s, stop := gfsGuarded(false, func() string {
			d, err := e.bucket.OpenDownloadStream(e.ctx, gfsFileID(arg(1)))
			if err != nil {
				e.down = nil
				return gfsErr(err)
			}
			e.down = d
			return "ok"
		})
		return "do:" + s, stop
	case "r":
		if e.down == nil {
			return "r:NOSTREAM", false
		}
		buf := make([]byte, arg(1))
		s, stop := gfsGuarded(false, func() string {
			n, err := e.down.Read(buf)
			cls := "-"
			if err != nil {
				cls = gfsErr(err)
			}
			return "x" + hex.EncodeToString(buf[:n]) + ":" + cls
		})
		return "r:" + s, stop
	case "seek":
		if e.down == nil {
			return "k:NOSTREAM", false
		}
		s, stop := gfsGuarded(false, func() string { return gfsNumOrErr(e.down.Seek(arg(1), int(arg(2)))) })
		return "k:" + s, stop
	case "skip":
		if e.down == nil {
			return "j:NOSTREAM", false
		}
		s, stop := gfsGuarded(false, func() string { return gfsNumOrErr(e.down.Skip(arg(1))) })
		return "j:" + s, stop
	case "dclose":
		if e.down == nil {
			return "dc:NOSTREAM", false
		}
		return "dc:" + gfsErr(e.down.Close()), false
	}
	panic("gridfs: unknown op " + op.list[0].atom)
}

func gfsSxText(c *sx) string {
	if !c.isL {
		return c.atom
	}
	parts := make([]string, len(c.list))
	for i, x := range c.list {
		parts[i] = gfsSxText(x)
	}
	return "(" + strings.Join(parts, " ") + ")"
}

// OpenUploadStream refuses a chunk size above the buffer. Should it ever accept
// one again, Write spins forever; such a goroutine cannot be stopped from
// outside and would slow every later case of the run down. A case that opens a
// stream with chunk size > buffer is therefore run in a child process, which
// would report HANG through its watchdog and exit.
func gfsMayHang(c *sx, B int) bool {
	for _, op := range c.list[4:] {
		if op.list[0].atom == "open" && atoi64(op.list[2].atom) > int64(B) {
			return true
		}
	}
	return false
}

func gfsRunInChild(c *sx) string {
	exe, err := os.Executable()
	if err != nil {
		return "CHILD-FAILED"
	}
	ctx, cancel := context.WithTimeout(context.Background(), 60*time.Second)
	defer cancel()
	cmd := exec.CommandContext(ctx, exe, "replay", "-family", "gridfs", "-case", gfsSxText(c))
	cmd.Env = append(os.Environ(), "VERIF_GRIDFS_CHILD=1")
	out, err := cmd.Output()
	if err != nil {
		return "CHILD-FAILED"
	}
	return strings.TrimSpace(string(out))
}

func runGridfs(c *sx) string {
	B := int(atoi64(c.list[1].atom))
	tracked := atoi64(c.list[2].atom) != 0
	seed := atoi64(c.list[3].atom)
	if !gfsHookAvailable() && B != realUploadBuffer {
		return "NO-VERIF-HOOK"
	}
	if os.Getenv("VERIF_GRIDFS_CHILD") == "" && gfsMayHang(c, B) {
		return gfsRunInChild(c)
	}
	e := newGfsEnv(B, tracked)
	defer e.close()
	var out []string
	for _, op := range c.list[4:] {
		s, stop := e.step(seed, op)
		out = append(out, s)
		if stop {
			break
		}
	}
	return strings.Join(out, " ")
}

// ------------------------------------------------------------------
// generator

type gfsGen struct {
	r       *rng
	ops     []string
	B       int
	tracked bool
	cs      int
	// the client's view of the upload of file `f`
	f      int64
	sent   int64 // next content offset the client will write
	base   int64 // content offset of byte 0 of the file
	maxLen int64
}

func (g *gfsGen) emit(format string, a ...interface{}) {
	g.ops = append(g.ops, fmt.Sprintf(format, a...))
}

var gfsOverBufferCases int

func gfsPickB(r *rng) int {
	if !gfsHookAvailable() {
		return realUploadBuffer
	}
	if r.chance(1, 12) {
		return realUploadBuffer
	}
	return pick(r, []int{1, 2, 3, 4, 5, 7, 8, 8, 16, 16, 31, 32, 64, 100, 256, 1024})
}

func gfsPickCS(r *rng, B int) int {
	small := []int{1, 2, 3, 4, 5, 7, 8, 15, 16, 17, 32, 64, 100, 255, 256, 1000}
	if B == realUploadBuffer {
		return pick(r, small)
	}
	switch r.intn(8) {
	case 0:
		return B
	case 1:
		if B > 1 {
			return B - 1
		}
		return 1
	case 2:
		return (B + 1) / 2
	case 3:
		return 1 + r.intn(B)
	case 4:
		return 1
	default:
		cs := pick(r, small)
		if cs > B {
			cs = 1 + r.intn(B)
		}
		return cs
	}
}

// a length near the interesting boundaries, bounded so that a case stays
// below ~120 chunks
func gfsPickLen(r *rng, B, cs int) int64 {
	max := int64(cs) * 120
	if max > 5000 {
		max = 5000
	}
	var l int64
	switch r.intn(10) {
	case 0:
		l = 0
	case 1:
		l = 1
	case 2, 3, 4:
		l = int64(cs)*int64(r.intn(8)) + int64(r.intn(3)) - 1
	case 5, 6:
		if B != realUploadBuffer {
			l = int64(B)*int64(1+r.intn(3)) + int64(r.intn(3)) - 1
		} else {
			l = int64(cs)*int64(r.intn(40)) + int64(r.intn(cs))
		}
	case 7:
		l = int64(r.intn(int(max) + 1))
	default:
		l = int64(r.intn(200))
	}
	if l < 0 {
		l = 0
	}
	if l > max {
		l = max
	}
	return l
}

// split the client's remaining bytes [g.sent, end) into writes
func (g *gfsGen) writeSome(end int64, maxWrites int) {
	r := g.r
	for i := 0; i < maxWrites && g.sent < end; i++ {
		rem := end - g.sent
		var k int64
		switch r.intn(8) {
		case 0:
			k = 0
		case 1:
			k = 1
		case 2:
			k = int64(g.cs)
		case 3:
			if g.B != realUploadBuffer {
				k = int64(g.B) + int64(r.intn(3)) - 1
			} else {
				k = int64(g.cs) + int64(r.intn(3)) - 1
			}
		case 4:
			k = rem
		default:
			k = int64(r.intn(int(rem) + 1))
		}
		if k < 0 {
			k = 0
		}
		if k > rem {
			k = rem
		}
		g.emit("(w %d %d)", g.base+g.sent, k)
		g.sent += k
	}
}

func (g *gfsGen) writeAll(end int64) {
	g.writeSome(end, 4+g.r.intn(5))
	if g.sent < end {
		g.emit("(w %d %d)", g.base+g.sent, end-g.sent)
		g.sent = end
	}
}

// the offset a correct Suspend reports: whole chunks only
func (g *gfsGen) suspendResume() {
	g.emit("(suspend)")
	g.emit("(open %d %d)", g.f, g.cs)
	g.emit("(resume)")
	if g.cs > 0 {
		g.sent -= g.sent % int64(g.cs)
	}
}

// download script on a file of length L
func (g *gfsGen) downloadScript(f, L int64, n int) {
	r := g.r
	cs := int64(g.cs)
	if cs <= 0 {
		cs = 1
	}
	g.emit("(dopen %d)", f)
	near := func() int64 {
		switch r.intn(6) {
		case 0:
			return L + int64(r.intn(3)) - 1
		case 1:
			return cs*int64(r.intn(int(L/cs)+2)) + int64(r.intn(3)) - 1
		case 2:
			return 0
		default:
			return int64(r.intn(int(L) + 2))
		}
	}
	for i := 0; i < n; i++ {
		switch r.intn(10) {
		case 0, 1, 2, 3:
			var k int64
			switch r.intn(7) {
			case 0:
				k = 0
			case 1:
				k = 1
			case 2:
				k = cs + int64(r.intn(3)) - 1
			case 3:
				k = L + int64(r.intn(10))
			case 4:
				k = int64(r.intn(int(2*cs) + 3))
			default:
				k = int64(r.intn(40))
			}
			if k < 0 {
				k = 0
			}
			g.emit("(r %d)", k)
		case 4, 5:
			g.emit("(seek %d 0)", near()-int64(r.intn(8)/7)*(L+3))
		case 6:
			g.emit("(seek %d 2)", near()-L)
		case 7:
			g.emit("(seek %d 1)", int64(r.intn(int(2*cs)+5))-cs-2)
		case 8:
			g.emit("(skip %d)", int64(r.intn(int(2*cs)+5))-cs-2)
		default:
			if r.chance(1, 6) {
				g.emit("(seek %d %d)", near(), pick(r, []int{3, -1, 7}))
			} else if r.chance(1, 5) {
				g.emit("(seek 0 1)")
			} else {
				g.emit("(skip %d)", int64(r.intn(int(L)+3)))
			}
		}
	}
	if r.chance(1, 3) {
		g.emit("(seek 0 0)")
		g.emit("(r %d)", L+7)
		g.emit("(r 1)")
	}
	if r.chance(1, 8) {
		g.emit("(dclose)")
		g.emit("(r 1)")
		g.emit("(seek 0 0)")
	}
}

func genGridfs(r *rng) string {
	g := &gfsGen{r: r}
	g.B = gfsPickB(r)
	g.tracked = r.chance(1, 2)
	g.cs = gfsPickCS(r, g.B)
	g.f = 1
	seed := int64(r.intn(256))
	L := gfsPickLen(r, g.B, g.cs)
	g.base = int64(r.intn(3)) * 1000
	shape := r.intn(20)

	// chunk sizes that OpenUploadStream must refuse (zero or less would panic
	// in upload, more than the buffer would make Write spin forever)
	if shape == 19 {
		if r.chance(1, 2) {
			// the production validation is the one that matters (the verif
			// constructor has its own copy): half of these through it
			g.B = realUploadBuffer
		}
		switch r.intn(3) {
		case 0:
			g.cs = pick(r, []int{0, 0, -1, -3})
		case 1:
			// these run in a child process (see gfsMayHang): a bounded number
			if gfsOverBufferCases < 12 {
				gfsOverBufferCases++
				g.cs = g.B + 1 + r.intn(3)
				L = int64(g.B) + int64(r.intn(4))
				if L > 5000 {
					L = 5000
				}
			}
		}
	}

	otherFirst := r.chance(1, 5)
	if otherFirst {
		// another file in the same bucket, before
		ocs := 1 + r.intn(9)
		if ocs > g.B {
			ocs = g.B
		}
		g.emit("(open 2 %d)", ocs)
		g.emit("(w 7000 %d)", r.intn(30))
		g.emit("(close)")
		if g.tracked {
			g.emit("(claim 2)")
		}
	}

	g.emit("(open %d %d)", g.f, g.cs)
	switch {
	case shape <= 5 || shape == 19:
		// plain upload
		g.writeAll(L)
		g.emit("(close)")
		if g.tracked {
			if r.chance(1, 6) {
				g.emit("(dump 1)")
			}
			g.emit("(claim 1)")
		}
		g.emit("(dump 1)")
		g.downloadScript(1, L, 4+r.intn(10))
	case shape <= 9:
		// suspend / resume (an error class each in an untracked bucket)
		for k := 0; k < 1+r.intn(3); k++ {
			g.writeSome(L, 1+r.intn(4))
			g.suspendResume()
			if !g.tracked {
				break
			}
			if r.chance(1, 5) {
				g.emit("(dump 1)")
			}
		}
		g.writeAll(L)
		g.emit("(close)")
		if g.tracked {
			g.emit("(claim 1)")
		}
		g.emit("(dump 1)")
		g.downloadScript(1, L, 3+r.intn(8))
	case shape <= 11:
		// abort at some point
		g.writeSome(L, r.intn(5))
		if g.tracked && r.chance(1, 2) {
			g.suspendResume()
			g.writeSome(L, r.intn(3))
		}
		g.emit("(abort)")
		g.emit("(dump 1)")
		g.emit("(w 0 1)")
		if r.chance(1, 2) {
			// upload again under the same id
			g.sent = 0
			g.emit("(open 1 %d)", g.cs)
			g.writeAll(L)
			g.emit("(close)")
			if g.tracked {
				g.emit("(claim 1)")
			}
			g.emit("(dump 1)")
			g.downloadScript(1, L, 3)
		} else {
			g.emit("(dopen 1)")
		}
	case shape <= 13:
		// delete after a completed upload
		g.writeAll(L)
		g.emit("(close)")
		if g.tracked {
			g.emit("(claim 1)")
		}
		if r.chance(1, 2) {
			g.downloadScript(1, L, 2)
		}
		g.emit("(delete 1)")
		if g.tracked {
			if r.chance(1, 3) {
				g.emit("(dump 1)")
			}
			g.emit("(cleanup)")
		}
		g.emit("(dump 1)")
		if r.chance(1, 2) {
			g.emit("(r 5)") // the open stream keeps its cursor snapshot
			g.emit("(seek 0 0)")
		}
		g.emit("(dopen 1)")
		g.emit("(delete 1)")
	case shape <= 15:
		// lifecycle errors
		g.writeSome(L, 2)
		switch r.intn(8) {
		case 0:
			g.emit("(close)")
			g.emit("(close)")
			g.emit("(w 0 3)")
			g.emit("(abort)")
			g.emit("(suspend)")
		case 1:
			g.emit("(claim 1)")
			g.emit("(delete 1)")
			g.emit("(dump 1)")
		case 2:
			// a second stream for the same id without resume
			g.emit("(suspend)")
			g.emit("(open 1 %d)", g.cs)
			g.emit("(w 0 %d)", g.cs+1)
			g.emit("(suspend)")
			g.emit("(dump 1)")
		case 3:
			// resume with another chunk size
			g.emit("(suspend)")
			g.emit("(open 1 %d)", g.cs+1)
			g.emit("(resume)")
			g.emit("(abort)")
			g.emit("(dump 1)")
		case 4:
			// cleanup under a running upload
			g.emit("(suspend)")
			g.emit("(open 1 %d)", g.cs)
			g.emit("(resume)")
			g.emit("(cleanup)")
			g.emit("(dump 1)")
			g.emit("(w 0 2)")
			g.emit("(close)")
		case 5:
			g.emit("(resume)")
			g.emit("(w 0 1)")
			g.emit("(resume)")
		case 6:
			// resume after the upload finished
			g.emit("(close)")
			g.emit("(open 1 %d)", g.cs)
			g.emit("(resume)")
			g.emit("(abort)")
			g.emit("(dump 1)")
		default:
			g.emit("(suspend)")
			g.emit("(resume)")
			g.emit("(w 0 1)")
			g.emit("(cleanup)")
			g.emit("(dump 1)")
		}
		g.emit("(dump 1)")
		g.emit("(dopen 1)")
	default:
		// operation soup
		failedResume := false
		for i := 0; i < 6+r.intn(14); i++ {
			switch r.intn(16) {
			case 0:
				ncs := pick(r, []int{g.cs, g.cs, 1, 2, 3, 0})
				if ncs > g.B {
					ncs = g.cs // never an accidental chunk size > buffer: Write would spin
				}
				g.emit("(open %d %d)", 1+r.intn(2), ncs)
				failedResume = false
			case 1, 2, 3, 4:
				g.emit("(w %d %d)", r.intn(50), r.intn(3*g.absCS()+2))
			case 5:
				if !failedResume {
					g.emit("(close)")
				} else {
					g.emit("(abort)")
				}
			case 6:
				g.emit("(suspend)")
			case 7:
				g.emit("(resume)")
				failedResume = true // conservatively: Close after a failed Resume depends on the clock
			case 8:
				g.emit("(abort)")
			case 9:
				g.emit("(claim %d)", 1+r.intn(2))
			case 10:
				g.emit("(delete %d)", 1+r.intn(2))
			case 11:
				g.emit("(cleanup)")
			case 12:
				g.emit("(dopen %d)", 1+r.intn(2))
			case 13:
				g.emit("(r %d)", r.intn(12))
			case 14:
				g.emit("(seek %d %d)", r.intn(30)-10, r.intn(3))
			default:
				g.emit("(dump %d)", 1+r.intn(2))
			}
		}
		g.emit("(dump 1)")
		g.emit("(dump 2)")
	}
	if otherFirst {
		g.emit("(dump 2)")
	}
	tr := 0
	if g.tracked {
		tr = 1
	}
	return fmt.Sprintf("(gridfs %d %d %d %s)", g.B, tr, seed, strings.Join(g.ops, " "))
}

func (g *gfsGen) absCS() int {
	if g.cs <= 0 {
		return 1
	}
	return g.cs
}

func classifyGridfs(c *sx, obs string) ([]string, bool) {
	var labels []string
	B := atoi64(c.list[1].atom)
	if int(B) == realUploadBuffer {
		labels = append(labels, "buffer:16MiB")
	} else {
		labels = append(labels, "buffer:small")
	}
	if c.list[2].atom == "1" {
		labels = append(labels, "tracked")
	} else {
		labels = append(labels, "untracked")
	}
	seen := map[string]bool{}
	wrap := false
	for _, op := range c.list[4:] {
		name := op.list[0].atom
		if !seen[name] {
			seen[name] = true
			labels = append(labels, "op:"+name)
		}
		if name == "w" && atoi64(op.list[2].atom) >= B {
			wrap = true
		}
	}
	if wrap {
		labels = append(labels, "write>=buffer")
	}
	for _, k := range []string{"PANIC", "HANG", "EOF", "ENEG", "ECLOSED", "ENOTFOUND", "ENODOC", "EINPROGRESS", "ERR"} {
		if strings.Contains(obs, k) {
			labels = append(labels, "obs:"+k)
		}
	}
	if strings.Contains(obs, "o:ERR") {
		labels = append(labels, "obs:open-refused")
	}
	multi := strings.Contains(obs, ",1:")
	if multi {
		labels = append(labels, "multi-chunk")
	}
	return labels, multi || seen["r"]
}

func init() {
	register(&family{name: "gridfs", gen: genGridfs, run: runGridfs, classify: classifyGridfs})
	registerOracle(&oracle{prop: "C18", name: "gridfs-roundtrip", run: oracleC18, replay: replayC18})
}

// ------------------------------------------------------------------
// oracle C18 (model-free)

type c18Scenario struct {
	B        int      `json:"buffer"`
	Tracked  bool     `json:"tracked"`
	CS       int      `json:"chunk_size"`
	Content  string   `json:"content_hex,omitempty"`
	Length   int      `json:"length"`
	Seed     uint64   `json:"content_seed"`
	Writes   []int    `json:"writes"`           // lengths; -1 = suspend + reopen + resume
	End      string   `json:"end"`              // close | abort | delete
	Script   []string `json:"script,omitempty"` // download ops
	Observed string   `json:"observed,omitempty"`
	Expected string   `json:"expected,omitempty"`
}

func c18Content(seed uint64, n int) []byte {
	r := newRng(seed)
	out := make([]byte, n)
	for i := 0; i < n; i += 8 {
		v := r.u64()
		for j := 0; j < 8 && i+j < n; j++ {
			out[i+j] = byte(v >> (8 * j))
		}
	}
	return out
}

// runC18 executes one scenario on the real code and returns the first
// property failure: (signature, what) or "".
func runC18(sc *c18Scenario) (sig, what string) {
	type fail struct{ sig, what string }
	res := make(chan fail, 1)
	go func() {
		defer func() {
			if p := recover(); p != nil {
				res <- fail{"C18:panic", fmt.Sprintf("panic: %v", p)}
			}
		}()
		s, w := runC18Inner(sc)
		res <- fail{s, w}
	}()
	timeout := 20 * time.Second
	if sc.CS > sc.B {
		timeout = 2 * time.Second
	}
	select {
	case f := <-res:
		return f.sig, f.what
	case <-time.After(timeout):
		return "C18:hang", "the scenario does not terminate (Write makes no progress)"
	}
}

func runC18Inner(sc *c18Scenario) (string, string) {
	badAccepted := false
	sig, what := runC18Body(sc, &badAccepted)
	if badAccepted && sig == "" {
		// a chunk size that must be refused was accepted and the scenario went through
		return "C18:bad-chunk-size-accepted", fmt.Sprintf("OpenUploadStream accepted chunk size %d with a %d byte buffer", sc.CS, sc.B)
	}
	return sig, what
}

func runC18Body(sc *c18Scenario, badAccepted *bool) (string, string) {
	e := newGfsEnv(sc.B, sc.Tracked)
	defer e.close()
	content := c18Content(sc.Seed, sc.Length)
	other := []byte("the other file of the bucket")
	// another file that must stay untouched (without the verif constructor every
	// stream costs a 16 MiB buffer: only in one scenario out of four then)
	withOther := gfsHookAvailable() || sc.Seed%4 == 0
	if withOther {
		ocs := 5
		if ocs > sc.B {
			ocs = sc.B
		}
		s, err := e.openUpload(2, ocs)
		if err != nil {
			return "C18:infra", err.Error()
		}
		_, _ = s.Write(other)
		if err := s.Close(); err != nil {
			return "C18:infra", err.Error()
		}
		if sc.Tracked {
			if err := e.bucket.ClaimUpload(e.ctx, gfsFileID(2)); err != nil {
				return "C18:infra", err.Error()
			}
		}
	}
	checkOther := func() (string, string) {
		if !withOther {
			return "", ""
		}
		var buf bytes.Buffer
		_, err := e.bucket.DownloadToStream(e.ctx, gfsFileID(2), &buf)
		if err != nil || !bytes.Equal(buf.Bytes(), other) {
			return "C18:other-file-changed", fmt.Sprintf("another file of the bucket changed (err=%v)", err)
		}
		return "", ""
	}
	up, err := e.openUpload(1, sc.CS)
	if sc.CS <= 0 || sc.CS > sc.B {
		// the chunk size must be refused when the stream is opened, nothing stored
		if err != nil {
			if len(e.chunksOf(1)) != 0 || e.fileOf(1) != nil || e.markerOf(1) != nil {
				return "C18:refused-open-stores", "a refused OpenUploadStream left documents behind"
			}
			return checkOther()
		}
		if sc.CS > sc.B {
			if c18HangScenarios >= 2 {
				return "C18:bad-chunk-size-accepted", fmt.Sprintf("OpenUploadStream accepted chunk size %d with a %d byte buffer", sc.CS, sc.B)
			}
			c18HangScenarios++
		}
		// accepted: run on to see what it does (panic / hang get their own signature)
		*badAccepted = true
	} else if err != nil {
		return "C18:open-error", fmt.Sprintf("OpenUploadStream refused chunk size %d (buffer %d): %v", sc.CS, sc.B, err)
	}
	sent := 0
	for _, w := range sc.Writes {
		if w < 0 {
			n1, err := up.Suspend()
			if err != nil {
				return "C18:suspend-error", "Suspend: " + err.Error()
			}
			if n1 < 0 || int(n1) > sent {
				return "C18:resume-offset", fmt.Sprintf("Suspend reports %d bytes stored, %d were written", n1, sent)
			}
			up, err = e.openUpload(1, sc.CS)
			if err != nil {
				return "C18:infra", err.Error()
			}
			n2, err := up.Resume()
			if errors.Is(err, mongo.ErrNoDocuments) && n1 == 0 {
				// nothing was ever buffered: no marker exists, the fresh stream starts at 0
				n2, err = 0, nil
			}
			if err != nil {
				return "C18:resume-error", "Resume: " + err.Error()
			}
			if n2 != n1 {
				return "C18:resume-offset", fmt.Sprintf("Resume reports %d, Suspend reported %d", n2, n1)
			}
			sent = int(n2)
			continue
		}
		end := sent + w
		if end > len(content) {
			end = len(content)
		}
		n, err := up.Write(content[sent:end])
		if err != nil || n != end-sent {
			return "C18:write-error", fmt.Sprintf("Write(%d bytes) = %d, %v", end-sent, n, err)
		}
		sent = end
	}
	countChunks := func() int { return len(e.chunksOf(1)) }
	switch sc.End {
	case "abort":
		if err := up.Abort(); err != nil {
			return "C18:abort-error", "Abort: " + err.Error()
		}
		if n := countChunks(); n != 0 {
			return "C18:abort-leaves-chunks", fmt.Sprintf("%d chunks left after Abort", n)
		}
		if e.markerOf(1) != nil {
			return "C18:abort-leaves-marker", "marker left after Abort"
		}
		if e.fileOf(1) != nil {
			return "C18:abort-leaves-file", "file record exists after Abort"
		}
		return checkOther()
	}
	// finish: the rest of the content, then Close (+ claim)
	if sent < len(content) {
		n, err := up.Write(content[sent:])
		if err != nil || n != len(content)-sent {
			return "C18:write-error", fmt.Sprintf("Write(%d bytes) = %d, %v", len(content)-sent, n, err)
		}
	}
	if err := up.Close(); err != nil {
		return "C18:close-error", "Close: " + err.Error()
	}
	if sc.Tracked {
		if err := e.bucket.ClaimUpload(e.ctx, gfsFileID(1)); err != nil {
			return "C18:claim-error", "ClaimUpload: " + err.Error()
		}
	}
	// file record
	file := e.fileOf(1)
	if file == nil {
		return "C18:file-record", "no file record after a completed upload"
	}
	if file.Length != len(content) || file.ChunkSize != sc.CS {
		return "C18:file-record", fmt.Sprintf("file record says length=%d chunkSize=%d, uploaded %d bytes with chunk size %d", file.Length, file.ChunkSize, len(content), sc.CS)
	}
	// chunk layout
	chunks := e.chunksOf(1)
	var cat []byte
	for i, c := range chunks {
		if c.Num != i {
			return "C18:chunk-numbering", fmt.Sprintf("chunk %d of %d has n=%d", i, len(chunks), c.Num)
		}
		if i < len(chunks)-1 && len(c.Data) != sc.CS {
			return "C18:chunk-size", fmt.Sprintf("chunk %d of %d has %d bytes, chunk size %d", i, len(chunks), len(c.Data), sc.CS)
		}
		if i == len(chunks)-1 && (len(c.Data) == 0 || len(c.Data) > sc.CS) {
			return "C18:chunk-size", fmt.Sprintf("last chunk has %d bytes, chunk size %d", len(c.Data), sc.CS)
		}
		cat = append(cat, c.Data...)
	}
	if !bytes.Equal(cat, content) {
		return "C18:chunk-data", fmt.Sprintf("concatenated chunks (%d bytes) differ from the uploaded content (%d bytes)", len(cat), len(content))
	}
	// whole download
	var buf bytes.Buffer
	n, err := e.bucket.DownloadToStream(e.ctx, gfsFileID(1), &buf)
	if err != nil || int(n) != len(content) || !bytes.Equal(buf.Bytes(), content) {
		return "C18:download-differs", fmt.Sprintf("download returned %d bytes, err=%v; uploaded %d bytes; equal=%v", n, err, len(content), bytes.Equal(buf.Bytes(), content))
	}
	// download script against bytes.Reader
	d, err := e.bucket.OpenDownloadStream(e.ctx, gfsFileID(1))
	if err != nil {
		return "C18:download-open", err.Error()
	}
	ref := bytes.NewReader(content)
	for i, op := range sc.Script {
		var kind string
		var a, b int64
		fmt.Sscanf(op, "%s %d %d", &kind, &a, &b)
		switch kind {
		case "read":
			b1, b2 := make([]byte, a), make([]byte, a)
			n1, e1 := d.Read(b1)
			n2, e2 := ref.Read(b2)
			if n1 != n2 || !bytes.Equal(b1[:n1], b2[:n2]) || gfsErr(e1) != gfsErr(e2) {
				sc.Observed = fmt.Sprintf("op %d %q: n=%d err=%v", i, op, n1, e1)
				sc.Expected = fmt.Sprintf("n=%d err=%v", n2, e2)
				return "C18:read-differs", "Read differs from bytes.Reader: " + sc.Observed + " expected " + sc.Expected
			}
		case "seek", "skip":
			var p1, p2 int64
			var e1, e2 error
			if kind == "skip" {
				p1, e1 = d.Skip(a)
				p2, e2 = ref.Seek(a, io.SeekCurrent)
			} else {
				p1, e1 = d.Seek(a, int(b))
				p2, e2 = ref.Seek(a, int(b))
			}
			if (e1 == nil) != (e2 == nil) || (e1 == nil && p1 != p2) {
				sc.Observed = fmt.Sprintf("op %d %q: pos=%d err=%v", i, op, p1, e1)
				sc.Expected = fmt.Sprintf("pos=%d err=%v", p2, e2)
				sig := "C18:seek-differs"
				if b < 0 || b > 2 {
					sig = "C18:invalid-whence-accepted"
				}
				return sig, "Seek/Skip differs from bytes.Reader: " + sc.Observed + " expected " + sc.Expected
			}
		}
	}
	// position agreement at the end of the script
	p1, e1 := d.Seek(0, io.SeekCurrent)
	p2, _ := ref.Seek(0, io.SeekCurrent)
	if e1 != nil || p1 != p2 {
		return "C18:position-differs", fmt.Sprintf("final position %d (err=%v), bytes.Reader is at %d", p1, e1, p2)
	}
	if s, w := checkOther(); s != "" {
		return s, w
	}
	if sc.End == "delete" {
		if err := e.bucket.Delete(e.ctx, gfsFileID(1)); err != nil {
			return "C18:delete-error", "Delete: " + err.Error()
		}
		if sc.Tracked {
			if err := e.bucket.Cleanup(e.ctx, -time.Hour); err != nil {
				return "C18:cleanup-error", "Cleanup: " + err.Error()
			}
		}
		if n := countChunks(); n != 0 {
			return "C18:delete-leaves-chunks", fmt.Sprintf("%d chunks left after Delete", n)
		}
		if e.fileOf(1) != nil || e.markerOf(1) != nil {
			return "C18:delete-leaves-file", "file record or marker left after Delete"
		}
		if _, err := e.bucket.OpenDownloadStream(e.ctx, gfsFileID(1)); !errors.Is(err, lungo.ErrFileNotFound) {
			return "C18:delete-leaves-file", fmt.Sprintf("download of a deleted file: %v", err)
		}
		return checkOther()
	}
	return "", ""
}

var c18HangScenarios int

// replayC18 re-runs the scenario stored in a failure (bin/check replay)
func replayC18(f oracleFailure) []oracleFailure {
	b, err := json.Marshal(f.Detail)
	if err != nil {
		return nil
	}
	sc := &c18Scenario{}
	if err := json.Unmarshal(b, sc); err != nil || sc.B == 0 {
		return nil
	}
	if !gfsHookAvailable() && sc.B != realUploadBuffer {
		fmt.Println("not replayable without the verif constructor (buffer size", sc.B, ")")
		return nil
	}
	sig, what := runC18(sc)
	if sig == "" {
		return nil
	}
	return []oracleFailure{{Property: "C18", Signature: c18Signature(sc, sig), What: what, Detail: sc}}
}

func c18Signature(sc *c18Scenario, sig string) string {
	switch {
	case sig == "C18:panic" && sc.CS <= 0:
		return "C18:chunk-size-nonpositive-panic"
	case sig == "C18:hang" && sc.CS > sc.B:
		return "C18:chunk-size-over-buffer-hang"
	}
	return sig
}

func genC18(r *rng) *c18Scenario {
	sc := &c18Scenario{}
	sc.B = gfsPickB(r)
	sc.Tracked = r.chance(1, 2)
	sc.CS = gfsPickCS(r, sc.B)
	sc.Length = int(gfsPickLen(r, sc.B, sc.CS))
	sc.Seed = r.u64()
	if r.chance(1, 12) {
		// chunk sizes that must be refused at open; half of them through the
		// production validation (the verif constructor has its own copy)
		if r.chance(1, 2) {
			sc.B = realUploadBuffer
		}
		switch r.intn(2) {
		case 0:
			sc.CS = pick(r, []int{0, -1, -7})
			if sc.Length == 0 {
				sc.Length = 3
			}
		default:
			sc.CS = sc.B + 1 + r.intn(2)
			sc.Length = sc.B + 2
			if sc.Length > 5000 {
				sc.Length = 5000
			}
		}
	}
	rem := sc.Length
	for i := 0; i < 1+r.intn(7) && rem > 0; i++ {
		var k int
		switch r.intn(7) {
		case 0:
			k = 0
		case 1:
			k = 1
		case 2:
			k = sc.CS
		case 3:
			if sc.B != realUploadBuffer {
				k = sc.B + r.intn(3) - 1
			} else {
				k = 2*sc.CS + 1
			}
		case 4:
			if sc.Tracked {
				sc.Writes = append(sc.Writes, -1)
				// the client may have to send again what was buffered
				rem = sc.Length
				continue
			}
			k = rem
		default:
			k = r.intn(rem + 1)
		}
		if k < 0 {
			k = 0
		}
		if k > rem {
			k = rem
		}
		sc.Writes = append(sc.Writes, k)
		rem -= k
	}
	sc.End = pick(r, []string{"close", "close", "close", "abort", "delete"})
	L, cs := int64(sc.Length), int64(sc.CS)
	if cs <= 0 {
		cs = 1
	}
	near := func() int64 {
		switch r.intn(5) {
		case 0:
			return L + int64(r.intn(3)) - 1
		case 1:
			return cs*int64(r.intn(int(L/cs)+2)) + int64(r.intn(3)) - 1
		default:
			return int64(r.intn(int(L) + 2))
		}
	}
	for i := 0; i < 3+r.intn(10); i++ {
		switch r.intn(9) {
		case 0, 1, 2, 3:
			k := pick(r, []int64{0, 1, cs - 1, cs, cs + 1, L, L + 3, int64(r.intn(40)), int64(r.intn(int(2*cs) + 3))})
			if k < 0 {
				k = 0
			}
			sc.Script = append(sc.Script, fmt.Sprintf("read %d", k))
		case 4, 5:
			sc.Script = append(sc.Script, fmt.Sprintf("seek %d 0", near()-int64(r.intn(8)/7)*(L+3)))
		case 6:
			sc.Script = append(sc.Script, fmt.Sprintf("seek %d 2", near()-L))
		case 7:
			sc.Script = append(sc.Script, fmt.Sprintf("seek %d 1", int64(r.intn(int(2*cs)+5))-cs-2))
		default:
			sc.Script = append(sc.Script, fmt.Sprintf("skip %d", int64(r.intn(int(2*cs)+5))-cs-2))
		}
	}
	if r.chance(1, 4) {
		// an unknown whence: an error, and the stream stays where it is
		sc.Script = append(sc.Script, fmt.Sprintf("seek %d %d", near(), pick(r, []int{3, -1, 7})), "read 2")
	}
	return sc
}

func oracleC18(r *rng, n int, st *oracleStats) []oracleFailure {
	st.Rule = "scenarios on the real bucket (memory store): random content, chunk size (one in twelve a size that must be refused: <= 0 or > buffer), write partition with suspend/resume in tracked buckets, end = close | abort | delete; checks: bad chunk size refused at open with nothing stored, download == content, file record, chunk numbering and sizes, concatenation, Read/Seek/Skip script (incl. unknown whence) vs bytes.Reader, nothing left after abort/delete, other file untouched; plus runs through the real 16 MiB buffer; non-trivial = more than one chunk"
	var fails []oracleFailure
	seenSig := map[string]int{}
	report := func(sc *c18Scenario, sig, what string) {
		seenSig[sig]++
		if seenSig[sig] > 3 || len(fails) >= 20 {
			return
		}
		if sc.Length <= 256 {
			sc.Content = hex.EncodeToString(c18Content(sc.Seed, sc.Length))
		}
		fails = append(fails, oracleFailure{Property: "C18", Signature: sig, What: what, Detail: sc})
	}
	seen := map[string]bool{}
	for i := 0; i < n; i++ {
		sc := genC18(r)
		sig, what := runC18(sc)
		st.Evaluations++
		key := fmt.Sprint(sc.B, sc.Tracked, sc.CS, sc.Length, sc.Writes, sc.End, sc.Script)
		if !seen[key] {
			seen[key] = true
			if sc.CS > 0 && sc.Length > sc.CS {
				st.Nontrivial++
			}
		}
		st.Dist["end:"+sc.End]++
		if sc.CS <= 0 || sc.CS > sc.B {
			st.Dist["chunk-size-to-refuse"]++
		}
		for _, op := range sc.Script {
			var kind string
			var a, b int64
			fmt.Sscanf(op, "%s %d %d", &kind, &a, &b)
			if kind == "seek" && (b < 0 || b > 2) {
				st.Dist["unknown-whence"]++
				break
			}
		}
		if sc.Tracked {
			st.Dist["tracked"]++
		}
		if sc.B == realUploadBuffer {
			st.Dist["buffer:16MiB"]++
		} else {
			st.Dist["buffer:small"]++
		}
		if len(st.Samples) < 3 {
			st.Samples = append(st.Samples, key)
		}
		if sig != "" {
			report(sc, c18Signature(sc, sig), what)
		}
	}
	// runs through the real 16 MiB buffer: content larger than the buffer, so
	// that Write's own upload(false) and the buffer carry are exercised
	big := 1 + n/2000
	if big > 6 {
		big = 6
	}
	for i := 0; i < big; i++ {
		cs := pick(r, []int{255 * 1024, 1 << 20, 1000003, 4 << 20})
		sc := &c18Scenario{B: realUploadBuffer, Tracked: i%2 == 1, CS: cs, Seed: r.u64(), End: "delete"}
		sc.Length = realUploadBuffer + cs*r.intn(3) + r.intn(cs)
		sc.Writes = []int{r.intn(cs), realUploadBuffer - 1, 3}
		if sc.Tracked {
			sc.Writes = append(sc.Writes, -1)
		}
		sc.Script = []string{"seek -5 2", "read 10", fmt.Sprintf("seek %d 0", realUploadBuffer-3), "read 7", fmt.Sprintf("seek %d 0", cs-1), "read 2", "skip -1", "read 1"}
		if gfsHookAvailable() {
			// the hook would otherwise shrink the buffer
			sc.B = realUploadBuffer
		}
		sig, what := runC18(sc)
		st.Evaluations++
		st.Nontrivial++
		st.Dist["real-buffer-wrap"]++
		if sig != "" {
			report(sc, sig, what)
		}
	}
	return fails
}
