package main

// fam_match.go — family `match`: the REAL mongokit.Match(doc, filter) on
// (document, filter) pairs generated from the operator grammar; oracle C10:
// the logical laws evaluated on the real Match (model-free).

import (
	"fmt"
	"math"
	"sort"
	"strings"

	"go.mongodb.org/mongo-driver/bson"
	"go.mongodb.org/mongo-driver/bson/primitive"

	"github.com/256dpi/lungo/bsonkit"
	"github.com/256dpi/lungo/mongokit"
)

// ---- running the real matcher ----

// matchObs: T | F | ERR (PANIC is produced by the callers' recover).
func matchObs(d bson.D, f bson.D) string {
	dd := d
	ff := f
	ok, err := mongokit.Match(&dd, &ff)
	if err != nil {
		return "ERR"
	}
	return tf(ok)
}

func safeMatch(d bson.D, f bson.D) (obs string) {
	defer func() {
		if p := recover(); p != nil {
			obs = "PANIC"
		}
	}()
	return matchObs(d, f)
}

// ---- the syntactic UNMODELLED rule (mirror of Model/RunMatch.v:unmodelled_syn) ----

func anyEntry(v interface{}, p func(k string, x interface{}) bool) bool {
	switch x := v.(type) {
	case bson.D:
		for _, e := range x {
			if p(e.Key, e.Value) || anyEntry(e.Value, p) {
				return true
			}
		}
	case bson.A:
		for _, e := range x {
			if anyEntry(e, p) {
				return true
			}
		}
	}
	return false
}

func hasDecimal(v interface{}) bool {
	switch x := v.(type) {
	case primitive.Decimal128:
		return true
	case bson.D:
		for _, e := range x {
			if hasDecimal(e.Value) {
				return true
			}
		}
	case bson.A:
		for _, e := range x {
			if hasDecimal(e) {
				return true
			}
		}
	}
	return false
}

func unmodelledSyn(d bson.D, f bson.D) bool {
	docDec := hasDecimal(d)
	return anyEntry(f, func(k string, x interface{}) bool {
		if k == "pattern" || k == "patternProperties" {
			return true
		}
		if k == "multipleOf" {
			if _, ok := x.(primitive.Decimal128); ok || docDec {
				return true
			}
		}
		if strings.HasPrefix(k, "$bits") {
			if arr, ok := x.(bson.A); ok {
				for _, it := range arr {
					if fl, ok := it.(float64); ok && !math.IsInf(fl, 0) && !math.IsNaN(fl) && math.Abs(fl) >= 18446744073709551616.0 {
						return true
					}
				}
			}
		}
		return false
	})
}

// ---- generator ----

var cmpOps = []string{"$eq", "$gt", "$gte", "$lt", "$lte"}
var bitsOps = []string{"$bitsAllSet", "$bitsAllClear", "$bitsAnySet", "$bitsAnyClear"}

// weighted operator choice for a field condition
var exprOpWeights = []struct {
	op string
	w  int
}{
	{"$eq", 6}, {"$gt", 5}, {"$gte", 5}, {"$lt", 5}, {"$lte", 5}, {"$ne", 5},
	{"$in", 7}, {"$nin", 5}, {"$exists", 6}, {"$type", 6}, {"$all", 6}, {"$size", 6},
	{"$elemMatch", 7}, {"$not", 6}, {"$mod", 5}, {"$bits", 6},
}

func pickExprOp(r *rng) string {
	total := 0
	for _, e := range exprOpWeights {
		total += e.w
	}
	n := r.intn(total)
	for _, e := range exprOpWeights {
		if n < e.w {
			if e.op == "$bits" {
				return pick(r, bitsOps)
			}
			return e.op
		}
		n -= e.w
	}
	return "$eq"
}

type fgen struct {
	r     *rng
	mal   bool   // malformed stream: ill-typed operator arguments may be produced
	force string // operator the next opDoc must start with
}

// a path of d on which op has a chance
func (g *fgen) pathFor(d bson.D, op string) string {
	p := genPath(g.r, d)
	for try := 0; try < 8 && !opFits(op, pathCandidates(d, p)); try++ {
		p = genPath(g.r, d)
	}
	return p
}

func (g *fgen) bad() bool { return g.mal && g.r.chance(1, 3) }

// the values lungo would look at for this path
func pathCandidates(d bson.D, path string) []interface{} {
	dd := d
	v, _ := bsonkit.All(&dd, path, true, true)
	var out []interface{}
	if v != bsonkit.Missing {
		out = append(out, v)
	}
	if arr, ok := v.(bson.A); ok {
		for _, e := range arr {
			out = append(out, e)
			if a2, ok := e.(bson.A); ok {
				out = append(out, a2...)
			}
		}
	}
	return out
}

func noMissing(v interface{}) interface{} {
	if v == bsonkit.Missing {
		return nil
	}
	return v
}

// operand close to what the document holds at the path
func (g *fgen) operand(d bson.D, path string) interface{} {
	r := g.r
	cands := pathCandidates(d, path)
	switch {
	case len(cands) > 0 && r.chance(5, 10):
		return noMissing(pick(r, cands))
	case len(cands) > 0 && r.chance(2, 5):
		return noMissing(mutate(r, pick(r, cands)))
	case r.chance(1, 2):
		return genScalar(r)
	default:
		return genValue(r, 2)
	}
}

// a value of the same class just below or above v
func neighbour(r *rng, v interface{}) interface{} {
	up := r.chance(1, 2)
	step := func(i int64) int64 {
		if up {
			return i + 1
		}
		return i - 1
	}
	switch x := v.(type) {
	case int32:
		if x > math.MinInt32 && x < math.MaxInt32 {
			return reNumber(r, float64(step(int64(x))), step(int64(x)), true)
		}
		return int64(x)
	case int64:
		if x > math.MinInt64+1 && x < math.MaxInt64-1 {
			if r.chance(1, 2) {
				return step(x)
			}
			return float64(x) + map[bool]float64{true: 0.5, false: -0.5}[up]
		}
		return x
	case float64:
		if math.IsNaN(x) || math.IsInf(x, 0) {
			return pick(r, []interface{}{int32(0), math.Inf(-1), math.Inf(1), math.NaN()})
		}
		if up {
			return math.Nextafter(x, math.Inf(1))
		}
		return x - 1
	case primitive.Decimal128:
		return pick(r, []interface{}{int32(-3), int32(0), int32(1), int64(4), 0.75, math.Inf(1), math.Inf(-1)})
	case string:
		if up {
			return x + "a"
		}
		if len(x) > 0 {
			return x[:len(x)-1]
		}
		return x
	case bool:
		return !x
	case primitive.DateTime:
		if x > math.MinInt64+1 && x < math.MaxInt64-1 {
			return primitive.DateTime(step(int64(x)))
		}
		return x
	case primitive.Timestamp:
		if up {
			return primitive.Timestamp{T: x.T, I: x.I + 1}
		}
		return primitive.Timestamp{T: x.T, I: x.I - 1}
	case bson.A:
		c := append(bson.A{}, x...)
		if up {
			return append(c, nil)
		}
		if len(c) > 0 {
			if r.chance(1, 2) {
				c[len(c)-1] = neighbour(r, c[len(c)-1])
				return c
			}
			return c[:len(c)-1]
		}
		return c
	case bson.D:
		c := append(bson.D{}, x...)
		if up {
			return append(c, bson.E{Key: "z", Value: nil})
		}
		if len(c) > 0 {
			if r.chance(1, 2) {
				c[len(c)-1].Value = neighbour(r, c[len(c)-1].Value)
				return c
			}
			return c[:len(c)-1]
		}
		return c
	case primitive.Binary:
		if up {
			return primitive.Binary{Subtype: x.Subtype, Data: append(append([]byte{}, x.Data...), 0)}
		}
		return primitive.Binary{Subtype: 0, Data: x.Data}
	case primitive.ObjectID:
		y := x
		if up {
			y[0]++
		} else {
			y[11]--
		}
		return y
	case primitive.Regex:
		if up {
			return primitive.Regex{Pattern: x.Pattern + "a", Options: x.Options}
		}
		return primitive.Regex{Pattern: "", Options: ""}
	}
	return mutate(r, v)
}

// does the operator have a chance against what the path holds
func opFits(op string, cands []interface{}) bool {
	has := func(p func(interface{}) bool) bool {
		for _, c := range cands {
			if p(c) {
				return true
			}
		}
		return false
	}
	isArr := func(v interface{}) bool { a, ok := v.(bson.A); return ok && len(a) > 0 }
	isNum := func(v interface{}) bool {
		switch v.(type) {
		case int32, int64, float64:
			return true
		}
		return false
	}
	isBin := func(v interface{}) bool { _, ok := v.(primitive.Binary); return ok }
	switch op {
	case "$size", "$all":
		return has(func(v interface{}) bool { _, ok := v.(bson.A); return ok })
	case "$elemMatch":
		return has(isArr)
	case "$mod":
		return has(isNum)
	case "$bitsAllSet", "$bitsAllClear", "$bitsAnySet", "$bitsAnyClear":
		return has(isNum) || has(isBin)
	}
	return true
}

func toInt64(v interface{}) (int64, bool) {
	switch x := v.(type) {
	case int32:
		return int64(x), true
	case int64:
		return x, true
	case float64:
		if !math.IsNaN(x) && math.Abs(x) < 1e18 {
			return int64(x), true
		}
	}
	return 0, false
}

func typeArgFor(r *rng, v interface{}) interface{} {
	alias, num := "null", int32(10)
	switch v.(type) {
	case int32:
		alias, num = "int", 16
	case int64:
		alias, num = "long", 18
	case float64:
		alias, num = "double", 1
	case primitive.Decimal128:
		alias, num = "decimal", 19
	case string:
		alias, num = "string", 2
	case bson.D:
		alias, num = "object", 3
	case bson.A:
		alias, num = "array", 4
	case primitive.Binary:
		alias, num = "binData", 5
	case primitive.ObjectID:
		alias, num = "objectId", 7
	case bool:
		alias, num = "bool", 8
	case primitive.DateTime:
		alias, num = "date", 9
	case primitive.Timestamp:
		alias, num = "timestamp", 17
	case primitive.Regex:
		alias, num = "regex", 11
	}
	switch r.intn(6) {
	case 0:
		return alias
	case 1:
		return num
	case 2:
		return int64(num)
	case 3:
		return float64(num)
	case 4:
		return "number"
	default:
		return pick(r, []interface{}{"string", "int", "long", "double", "object", "array", "null", "bool", "date", "minKey", "undefined", int32(127), int32(255), int32(6)})
	}
}

func (g *fgen) opArg(op string, d bson.D, path string, depth int) interface{} {
	r := g.r
	cands := pathCandidates(d, path)
	var cand interface{}
	if len(cands) > 0 {
		cand = pick(r, cands)
	}
	switch op {
	case "$eq", "$ne":
		return g.operand(d, path)
	case "$gt", "$gte", "$lt", "$lte":
		if cand != nil && r.chance(3, 5) {
			return noMissing(neighbour(r, cand))
		}
		return g.operand(d, path)
	case "$in", "$nin":
		if g.bad() {
			return pick(r, []interface{}{nil, int32(1), "a", bson.D{}, bson.D{{Key: "a", Value: int32(1)}}})
		}
		n := r.intn(4)
		if r.chance(1, 8) {
			// long candidate lists (implementations may switch strategy with the length)
			n = 8 + r.intn(10)
		}
		a := bson.A{}
		for i := 0; i < n; i++ {
			if n > 4 && r.chance(1, 2) {
				// distinct small numbers in varying numeric types so that the match, if any,
				// is often through a candidate of another numeric type than the stored value
				a = append(a, reNumber(r, float64(i), int64(i), true))
				continue
			}
			a = append(a, g.operand(d, path))
		}
		return a
	case "$exists":
		if r.chance(3, 4) {
			return r.chance(1, 2)
		}
		return pick(r, []interface{}{nil, int32(0), int32(1), int64(0), float64(0), math.Copysign(0, -1), math.NaN(), "", "a", bson.A{}, mustDec("0")})
	case "$type":
		if g.bad() {
			return pick(r, []interface{}{"foo", int32(300), int32(-1), 1.5, bson.A{}, bson.D{}, nil, true, int32(20), math.NaN(), math.Inf(1), 9223372036854775808.0, bson.A{"int", "foo"}, bson.A{int32(2), bson.A{}}, int64(256), mustDec("2")})
		}
		if r.chance(1, 3) {
			n := 1 + r.intn(3)
			a := bson.A{}
			for i := 0; i < n; i++ {
				var c interface{}
				if len(cands) > 0 {
					c = pick(r, cands)
				} else {
					c = genScalar(r)
				}
				a = append(a, typeArgFor(r, c))
			}
			return a
		}
		return typeArgFor(r, cand)
	case "$all":
		if g.bad() {
			return pick(r, []interface{}{nil, int32(1), "a", bson.D{}})
		}
		n := r.intn(4)
		a := bson.A{}
		for i := 0; i < n; i++ {
			a = append(a, g.operand(d, path))
		}
		if arr, ok := cand.(bson.A); ok && r.chance(1, 2) {
			// a sub-multiset of the candidate array, possibly in another numeric type
			a = bson.A{}
			for _, e := range arr {
				if r.chance(2, 3) {
					if r.chance(1, 4) {
						e = mutate(r, e)
					}
					a = append(a, e)
				}
			}
		}
		return a
	case "$size":
		if g.bad() {
			return pick(r, []interface{}{int32(-1), 1.5, "1", nil, math.NaN(), math.Inf(1), -0.5, int64(-3), bson.A{}, 9223372036854775808.0, -9223372036854775808.0, mustDec("1")})
		}
		n := int64(r.intn(4))
		for _, c := range cands {
			if arr, ok := c.(bson.A); ok && r.chance(2, 3) {
				n = int64(len(arr))
				break
			}
		}
		switch r.intn(4) {
		case 0:
			return int32(n)
		case 1:
			return n
		case 2:
			return float64(n)
		default:
			return int32(n)
		}
	case "$mod":
		if g.bad() {
			return pick(r, []interface{}{bson.A{}, bson.A{int32(1)}, bson.A{int32(0), int32(1)}, bson.A{math.NaN(), int32(1)}, bson.A{"a", int32(1)}, int32(5),
				bson.A{int32(1), int32(2), int32(3)}, bson.A{math.Inf(1), int32(0)}, bson.A{1e19, int32(0)}, bson.A{int32(2), math.NaN()}, bson.A{int32(2), nil},
				bson.A{0.5, int32(0)}, bson.A{mustDec("2"), int32(0)}, bson.A{int32(2), -9223372036854777856.0}, bson.A{-9223372036854775808.0, int32(0)}, nil, bson.D{}})
		}
		div := pick(r, []interface{}{int32(1), int32(2), int32(3), int64(2), int64(-2), 2.5, 2.0, int32(-1), int64(-1), int64(1) << 40, 3.9, -3.0, int32(5), int32(10)})
		var rem interface{} = pick(r, []interface{}{int32(0), int32(1), int64(0), 0.0, int32(-1), 1.5, int32(2), int64(-2), math.Copysign(0, -1)})
		for _, c := range cands {
			if n, ok := toInt64(c); ok && r.chance(2, 3) {
				if dv, ok := toInt64(div); ok && dv != 0 {
					rem = n % dv
					if r.chance(1, 3) {
						rem = float64(n % dv)
					}
				}
				break
			}
		}
		return bson.A{div, rem}
	case "$bitsAllSet", "$bitsAllClear", "$bitsAnySet", "$bitsAnyClear":
		if g.bad() {
			return pick(r, []interface{}{int32(-1), int64(-5), 1.5, "x", nil, bson.A{int32(-1)}, bson.A{"a"}, bson.A{1.5}, bson.A{int32(1), nil}, math.NaN(), math.Inf(1), -1.0, 1e19, 9223372036854775808.0 * 2, bson.D{}, bson.A{math.Inf(1)}, bson.A{-2.0}, mustDec("1"), true})
		}
		switch r.intn(8) {
		case 0, 1:
			return pick(r, []interface{}{int32(0), int32(1), int32(2), int32(3), int32(5), int32(255), int64(1) << 40, int64(math.MaxInt64), 4.0, 0.0, 9223372036854775808.0, math.Copysign(0, -1), int32(math.MaxInt32),
				bson.A{9223372036854775808.0}, bson.A{1e19, int32(0)}, bson.A{int64(math.MaxInt64), int32(1)}, bson.A{18446744073709549568.0}})
		case 2, 6:
			for _, c := range cands {
				if n, ok := toInt64(c); ok {
					m := n
					if op == "$bitsAllClear" || op == "$bitsAnyClear" {
						m = ^n
					}
					m &= int64(r.u64()) & math.MaxInt64
					if r.chance(1, 4) {
						m |= 1 << uint(r.intn(12))
					}
					if m >= 0 && m <= math.MaxInt32 && r.chance(1, 2) {
						return int32(m)
					}
					return m
				}
				if b, ok := c.(primitive.Binary); ok && len(b.Data) > 0 {
					if r.chance(1, 3) {
						// a position far beyond the data, in every numeric spelling up to the
						// largest double below 2^64 (byte index arithmetic must not wrap)
						return bson.A{int32(r.intn(8 * len(b.Data))), pick(r, []interface{}{9223372036854775808.0, 1e19, 18446744073709549568.0,
							int64(math.MaxInt64), float64(int64(1) << 62), int64(1) << 35, int32(math.MaxInt32), 4294967296.0, 34359738368.0})}
					}
					return bson.A{int32(r.intn(8 * len(b.Data))), int32(r.intn(8*len(b.Data) + 4))}
				}
			}
			return int32(1)
		case 3, 4:
			n := r.intn(4)
			a := bson.A{}
			for i := 0; i < n; i++ {
				a = append(a, pick(r, []interface{}{int32(0), int32(1), int32(2), int32(5), int32(7), int32(8), int32(9), int32(31), int32(63), int32(64), int32(100), int64(1), 1.0, 0.0, 63.0, int64(math.MaxInt64), 1e15, 18446744073709549568.0}))
			}
			if r.chance(1, 60) {
				a = append(a, pick(r, []interface{}{1e30, 18446744073709551616.0, -1e30}))
			}
			return a
		case 5:
			if b, ok := cand.(primitive.Binary); ok {
				return b
			}
			return primitive.Binary{Subtype: 0, Data: []byte(pick(r, []string{"", "a", "\x01", "\x00\x01", "\xff\xff"}))}
		default:
			return primitive.Binary{Subtype: byte(pick(r, []int64{0, 4})), Data: []byte(pick(r, []string{"", "a", "b", "\x01", "\x00\x01", "\xff"}))}
		}
	case "$not":
		if g.bad() {
			return pick(r, []interface{}{nil, int32(1), bson.D{}, primitive.Regex{Pattern: "a"}, bson.A{}, bson.D{{Key: "a", Value: int32(1)}}, bson.D{{Key: "$foo", Value: int32(1)}}})
		}
		return g.opDoc(d, path, depth-1, 1+r.intn(2))
	case "$elemMatch":
		if g.bad() {
			return pick(r, []interface{}{nil, int32(1), bson.A{}, "a", bson.D{{Key: "$foo", Value: int32(1)}}})
		}
		// the query is generated against an element of the candidate array
		var item interface{}
		for _, c := range cands {
			if arr, ok := c.(bson.A); ok && len(arr) > 0 {
				item = pick(r, arr)
				break
			}
		}
		if r.chance(1, 12) {
			return bson.D{}
		}
		virtual := bson.D{{Key: "item", Value: item}}
		if sub, ok := item.(bson.D); ok && r.chance(3, 4) {
			// document form: conditions on the element's fields
			q := bson.D{}
			n := 1 + r.intn(2)
			for i := 0; i < n; i++ {
				op := pickExprOp(r)
				p := g.pathFor(sub, op)
				g.force = op
				q = append(q, bson.E{Key: p, Value: g.cond(virtual, "item."+p, depth-1)})
				g.force = ""
			}
			return q
		}
		// operator form
		return g.opDoc(virtual, "item", depth-1, 1+r.intn(2))
	}
	return nil
}

// a document of n expression operators for the given path
func (g *fgen) opDoc(d bson.D, path string, depth int, n int) bson.D {
	r := g.r
	out := bson.D{}
	for i := 0; i < n; i++ {
		op := pickExprOp(r)
		if i == 0 && g.force != "" {
			op, g.force = g.force, ""
		} else {
			for try := 0; try < 3 && !opFits(op, pathCandidates(d, path)) && r.chance(2, 3); try++ {
				op = pickExprOp(r)
			}
		}
		if depth <= 0 && (op == "$not" || op == "$elemMatch") {
			op = pick(r, cmpOps)
		}
		if g.mal && r.chance(1, 12) {
			out = append(out, bson.E{Key: pick(r, []string{"$foo", "$regex", "$and", "$where", "$", "$eq ", "$jsonSchema"}), Value: genScalar(r)})
			continue
		}
		if g.mal && i > 0 && r.chance(1, 10) {
			out = append(out, bson.E{Key: pick(r, poolKeys), Value: genScalar(r)})
			continue
		}
		out = append(out, bson.E{Key: op, Value: g.opArg(op, d, path, depth)})
	}
	return out
}

// the value of a field condition: literal (default equality) or operator document
func (g *fgen) cond(d bson.D, path string, depth int) interface{} {
	r := g.r
	if r.chance(1, 5) {
		v := g.operand(d, path)
		if g.mal && r.chance(1, 6) {
			// a literal document that merely contains an operator key later on
			return bson.D{{Key: pick(r, poolKeys), Value: genScalar(r)}, {Key: "$gt", Value: int32(1)}}
		}
		return v
	}
	n := 1
	if r.chance(1, 4) {
		n = 2
	}
	return g.opDoc(d, path, depth, n)
}

func (g *fgen) filter(d bson.D, depth int) bson.D {
	r := g.r
	n := 1
	switch r.intn(10) {
	case 0:
		n = 0
	case 1, 2:
		n = 2
	case 3:
		n = 3
	}
	f := bson.D{}
	for i := 0; i < n; i++ {
		switch {
		case depth > 0 && r.chance(1, 4):
			op := pick(r, []string{"$and", "$or", "$nor", "$and", "$or", "$nor", "$jsonSchema", "$jsonSchema"})
			if op == "$jsonSchema" {
				if g.bad() {
					f = append(f, bson.E{Key: op, Value: pick(r, []interface{}{nil, int32(1), bson.A{}, "a"})})
				} else {
					f = append(f, bson.E{Key: op, Value: g.schema(d, 2)})
				}
				continue
			}
			if g.bad() {
				f = append(f, bson.E{Key: op, Value: pick(r, []interface{}{nil, bson.A{}, bson.D{}, int32(1), bson.A{int32(1)}, bson.A{bson.D{}, "a"}, bson.A{nil}})})
				continue
			}
			k := 1 + r.intn(3)
			a := bson.A{}
			for j := 0; j < k; j++ {
				a = append(a, g.filter(d, depth-1))
			}
			f = append(f, bson.E{Key: op, Value: a})
		case g.mal && r.chance(1, 15):
			f = append(f, bson.E{Key: pick(r, []string{"$eq", "$foo", "$not", "$elemMatch", "$", "$expr"}), Value: genScalar(r)})
		default:
			op := pickExprOp(r)
			p := g.pathFor(d, op)
			g.force = op
			f = append(f, bson.E{Key: p, Value: g.cond(d, p, depth)})
			g.force = ""
		}
	}
	return f
}

// ---- $jsonSchema generator ----

var jsonTypes = []string{"null", "boolean", "number", "string", "object", "array"}
var bsonAliases = []string{"double", "string", "object", "array", "binData", "objectId", "bool", "date", "null", "regex", "int", "timestamp", "long", "decimal", "number", "minKey", "undefined"}

// a bound near the actual length(s) of v
func lenBound(r *rng, v interface{}) interface{} {
	var ns []int64
	switch x := v.(type) {
	case string:
		ns = []int64{int64(len(x)), int64(len([]rune(x)))}
	case bson.A:
		ns = []int64{int64(len(x))}
	case bson.D:
		ns = []int64{int64(len(x))}
	}
	if len(ns) == 0 || r.chance(1, 4) {
		return smallInt(r)
	}
	n := pick(r, ns) + int64(r.intn(3)) - 1
	if n < 0 {
		n = 0
	}
	if r.chance(1, 2) {
		return int32(n)
	}
	return n
}

func smallInt(r *rng) interface{} {
	n := int64(r.intn(5))
	if r.chance(1, 2) {
		return int32(n)
	}
	return n
}

func (g *fgen) schema(v interface{}, depth int) bson.D {
	r := g.r
	s := bson.D{}
	n := 1 + r.intn(4)
	if r.chance(1, 12) {
		n = 0
	}
	if dd, ok := v.(bson.D); ok && len(dd) > 0 && depth > 0 && r.chance(1, 2) {
		// the common validator shape: a schema for a real member
		e := pick(r, dd)
		s = append(s, bson.E{Key: "properties", Value: bson.D{{Key: e.Key, Value: g.schema(e.Value, depth-1)}}})
	}
	if arr, ok := v.(bson.A); ok && len(arr) > 0 && depth > 0 && r.chance(1, 3) {
		s = append(s, bson.E{Key: "items", Value: g.schema(pick(r, arr), depth-1)})
	}
	for i := 0; i < n; i++ {
		kw := r.intn(28)
		if r.chance(1, 4) {
			kw = r.intn(7) // the generic keywords: type, bsonType, enum, allOf, anyOf, oneOf, not
		}
		if depth <= 0 && kw >= 3 && kw <= 6 {
			kw = 0
		}
		// bias towards keywords applicable to the value
		switch x := v.(type) {
		case bson.D:
			if r.chance(1, 2) {
				kw = pick(r, []int{14, 15, 16, 17, 18, 19, 18})
			}
			_ = x
		case bson.A:
			if r.chance(1, 2) {
				kw = pick(r, []int{20, 21, 22, 23, 24, 23})
			}
		case string:
			if r.chance(1, 2) {
				kw = pick(r, []int{12, 13})
			}
		case int32, int64, float64, primitive.Decimal128:
			if r.chance(1, 2) {
				kw = pick(r, []int{7, 8, 9, 10, 11})
			}
		}
		bad := g.bad()
		switch kw {
		case 0:
			switch {
			case bad:
				s = append(s, bson.E{Key: "type", Value: pick(r, []interface{}{"foo", int32(1), bson.A{}, bson.A{"string", int32(1)}, bson.A{"foo"}, nil})})
			case r.chance(1, 3):
				s = append(s, bson.E{Key: "type", Value: bson.A{pick(r, jsonTypes), pick(r, jsonTypes)}})
			default:
				s = append(s, bson.E{Key: "type", Value: pick(r, jsonTypes)})
			}
		case 1:
			switch {
			case bad:
				s = append(s, bson.E{Key: "bsonType", Value: pick(r, []interface{}{"foo", int32(1), bson.A{}, bson.A{"string", int32(1)}, bson.A{"foo"}, nil})})
			case r.chance(1, 3):
				s = append(s, bson.E{Key: "bsonType", Value: bson.A{pick(r, bsonAliases), pick(r, bsonAliases)}})
			default:
				s = append(s, bson.E{Key: "bsonType", Value: pick(r, bsonAliases)})
			}
		case 2:
			if bad {
				s = append(s, bson.E{Key: "enum", Value: pick(r, []interface{}{bson.A{}, int32(1), nil})})
			} else {
				a := bson.A{}
				k := 1 + r.intn(3)
				for j := 0; j < k; j++ {
					if r.chance(1, 2) {
						a = append(a, noMissing(mutate(r, v)))
					} else {
						a = append(a, genScalar(r))
					}
				}
				s = append(s, bson.E{Key: "enum", Value: a})
			}
		case 3, 4, 5:
			name := []string{"allOf", "anyOf", "oneOf"}[kw-3]
			if bad {
				s = append(s, bson.E{Key: name, Value: pick(r, []interface{}{bson.A{}, int32(1), bson.A{int32(1)}, bson.A{bson.D{}, "a"}, nil})})
			} else {
				a := bson.A{}
				k := 1 + r.intn(3)
				for j := 0; j < k; j++ {
					a = append(a, g.schema(v, depth-1))
				}
				s = append(s, bson.E{Key: name, Value: a})
			}
		case 6:
			if bad {
				s = append(s, bson.E{Key: "not", Value: pick(r, []interface{}{bson.A{}, int32(1), nil})})
			} else {
				s = append(s, bson.E{Key: "not", Value: g.schema(v, depth-1)})
			}
		case 7:
			switch {
			case bad:
				s = append(s, bson.E{Key: "multipleOf", Value: pick(r, []interface{}{int32(0), int32(-1), "a", nil, math.NaN(), 0.0, -2.5})})
			case r.chance(1, 25):
				s = append(s, bson.E{Key: "multipleOf", Value: mustDec(pick(r, []string{"2", "0.5", "0"}))})
			default:
				s = append(s, bson.E{Key: "multipleOf", Value: pick(r, []interface{}{int32(1), int32(2), int64(2), int64(3), 0.5, 2.0, 0.1, math.Inf(1), int64(1) << 53, 1e300, 5e-324, int32(5)})})
			}
		case 8, 9:
			name := []string{"minimum", "maximum"}[kw-8]
			if bad {
				s = append(s, bson.E{Key: name, Value: pick(r, []interface{}{"a", nil, bson.A{}, true})})
			} else {
				var b interface{} = genNumber(r)
				if _, ok := v.(bson.D); !ok && r.chance(1, 2) {
					if m := mutate(r, v); kindOf(m) == "int32" || kindOf(m) == "int64" || kindOf(m) == "double" || kindOf(m) == "decimal" {
						b = m
					}
				}
				s = append(s, bson.E{Key: name, Value: b})
			}
		case 10, 11:
			name := []string{"exclusiveMinimum", "exclusiveMaximum"}[kw-10]
			if bad {
				s = append(s, bson.E{Key: name, Value: pick(r, []interface{}{int32(1), nil, "true"})})
			} else {
				s = append(s, bson.E{Key: name, Value: r.chance(1, 2)})
				if r.chance(4, 5) {
					s = append(s, bson.E{Key: strings.ToLower(name[9:10]) + name[10:], Value: genNumber(r)})
				}
			}
		case 12, 13:
			name := []string{"minLength", "maxLength"}[kw-12]
			if bad {
				s = append(s, bson.E{Key: name, Value: pick(r, []interface{}{int32(-1), 1.0, "a", nil, int64(-2)})})
			} else {
				s = append(s, bson.E{Key: name, Value: lenBound(r, v)})
			}
		case 14:
			if bad {
				s = append(s, bson.E{Key: "required", Value: pick(r, []interface{}{bson.A{}, int32(1), bson.A{int32(1)}, bson.A{"a", nil}, nil})})
			} else {
				a := bson.A{}
				k := 1 + r.intn(2)
				for j := 0; j < k; j++ {
					if dd, ok := v.(bson.D); ok && r.chance(3, 4) {
						a = append(a, genPath(r, dd))
					} else {
						a = append(a, pick(r, poolKeys))
					}
				}
				s = append(s, bson.E{Key: "required", Value: a})
			}
		case 15, 16:
			name := []string{"minProperties", "maxProperties"}[kw-15]
			if bad {
				s = append(s, bson.E{Key: name, Value: pick(r, []interface{}{int32(-1), 1.0, "a", nil})})
			} else {
				s = append(s, bson.E{Key: name, Value: lenBound(r, v)})
			}
		case 17:
			if bad {
				s = append(s, bson.E{Key: "dependencies", Value: pick(r, []interface{}{bson.A{}, int32(1), bson.D{{Key: "a", Value: int32(1)}}, bson.D{{Key: "a", Value: bson.A{}}}, bson.D{{Key: "a", Value: bson.A{int32(1)}}}})})
			} else {
				dep := bson.D{}
				k := 1 + r.intn(2)
				for j := 0; j < k; j++ {
					key := pick(r, poolKeys)
					if dd, ok := v.(bson.D); ok && len(dd) > 0 && r.chance(2, 3) {
						key = pick(r, dd).Key
					}
					if r.chance(1, 2) {
						dep = append(dep, bson.E{Key: key, Value: g.schema(v, depth-1)})
					} else {
						dep = append(dep, bson.E{Key: key, Value: bson.A{pick(r, poolKeys), pick(r, poolKeys)}})
					}
				}
				s = append(s, bson.E{Key: "dependencies", Value: dep})
			}
		case 18:
			if bad {
				s = append(s, bson.E{Key: "properties", Value: pick(r, []interface{}{bson.A{}, int32(1), bson.D{{Key: "a", Value: int32(1)}}, nil})})
			} else {
				props := bson.D{}
				k := 1 + r.intn(3)
				for j := 0; j < k; j++ {
					key := pick(r, poolKeys)
					var member interface{}
					if dd, ok := v.(bson.D); ok && len(dd) > 0 && r.chance(3, 4) {
						e := pick(r, dd)
						key, member = e.Key, e.Value
					}
					props = append(props, bson.E{Key: key, Value: g.schema(member, depth-1)})
				}
				s = append(s, bson.E{Key: "properties", Value: props})
			}
		case 19:
			switch {
			case bad:
				s = append(s, bson.E{Key: "additionalProperties", Value: pick(r, []interface{}{int32(1), nil, bson.A{}})})
			case r.chance(1, 2):
				s = append(s, bson.E{Key: "additionalProperties", Value: r.chance(1, 3)})
			default:
				var member interface{}
				if dd, ok := v.(bson.D); ok && len(dd) > 0 {
					member = pick(r, dd).Value
				}
				s = append(s, bson.E{Key: "additionalProperties", Value: g.schema(member, depth-1)})
			}
		case 20, 21:
			name := []string{"minItems", "maxItems"}[kw-20]
			if bad {
				s = append(s, bson.E{Key: name, Value: pick(r, []interface{}{int32(-1), 1.0, "a", nil})})
			} else {
				s = append(s, bson.E{Key: name, Value: lenBound(r, v)})
			}
		case 22:
			if bad {
				s = append(s, bson.E{Key: "uniqueItems", Value: pick(r, []interface{}{int32(1), nil})})
			} else {
				s = append(s, bson.E{Key: "uniqueItems", Value: r.chance(3, 4)})
			}
		case 23:
			var item interface{}
			if arr, ok := v.(bson.A); ok && len(arr) > 0 {
				item = pick(r, arr)
			}
			switch {
			case bad:
				s = append(s, bson.E{Key: "items", Value: pick(r, []interface{}{int32(1), nil, bson.A{int32(1)}, true})})
			case r.chance(1, 2):
				s = append(s, bson.E{Key: "items", Value: g.schema(item, depth-1)})
			default:
				a := bson.A{}
				k := r.intn(3)
				for j := 0; j < k; j++ {
					a = append(a, g.schema(item, depth-1))
				}
				s = append(s, bson.E{Key: "items", Value: a})
			}
		case 24:
			var item interface{}
			if arr, ok := v.(bson.A); ok && len(arr) > 0 {
				item = pick(r, arr)
			}
			switch {
			case bad:
				s = append(s, bson.E{Key: "additionalItems", Value: pick(r, []interface{}{int32(1), nil, bson.A{}})})
			case r.chance(1, 2):
				s = append(s, bson.E{Key: "additionalItems", Value: r.chance(1, 3)})
			default:
				s = append(s, bson.E{Key: "additionalItems", Value: g.schema(item, depth-1)})
			}
			if r.chance(2, 3) {
				a := bson.A{}
				k := r.intn(3)
				for j := 0; j < k; j++ {
					a = append(a, g.schema(item, depth-1))
				}
				s = append(s, bson.E{Key: "items", Value: a})
			}
		case 25:
			if r.chance(1, 4) {
				s = append(s, bson.E{Key: pick(r, []string{"pattern", "patternProperties"}), Value: pick(r, []interface{}{"^a", bson.D{{Key: "^a", Value: bson.D{}}}, bson.D{}})})
			} else {
				s = append(s, bson.E{Key: pick(r, []string{"title", "description", "$ref"}), Value: "x"})
			}
		default:
			// a property schema for a real member: the common shape of validators
			if dd, ok := v.(bson.D); ok && len(dd) > 0 {
				e := pick(r, dd)
				s = append(s, bson.E{Key: "properties", Value: bson.D{{Key: e.Key, Value: g.schema(e.Value, depth-1)}}})
			} else {
				s = append(s, bson.E{Key: "bsonType", Value: pick(r, bsonAliases)})
			}
		}
	}
	return s
}

// ---- per-operator outcome (for the distribution report) ----

func classifyMatch(d bson.D, f bson.D, obs string) ([]string, bool) {
	labels := []string{"outcome:" + obs}
	depth := 0
	var walkTop func(q bson.D, lvl int)
	var walkInner func(v interface{}, ctx string)
	walkInner = func(v interface{}, ctx string) {
		switch x := v.(type) {
		case bson.D:
			for _, e := range x {
				if strings.HasPrefix(e.Key, "$") {
					labels = append(labels, ctx+":"+e.Key)
				}
				walkInner(e.Value, ctx)
			}
		case bson.A:
			for _, e := range x {
				walkInner(e, ctx)
			}
		}
	}
	walkTop = func(q bson.D, lvl int) {
		if lvl > depth {
			depth = lvl
		}
		for _, e := range q {
			if strings.HasPrefix(e.Key, "$") {
				labels = append(labels, "top:"+e.Key+":"+safeMatch(d, bson.D{e}))
				if arr, ok := e.Value.(bson.A); ok && (e.Key == "$and" || e.Key == "$or" || e.Key == "$nor") {
					for _, it := range arr {
						if sub, ok := it.(bson.D); ok {
							walkTop(sub, lvl+1)
						}
					}
				}
				if e.Key == "$jsonSchema" {
					if sd, ok := e.Value.(bson.D); ok {
						for _, kw := range sd {
							labels = append(labels, "schema:"+kw.Key)
						}
					}
				}
				continue
			}
			ops, ok := e.Value.(bson.D)
			if !ok || len(ops) == 0 || !strings.HasPrefix(ops[0].Key, "$") {
				labels = append(labels, "op:(literal):"+safeMatch(d, bson.D{e}))
				continue
			}
			for _, o := range ops {
				labels = append(labels, "op:"+o.Key+":"+safeMatch(d, bson.D{{Key: e.Key, Value: bson.D{o}}}))
				if o.Key == "$not" {
					walkInner(o.Value, "in-not")
				}
				if o.Key == "$elemMatch" {
					walkInner(o.Value, "in-elem")
				}
			}
		}
	}
	walkTop(f, 0)
	labels = append(labels, fmt.Sprintf("depth:%d", depth))
	return labels, len(f) > 0 && len(d) > 0
}

// documents for matching: the shared generator plus, often, an array of
// scalars or of similar sub-documents (fan-out, $elemMatch, $size, $all)
func genMatchDoc(r *rng) bson.D {
	d := genDocD(r, 3, r.chance(1, 3))
	if r.chance(1, 2) {
		key := pick(r, poolKeys)
		for _, e := range d {
			if e.Key == key {
				return d
			}
		}
		n := 1 + r.intn(4)
		arr := bson.A{}
		if r.chance(1, 2) {
			k1, k2 := pick(r, poolKeys), pick(r, poolKeys)
			arrays := r.chance(1, 3)
			for i := 0; i < n; i++ {
				sub := bson.D{}
				if arrays && r.chance(4, 5) {
					inner := bson.A{}
					for j := r.intn(3); j > 0; j-- {
						inner = append(inner, pick(r, []interface{}{int32(1), int32(2), int64(2), 3.0, "a", nil, bson.A{int32(1)}}))
					}
					sub = append(sub, bson.E{Key: k1, Value: inner})
				} else if r.chance(4, 5) {
					sub = append(sub, bson.E{Key: k1, Value: genValue(r, 1)})
				}
				if k2 != k1 && r.chance(1, 2) {
					sub = append(sub, bson.E{Key: k2, Value: genScalar(r)})
				}
				arr = append(arr, sub)
			}
		} else {
			base := genScalar(r)
			for i := 0; i < n; i++ {
				switch r.intn(3) {
				case 0:
					arr = append(arr, noMissing(mutate(r, base)))
				case 1:
					arr = append(arr, genNumber(r))
				default:
					arr = append(arr, genScalar(r))
				}
			}
		}
		d = append(d, bson.E{Key: key, Value: arr})
	}
	return d
}

func genMatchCase(r *rng) (bson.D, bson.D) {
	d := genMatchDoc(r)
	g := &fgen{r: r, mal: r.chance(15, 100)}
	return d, g.filter(d, 3)
}

// family `matchref`: pairs from the (mostly) well-formed stream.  Observable:
// the REAL Match result, then this harness's rendering of the reference
// semantics and of the domain classification (ref_match.go):
//
//	<T|F|ERR> -                    outside the property's domain D1–D4
//	<T|F|ERR> <T|F> core           inside `core`
//	<T|F|ERR> <T|F> <signature>    inside D1–D4, in the finding class <signature>
//
// The Coq side (Spec/RunRef.v) prints the model's Match result, RefMatch.holds
// and RefMatch.domain_class.  Whether the real matcher AGREES with the
// reference is judged by the oracle `reference` below, which can tell a known
// finding class from any other disagreement.
func genMatchRefPair(r *rng) (bson.D, bson.D) {
	d := genMatchDoc(r)
	g := &fgen{r: r, mal: r.chance(1, 30)}
	return d, g.filter(d, 3)
}

func matchRefObs(d bson.D, f bson.D) (real, ref, cls string) {
	real = matchObs(d, f)
	cls = refDomainClass(d, f)
	if cls != "" {
		ref = tf(refHolds(d, f))
	}
	return
}

// signature of a disagreement inside `core`: the repaired classes are
// recognised by the shape of the pair (their signatures are recorded as
// fixed, so they suppress nothing), everything else is a plain disagreement
func coreDisagreementSignature(d bson.D, f bson.D) string {
	// the repaired fan-out classes: the pair lay outside the old core
	if !refCoreGen(refFlags{oldTypeArray: true}, d, f) {
		return "C10:type-array-under-fanout"
	}
	if !refCoreGen(refFlags{oldExists: true}, d, f) {
		return "C10:exists-under-fanout-empty-array"
	}
	if !refCoreGen(refFlags{oldSize: true}, d, f) {
		return "C10:size-under-fanout"
	}
	if anyEntry(f, func(k string, x interface{}) bool {
		if k != "$type" {
			return false
		}
		spec, ok := refTypeSpec(x)
		return ok && refHasTypeByte(spec, 10)
	}) {
		return "C10:type-null-on-missing-field"
	}
	if anyEntry(f, func(k string, x interface{}) bool {
		if arr, ok := x.(bson.A); ok && k == "$all" {
			for _, v := range arr {
				if _, isArr := v.(bson.A); isArr {
					return true
				}
			}
		}
		return false
	}) {
		return "C10:all-mixed-operands"
	}
	return "C10:reference-disagreement"
}

// the verdict on one pair: "" when the real matcher agrees with the reference
// (or the pair is outside D1–D4), else the signature of the disagreement
func matchRefVerdict(d bson.D, f bson.D) (sig, detail string) {
	if unmodelledSyn(d, f) {
		return "", ""
	}
	real, ref, cls := matchRefObs(d, f)
	if cls == "" || real == ref {
		return "", ""
	}
	sig = cls
	if cls == "core" {
		sig = coreDisagreementSignature(d, f)
	}
	return sig, "real=" + real + " reference=" + ref
}

func init() {
	register(&family{
		name: "matchref",
		gen: func(r *rng) string {
			d, f := genMatchRefPair(r)
			return "(matchref " + enc(d) + " " + enc(f) + ")"
		},
		run: func(c *sx) string {
			d := decValue(c.list[1]).(bson.D)
			f := decValue(c.list[2]).(bson.D)
			if unmodelledSyn(d, f) {
				return "UNMODELLED"
			}
			real, ref, cls := matchRefObs(d, f)
			if cls == "" {
				return real + " -"
			}
			return real + " " + ref + " " + cls
		},
		classify: func(c *sx, obs string) ([]string, bool) {
			d := decValue(c.list[1]).(bson.D)
			f := decValue(c.list[2]).(bson.D)
			parts := strings.Fields(obs)
			labels, nt := classifyMatch(d, f, parts[0])
			switch {
			case len(parts) == 3 && parts[0] == parts[1]:
				labels = append(labels, "domain:"+parts[2]+":agrees")
			case len(parts) == 3:
				labels = append(labels, "domain:"+parts[2]+":differs")
			default:
				labels = append(labels, "domain:outside")
			}
			sort.Strings(labels)
			return labels, nt
		},
	})

	// replay vehicle of the oracle `reference` (model-free, no classify):
	//   (matchrefcase <doc> <filter>) -> OK | FAIL <signature> real=… reference=…
	register(&family{
		name: "matchrefcase",
		gen: func(r *rng) string {
			d, f := genMatchRefPair(r)
			return "(matchrefcase " + enc(d) + " " + enc(f) + ")"
		},
		run: func(c *sx) string {
			d := decValue(c.list[1]).(bson.D)
			f := decValue(c.list[2]).(bson.D)
			sig, detail := matchRefVerdict(d, f)
			if sig == "" {
				return "OK"
			}
			return "FAIL " + sig + " " + detail
		},
	})

	registerOracle(&oracle{prop: "C10", name: "reference", run: oracleC10Reference})
}

// oracle `reference`: the real mongokit.Match against the reference semantics
// on the property's domain D1–D4.  A disagreement inside a finding class
// carries that class's signature (known_findings.json); a disagreement inside
// `core` carries C10:reference-disagreement.
func oracleC10Reference(r *rng, n int, st *oracleStats) []oracleFailure {
	st.Rule = "pairs from the match grammar (well-formed stream); the real Match result against the reference semantics (harness/ref_match.go, tied to Spec/RefMatch.v by family matchref) whenever the pair lies in D1–D4; a disagreement is attributed to the finding class the pair lies in (signature of the class) or, inside core, reported as C10:reference-disagreement; non-trivial = the pair lies in D1–D4"
	var fails []oracleFailure
	perSig := map[string]int{}
	for i := 0; i < n; i++ {
		d, f := genMatchRefPair(r)
		st.Evaluations++
		if unmodelledSyn(d, f) {
			st.Dist["unmodelled"]++
			continue
		}
		var real, ref, cls string
		func() {
			defer func() {
				if p := recover(); p != nil {
					real, cls = "PANIC", "core"
				}
			}()
			real, ref, cls = matchRefObs(d, f)
		}()
		if cls == "" {
			st.Dist["outside"]++
			continue
		}
		st.Nontrivial++
		if real == ref {
			st.Dist[cls+":agrees"]++
			continue
		}
		st.Dist[cls+":differs"]++
		sig := cls
		if cls == "core" {
			sig = coreDisagreementSignature(d, f)
		}
		perSig[sig]++
		if perSig[sig] <= 3 {
			fails = append(fails, oracleFailure{Property: "C10", Signature: sig,
				What:   "the real Match and the reference semantics differ on a pair of the property's domain: real=" + real + " reference=" + ref,
				Family: "matchrefcase", Case: "(matchrefcase " + enc(d) + " " + enc(f) + ")"})
		}
		if len(st.Samples) < 3 {
			st.Samples = append(st.Samples, "(matchrefcase "+enc(d)+" "+enc(f)+") => real="+real+" reference="+ref+" class="+cls)
		}
	}
	return fails
}

func init() {
	register(&family{
		name: "match",
		gen: func(r *rng) string {
			d, f := genMatchCase(r)
			return "(match " + enc(d) + " " + enc(f) + ")"
		},
		run: func(c *sx) string {
			d := decValue(c.list[1]).(bson.D)
			f := decValue(c.list[2]).(bson.D)
			if unmodelledSyn(d, f) {
				// still run the real code (C20: it must not panic)
				matchObs(d, f)
				return "UNMODELLED"
			}
			return matchObs(d, f)
		},
		classify: func(c *sx, obs string) ([]string, bool) {
			d := decValue(c.list[1]).(bson.D)
			f := decValue(c.list[2]).(bson.D)
			labels, nt := classifyMatch(d, f, obs)
			if f != nil && len(f) > 0 {
				g := "wellformed"
				if obs == "ERR" {
					g = "error"
				}
				labels = append(labels, "stream:"+g)
			}
			sort.Strings(labels)
			return labels, nt
		},
	})
}
