package main

// family `ttlx` (C19): like `ttl` (fam_api.go) but every history has at
// least one TTL index, the indexed fields include the dotted path "s.t"
// (sub-documents and arrays of sub-documents), keys may be descending,
// expireAfterSeconds 0/60/3600/7200, TTL indexes are created before or after
// the documents, values cover every BSON class next to dates, and between
// two passes documents are re-dated, deleted or inserted.  Same runner and
// same model entry point as `ttl` (case tag apirel: every date is an offset
// from the moment the history starts; Driver.step CExpire with now_ms = 0).

import (
	"strconv"
	"strings"

	"go.mongodb.org/mongo-driver/bson"
	"go.mongodb.org/mongo-driver/bson/primitive"
)

func genTTLx(r *rng) string {
	const sec = int64(1000)
	offsets := []int64{-3 * 3600 * sec, -7200*sec - 5*sec, -7200*sec + 5*sec, -3600*sec - 5*sec, -3600*sec + 5*sec, -65 * sec, -55 * sec, -5 * sec, 5 * sec, 3600 * sec}
	date := func() interface{} { return primitive.DateTime(pick(r, offsets)) }
	val := func() interface{} {
		switch r.intn(14) {
		case 0:
			return nil
		case 1:
			return int64(pick(r, offsets)) // a number that looks like a date
		case 2:
			return float64(pick(r, offsets))
		case 3:
			return "x"
		case 4:
			return bson.A{int32(1), date(), "x"}
		case 5:
			return bson.A{date(), date()}
		case 6:
			return bson.A{}
		case 7:
			return bson.A{bson.A{date()}}
		case 8:
			return primitive.Timestamp{T: 1, I: 1}
		case 9:
			return bson.D{{Key: "x", Value: date()}}
		case 10:
			return true
		default:
			return date()
		}
	}
	sval := func() interface{} {
		switch r.intn(6) {
		case 0:
			return bson.D{{Key: "t", Value: date()}}
		case 1:
			return bson.D{{Key: "t", Value: bson.A{"x", date()}}}
		case 2:
			return bson.A{bson.D{{Key: "t", Value: date()}}, bson.D{{Key: "u", Value: date()}}, bson.D{{Key: "t", Value: date()}}, int32(3)}
		case 3:
			return date()
		case 4:
			return bson.D{{Key: "u", Value: date()}}
		default:
			return bson.D{{Key: "t", Value: val()}}
		}
	}
	parts := []string{"apirel", "0"}
	colls := []string{hx("db") + " " + hx("c"), hx("db") + " " + hx("d"), hx("e") + " " + hx("c")}
	var early, late []string
	place := func(s string) {
		if r.chance(2, 3) {
			early = append(early, s)
		} else {
			late = append(late, s)
		}
	}
	fields := []string{"a", "b", "s.t"}
	nIdx := 1 + r.intn(3)
	for i := 0; i < nIdx; i++ {
		f := pick(r, fields)
		exp := pick(r, []int{0, 60, 3600, 7200})
		partial := "NIL"
		if r.chance(1, 6) {
			partial = enc(bson.D{{Key: "k", Value: int32(1)}})
		}
		coll := pick(r, colls[:2])
		if i == 0 {
			coll = colls[0]
		}
		place("(createIndex 0 " + coll + " x " + enc(bson.D{{Key: f, Value: pick(r, []int32{1, -1})}}) + " " + tf(r.chance(1, 8)) + " " + partial + " " + strconv.Itoa(exp) + ")")
	}
	if r.chance(1, 3) {
		place("(createIndex 0 " + colls[0] + " x " + enc(bson.D{{Key: "k", Value: int32(1)}}) + " F NIL NIL)")
	}
	if r.chance(1, 3) {
		// a non-TTL (possibly compound) index on a date field, also in the collection without TTL index
		keys := bson.D{{Key: pick(r, fields), Value: int32(1)}}
		if r.chance(1, 2) {
			keys = append(keys, bson.E{Key: "k", Value: int32(-1)})
		}
		place("(createIndex 0 " + pick(r, colls) + " x " + enc(keys) + " F NIL NIL)")
	}
	if r.chance(1, 10) {
		// refused: compound TTL index
		place("(createIndex 0 " + colls[0] + " x " + enc(bson.D{{Key: "a", Value: int32(1)}, {Key: "b", Value: int32(1)}}) + " F NIL 60)")
	}
	parts = append(parts, early...)
	id := 0
	doc := func() bson.D {
		id++
		d := bson.D{{Key: "_id", Value: int32(id)}}
		if r.chance(5, 6) {
			d = append(d, bson.E{Key: "a", Value: val()})
		}
		if r.chance(1, 2) {
			d = append(d, bson.E{Key: "b", Value: val()})
		}
		if r.chance(1, 2) {
			d = append(d, bson.E{Key: "s", Value: sval()})
		}
		if r.chance(1, 2) {
			d = append(d, bson.E{Key: "k", Value: int32(r.intn(2))})
		}
		return d
	}
	nDocs := 3 + r.intn(10)
	for i := 0; i < nDocs; i++ {
		coll := colls[0]
		if r.chance(1, 3) {
			coll = pick(r, colls[1:])
		}
		parts = append(parts, "(insertOne 0 "+coll+" "+enc(doc())+")")
	}
	parts = append(parts, late...)
	parts = append(parts, "(expire 0)")
	for _, c := range colls {
		parts = append(parts, "(find 0 "+c+" (D) NIL NIL 0 0)")
	}
	if r.chance(1, 2) {
		// between two passes: more documents, then the second pass
		for i := r.intn(3); i > 0; i-- {
			parts = append(parts, "(insertOne 0 "+pick(r, colls[:2])+" "+enc(doc())+")")
		}
		parts = append(parts, "(expire 0)")
		parts = append(parts, "(find 0 "+colls[0]+" (D) NIL NIL 0 0)")
	}
	return "(" + strings.Join(parts, " ") + ")"
}

func init() {
	register(&family{
		name: "ttlx",
		gen:  genTTLx,
		run:  runAPI,
		classify: func(c *sx, obs string) ([]string, bool) {
			n := strings.Count(obs, "x64656c657465") // "delete" events
			k := "expired:none"
			switch {
			case n > 3:
				k = "expired:4+"
			case n > 0:
				k = "expired:1-3"
			}
			return []string{k}, n > 0
		},
	})
}
