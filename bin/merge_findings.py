#!/usr/bin/env python3
"""bin/merge_findings.py BRANCH — resolve a known_findings.json merge conflict: union by (property, signature); a 'fixed' entry wins over a 'finding' entry."""
import json, subprocess, sys
def load(ref):
    return json.loads(subprocess.run(['git','show',ref+':known_findings.json'],capture_output=True,text=True,cwd='/verif').stdout)
ours, theirs = load('HEAD'), load(sys.argv[1])
idx = {(f['property'], f['signature']): i for i, f in enumerate(ours['findings'])}
for f in theirs['findings']:
    k = (f['property'], f['signature'])
    if k not in idx:
        ours['findings'].append(f); idx[k] = len(ours['findings']) - 1
    elif f.get('status') == 'fixed' and ours['findings'][idx[k]].get('status') != 'fixed':
        ours['findings'][idx[k]] = f
json.dump(ours, open('/verif/known_findings.json', 'w'), indent=1)
print([(f['property'], f['status'], f['signature']) for f in ours['findings']])
