#!/usr/bin/env python3
"""Resolve the recurring merge conflicts of agent branches:
 - coq/Model/Run.v: union of the imported modules and of the runners
 - any other listed file: keep OUR side of each conflict hunk (pass `ours:<path>`) or THEIR side (`theirs:<path>`)."""
import re, sys
def hunks(text):
    return re.compile(r"<<<<<<< [^\n]*\n(.*?)=======\n(.*?)>>>>>>> [^\n]*\n", re.S)
def run_v(path):
    s = open(path).read()
    def merge(m):
        a, b = m.group(1), m.group(2)
        if "Require Import" in a or "Require Import" in b:
            libs = {}
            order = []
            for side in (a, b):
                for m2 in re.finditer(r"From (\S+) Require Import ([^.]*(?:\.[A-Za-z][^. ]*)*)\.\s*\n", side):
                    lib = m2.group(1)
                    if lib not in libs: libs[lib] = []; order.append(lib)
                    for w in m2.group(2).split():
                        if w not in libs[lib]: libs[lib].append(w)
            return "".join("From %s Require Import %s.\n" % (l, " ".join(libs[l])) for l in order)
        lines = []
        for side in (a, b):
            for l in side.splitlines():
                if l.strip() and l not in lines: lines.append(l)
        return "\n".join(lines) + "\n"
    open(path, "w").write(hunks(s).sub(merge, s))
def side(path, which):
    s = open(path).read()
    open(path, "w").write(hunks(s).sub(lambda m: m.group(1 if which == "ours" else 2), s))
for a in sys.argv[1:]:
    if a.endswith("Run.v"): run_v(a)
    elif a.startswith("ours:"): side(a[5:], "ours")
    elif a.startswith("theirs:"): side(a[7:], "theirs")
