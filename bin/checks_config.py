"""Configuration loader of bin/check.  Every property has one file
bin/checks.d/Cxx.json: which Coq property files carry its theorems, which
correspondence families and oracles tie them to /repo, and the case counts of
the two tiers (fixed, so a check runs in minutes)."""
import glob, json, os

TRUSTED_BASE = [
    "Coq 8.16.1 kernel (coqc from Debian); vm_compute used for reflexive obligations and in-Coq case evaluation; native_compute not used",
    "no axioms: every property theorem prints 'Closed under the global context' (checked on every run)",
    "translator /verif/translator (go/ast): renders the listed /repo source fragments into coq/Gen/*.v; unrecognised syntax becomes an Unknown item that fails the obligation",
    "extraction: Require Extraction ExtrOcamlBasic only (Extract Inductive bool/option/unit/list/prod/sumbool/sumor; Extract Inlined Constant andb/orb/negb/fst/snd); Z, N, positive, string, ascii, comparison stay extracted inductives; OCaml 4.13.1; /verif/ocaml/driver.ml (60 lines: line reader, string conversion, diff)",
    "correspondence harness /verif/harness (Go): generators, runners, canonical printers, property oracles; Go toolchain; mongo-driver bson package for building inputs",
    "the model is hand-written Gallina mirroring lungo function by function: the theorems are about the model; only the generated definitions and the correspondence runs tie them to /repo",
]

ALLOWED_AXIOMS = set()

CHECKS = {}
for _p in sorted(glob.glob(os.path.join(os.path.dirname(os.path.abspath(__file__)), "checks.d", "C*.json"))):
    CHECKS[os.path.basename(_p)[:-5]] = json.load(open(_p))
