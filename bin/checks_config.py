"""Per-property configuration of bin/check: which Coq property files carry the
theorems, which correspondence families and oracles tie them to /repo, and the
case counts of the two tiers (fixed, so a check runs in minutes)."""

TRUSTED_BASE = [
    "Coq 8.16.1 kernel (coqc from Debian); vm_compute used for reflexive obligations and in-Coq case evaluation; native_compute not used",
    "no axioms: every property theorem prints 'Closed under the global context' (checked on every run)",
    "translator /verif/translator (go/ast): renders the listed /repo source fragments into coq/Gen/*.v; unrecognised syntax becomes an Unknown item that fails the obligation",
    "extraction: Require Extraction ExtrOcamlBasic only (Extract Inductive bool/option/unit/list/prod/sumbool/sumor; Extract Inlined Constant andb/orb/negb/fst/snd); Z, N, positive, string, ascii, comparison stay extracted inductives; OCaml 4.13.1; /verif/ocaml/driver.ml (60 lines: line reader, string conversion, diff)",
    "correspondence harness /verif/harness (Go): generators, runners, canonical printers, property oracles; Go toolchain; mongo-driver bson package for building inputs",
    "the model is hand-written Gallina mirroring lungo function by function: the theorems are about the model; only the generated definitions and the correspondence runs tie them to /repo",
]

ALLOWED_AXIOMS = set()

CHECKS = {
    "C12": dict(
        property_files=["Properties/C12.v"],
        families=[dict(name="cmp", quick=30000, thorough=1500000, coq_sample=dict(quick=300, thorough=2000))],
        oracle=dict(quick=60000, thorough=3000000),
        rule="family cmp: pairs from the collision-rich value pool (all four numeric types incl. NaN/Inf/-0/2^53/2^63 boundaries, nested documents and arrays, near-copies); sign of bsonkit.Compare vs extracted model compare; non-trivial = the two renderings differ",
        modelled="bsonkit.Compare, bsonkit.Inspect, Decimal128.BigInt decoding and IEEE-754 decoding are modelled (Model/Num.v, Model/Compare.v); shopspring/decimal and math/big are not modelled, only compared against",
        assumptions=["values are built from the supported BSON types (Inspect panics on others by documented contract)"],
    ),
}
