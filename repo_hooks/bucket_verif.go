//go:build verif

package lungo

import (
	"context"

	"go.mongodb.org/mongo-driver/mongo/gridfs"
)

// VerifOpenUploadStream is OpenUploadStreamWithID with an explicit chunk size
// (no int32 narrowing) and an explicit upload buffer size. In production the
// buffer always has gridfs.UploadBufferSize (16 MiB) bytes. The method exists
// only under the build tag "verif" so that the verification harness can make
// the buffer wrap-around of UploadStream.Write frequent with small contents.
//
// With the production buffer size the stream comes from newUploadStream; with
// another size it is built field by field (same fields as newUploadStream, no
// metadata) to avoid allocating and zeroing 16 MiB per stream.
func (b *Bucket) VerifOpenUploadStream(ctx context.Context, id interface{}, name string, chunkSize, bufSize int) (*UploadStream, error) {
	// ensure indexes
	err := b.EnsureIndexes(ctx, false)
	if err != nil {
		return nil, err
	}

	// use the production constructor for the production buffer size
	if bufSize == gridfs.UploadBufferSize {
		return newUploadStream(ctx, b, id, name, chunkSize, nil), nil
	}

	return &UploadStream{
		context:   ctx,
		bucket:    b,
		id:        id,
		name:      name,
		chunkSize: chunkSize,
		buffer:    make([]byte, bufSize),
	}, nil
}
