//go:build verif

package lungo

import (
	"context"
	"fmt"

	"go.mongodb.org/mongo-driver/mongo/gridfs"
	"go.mongodb.org/mongo-driver/mongo/options"
)

// VerifOpenUploadStream is OpenUploadStreamWithID with an explicit chunk size
// and an explicit upload buffer size. In production the buffer always has
// gridfs.UploadBufferSize (16 MiB) bytes. The method exists only under the
// build tag "verif" so that the verification harness can make the buffer
// wrap-around of UploadStream.Write frequent with small contents.
//
// The chunk size is validated like in OpenUploadStreamWithID, with the given
// buffer size as the bound. With the production buffer size the call is
// delegated to OpenUploadStreamWithID (production validation and constructor);
// with another size the stream is built field by field (same fields as
// newUploadStream, no metadata) to avoid allocating and zeroing 16 MiB per
// stream.
func (b *Bucket) VerifOpenUploadStream(ctx context.Context, id interface{}, name string, chunkSize, bufSize int) (*UploadStream, error) {
	// use the production path for the production buffer size
	if bufSize == gridfs.UploadBufferSize && int(int32(chunkSize)) == chunkSize {
		return b.OpenUploadStreamWithID(ctx, id, name, options.GridFSUpload().SetChunkSizeBytes(int32(chunkSize)))
	}

	// ensure indexes
	err := b.EnsureIndexes(ctx, false)
	if err != nil {
		return nil, err
	}

	// check chunk size: chunks are cut from the upload buffer
	if chunkSize <= 0 || chunkSize > bufSize {
		return nil, fmt.Errorf("invalid chunk size: %d", chunkSize)
	}

	return &UploadStream{
		context:   ctx,
		bucket:    b,
		id:        id,
		name:      name,
		chunkSize: chunkSize,
		buffer:    make([]byte, bufSize),
	}, nil
}
